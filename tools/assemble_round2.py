#!/usr/bin/env python3
"""assemble_round2.py [matrix.json] (ROUND=2|3 in the environment): copy the confirmed round-2 changes from /tmp/wt-<ID>-out/{m3,m4,b1,b2,b3}
(round 3: {m5,m6,b4,b5,b6}) into
/verif/seeded/<ID>-<k>/ with patch.diff, the demonstration and a meta.json that records my confirmation (confirm_seed2.sh logs)
and which static checks fire (seed_matrix.py results)."""
import os, sys, json, re, glob, shutil
mx = json.load(open(sys.argv[1] if len(sys.argv) > 1 else "/tmp/seed_matrix.json"))
OUT = "/verif/seeded"
ROUND = int(os.environ.get("ROUND", "2"))
KEYS = {2: ("m3", "m4", "b1", "b2", "b3", "b2r"), 3: ("m5", "m6", "b4", "b5", "b6"), 4: ("m7", "m8", "b7", "b8", "b9"), 5: ("m9", "m10", "b10", "b11"), 6: ("m11", "m12", "b12", "b13")}[ROUND]
n = 0
WT = os.environ.get("WTPREFIX", "/tmp/wt-")
for d in sorted(glob.glob(WT + "C??-out")):
    pid = os.path.basename(d)[len(os.path.basename(WT)):][:3]
    blog = os.path.join(d, "b-confirm.log")
    btxt = open(blog).read() if os.path.exists(blog) else ""
    for k in KEYS:
        src = os.path.join(d, k)
        if not os.path.exists(os.path.join(src, "patch.diff")):
            continue
        name = "%s-%s" % (pid, k)
        res = mx.get(name)
        if res is None or "_apply" in res:
            print("skip %s: %s" % (name, "no matrix entry" if res is None else res["_apply"][:60]))
            continue
        try:
            meta = json.load(open(os.path.join(src, "meta.json")))
        except Exception:
            meta = {}
        benign = k.startswith("b")
        conf = {}
        if not benign:
            log = os.path.join(src, "confirm.log")
            txt = open(log).read() if os.path.exists(log) else ""
            g = lambda key: (re.findall(r"%s=(-?\d+)" % key, txt) or [None])[-1]
            conf = {"clean_demo_exit": g("CLEAN_DEMO_RC"), "build_exit": g("BUILD_RC"), "seeded_demo_exit": g("MUTANT_DEMO_RC"), "suite_exit": g("SUITE_RC"),
                    "suite": (re.findall(r"SUITE_PASS=(\d+) FAIL=(\d*) ERROR=(\d*)", txt) or [None])[-1]}
            if conf["clean_demo_exit"] != "0" or conf["seeded_demo_exit"] in ("0", None) or conf["suite_exit"] != "0":
                print("NOT CONFIRMED %s: %s" % (name, conf))
                continue
        else:
            applied = ("APPLIED %s" % k) in btxt
            suite = (re.findall(r"SUITE_RC=(\d+)", btxt) or [None])[-1]
            conf = {"applied_with_the_property's_other_benign_changes": applied, "build_warnings": (re.findall(r"BUILD_WARNINGS=(\d+)", btxt) or [None])[-1],
                    "suite_exit": suite, "suite": (re.findall(r"SUITE_PASS=(\d+) FAIL=(\d*) ERROR=(\d*)", btxt) or [None])[-1]}
            if k == "b2r":
                conf["note"] = "b2 rebased by hand onto the repaired hwloc_internal_cpukinds_restrict (fix ae9b742); suite run was made with the original b2 on the pre-fix base"
            elif not applied or suite != "0":
                print("NOT CONFIRMED %s: %s" % (name, conf))
                continue
        det = {p: v[1] for p, v in res.items() if v[0] == 1}
        broken = [p for p, v in res.items() if v[0] == 2]
        dst = os.path.join(OUT, name)
        os.makedirs(dst, exist_ok=True)
        for fn in os.listdir(src):
            if fn in ("patch.diff", "demo.c", "demo.sh") or (fn.endswith((".xml", ".sh", ".c", ".h")) and os.path.getsize(os.path.join(src, fn)) < 200000):
                shutil.copy(os.path.join(src, fn), os.path.join(dst, fn))
        out = {"id": name, "round": ROUND, "kind": "benign refactoring (behaviour-preserving)" if benign else "property-breaking change", "property": pid,
               "summary": meta.get("summary", ""), "files": meta.get("files", []), "functions": meta.get("functions", []),
               "author": "independent sub-agent given only the property text (with its anchor file names) and a scratch worktree",
               "confirmed_by_me": dict(conf, procedure="tools/confirm_seed2.sh %s in the scratch worktree %s%s" % (pid, WT, pid)),
               "static_checks": {"detected_by": det, "analysis_broken_in": broken,
                                 "expected": "silent (exit 0) in every check" if benign else "any check of the property fires",
                                 "procedure": "tools/seed_matrix.py: every registered quick check on a scratch copy of /repo HEAD with the patch applied"}}
        if benign:
            out["why_behaviour_preserving"] = meta.get("why_behaviour_preserving", "")
        else:
            out["needs_to_manifest"] = meta.get("needs_to_manifest", "")
        json.dump(out, open(os.path.join(dst, "meta.json"), "w"), indent=1)
        n += 1
        print("%-8s %s %s" % (name, "benign" if benign else "break ", (" ".join("%s(%s)" % (p, ",".join(r)) for p, r in det.items()) or "--") + ("  [exit2 %s]" % broken if broken else "")))
print(n, "assembled")
