#!/usr/bin/env python3
"""seed_matrix.py <seed dir>... : run every registered check against a scratch copy of /repo with each seeded patch applied
(copies under /tmp, removed afterwards; output redirected so that /verif/evidence is untouched).  Prints the detection matrix."""
import os, sys, json, subprocess, shutil, tempfile
from concurrent.futures import ThreadPoolExecutor
VERIF = os.environ.get("VERIF_DIR", "/verif")
man = json.load(open(os.path.join(VERIF, "MANIFEST.json")))
props = [c["property_id"] for c in man["checks"]]
seeds = sys.argv[1:]
base = tempfile.mkdtemp(prefix="seedmx-", dir="/tmp")


def one(seed):
    import re
    mm = re.search(r"(C\d\d)-out$", os.path.dirname(seed.rstrip("/")))
    name = (mm.group(1) + "-" + os.path.basename(seed.rstrip("/"))) if mm else os.path.basename(seed.rstrip("/"))
    copy = os.path.join(base, name)
    subprocess.run(["rsync", "-a", "--exclude", ".git", "--exclude", "*.o", "--exclude", "*.lo", "--exclude", ".libs", "--exclude", "tests", "--exclude", "doc", "/repo/", copy + "/"], check=True)
    r = subprocess.run(["patch", "-p1", "-s", "-d", copy, "-i", os.path.join(seed, "patch.diff")], capture_output=True, text=True)
    if r.returncode != 0:
        shutil.rmtree(copy, ignore_errors=True)
        return name, {"_apply": "FAILED: " + (r.stdout + r.stderr)[-200:]}
    out = os.path.join(base, name + ".out")
    res = {}
    for p in props:
        env = dict(os.environ, HWLOC_REPO=copy, VERIF_OUT=out)
        rr = subprocess.run([os.path.join(VERIF, "check"), p], capture_output=True, text=True, env=env, cwd=VERIF)
        rules = sorted(set(l.split("rule=")[1].split(" ")[0] for l in rr.stdout.splitlines() if l.strip().startswith("rule=")))
        res[p] = (rr.returncode, rules)
    shutil.rmtree(copy, ignore_errors=True)
    shutil.rmtree(out, ignore_errors=True)
    return name, res


with ThreadPoolExecutor(max_workers=int(os.environ.get("MATRIX_JOBS", "8"))) as ex:
    results = dict(ex.map(one, seeds))
shutil.rmtree(base, ignore_errors=True)
json.dump(results, open(os.environ.get("MATRIX_OUT", "/tmp/seed_matrix.json"), "w"), indent=1)
for name in sorted(results):
    r = results[name]
    if "_apply" in r:
        print("%-10s %s" % (name, r["_apply"]))
        continue
    hits = ["%s(%s)" % (p, ",".join(v[1])) for p, v in r.items() if v[0] == 1]
    broken = [p for p, v in r.items() if v[0] == 2]
    print("%-10s %s%s" % (name, " ".join(hits) or "-- not detected --", ("  [exit 2: %s]" % ",".join(broken)) if broken else ""))
