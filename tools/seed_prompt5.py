#!/usr/bin/env python3
"""seed_prompt4.py: round-5 prompts (same task as round 2, other directory names) for independent sub-agents (property text + scratch worktree only, nothing from /verif):
two more property-breaking changes (m9, m10) and three behaviour-preserving refactorings (b7..b9) per property."""
import json
props = {json.loads(l)['id']: json.loads(l) for l in open('/verif/properties.jsonl')}
T = '''You are working on the open-source C library hwloc (hardware topology discovery). A scratch git worktree of it is at /tmp/w5-{id} — already configured and built in-tree. Rebuild after edits with `make -j16` (from /tmp/w5-{id}); the full existing test suite is `make check -j4` from the top directory (about 3 minutes; run it with a generous timeout, e.g. 25 minutes). Work ONLY inside /tmp/w5-{id} and /tmp/w5-{id}-out. Do not read, list or modify /repo or /verif or anything under /root/.vp.

PROPERTY ({id}: {title}):
{statement}

Code that implements it (starting points): files {files}.

YOUR TASK has two parts. All changes are to hwloc sources (library under hwloc/ or include/, or tools under utils/) — never the tests, never build files.

PART A — TWO independent BREAKING changes (m9, m10). Each must BREAK this property while the code still compiles and the ENTIRE existing test suite still passes. Each must be realistic (the kind of slip a maintainer could make in a refactor or feature patch: a dropped or weakened check, a bound off by one, a forgotten update or invalidation in one branch, a wrong variable or field, an obligation skipped on one path, an error code lost, a cleanup missed or done twice on an error path, state left behind by a failed call, a loop or buffer boundary, an interaction between two API calls...) and SUBTLE: it must need something specific to manifest — an unusual input, a truncating buffer size, a particular flag combination, a multi-step sequence of API calls, a rarely used code path — not something ordinary use would expose at once. For this round prefer, where the property allows it: (i) two cooperating sites that each look fine alone (e.g. one function stops maintaining a field that another one relies on; a helper's contract changes slightly and one caller is not adapted), (ii) a failure at a particular point (an allocation, a file read or a nested call failing) that leaves state behind, (iii) a multi-step sequence of API calls where an earlier call leaves something the later one trips on. The two changes must be different in kind, touch different functions, and preferably different clauses of the property.
For each change k in {{9,10}} create directory /tmp/w5-{id}-out/m<k>/ containing:
  - patch.diff : output of `git diff` against HEAD (must apply with `git apply` on a clean tree; source files only)
  - a demonstration: a small C program (demo.c, linked against the worktree's library: e.g. `gcc -I/tmp/w5-{id}/include demo.c -o demo /tmp/w5-{id}/hwloc/.libs/libhwloc.so -Wl,-rpath,/tmp/w5-{id}/hwloc/.libs`) or shell script (demo.sh) that exits non-zero / crashes / prints a wrong result WITH the change and exits 0 WITHOUT it. Use -fsanitize=address or valgrind in the demo if the failure is a memory error that does not crash by itself.
  - meta.json : {{"property": "{id}", "summary": "...", "needs_to_manifest": "...", "files": [...], "functions": [...], "commands": ["exact commands you ran"], "suite_result": "e.g. 174 passed 0 failed"}}
Verify each yourself: (1) apply it, `make -j16`, then `make check -j4` passes completely (no FAIL/ERROR; check the final make exit status and the test-suite.log summaries; if only tests/hwloc/linux/gather/test-gather-topology.sh fails, re-run that one alone — it is timing-sensitive under load); (2) the demo fails with the change; (3) `git checkout -- .`, rebuild, and the demo passes on the unmodified tree. If a candidate makes an existing test fail, discard it and find another.

PART B — TWO independent BENIGN refactorings (b10, b11) of code that implements this property. Each must leave behaviour EXACTLY unchanged for every input and every call sequence (same results, same errors and errno, same side effects, same memory safety, same thread safety) — the property must still hold — and be the kind of clean-up a maintainer would plausibly commit: rename local variables, parameters or a static helper function, extract a static helper function out of a long function (or merge a small one back into its only caller), restructure control flow (early return instead of nested if, for instead of while, switch instead of an if-chain, invert a condition and swap the branches), hoist or sink a computation, extract a small static helper function or inline one, reorder statements or checks that provably commute, replace a macro use by its expansion, split or merge conditions equivalently, introduce a named temporary. Each must be non-trivial (touch roughly 10-40 lines inside functions that are central to the property; not comments/whitespace only) and the two must touch different functions. Do not weaken or strengthen any check.
For each k in {{10,11}} create /tmp/w5-{id}-out/b<k>/ containing patch.diff (as above) and meta.json : {{"property": "{id}", "summary": "...", "why_behaviour_preserving": "...", "files": [...], "functions": [...], "suite_result": "..."}}.
Verify each: it compiles without new warnings and `make check -j4` passes completely. (To save time you may verify the two benign changes applied together in one suite run, provided they touch different functions; say so in meta.json.)

When finished leave the worktree clean at HEAD (`git checkout -- .`) and rebuilt. In your final answer give, for each of the five changes: the path, a 2-3 sentence description, and what you verified.'''
for id, p in props.items():
    files = ", ".join(p.get("anchors", {}).get("files", []))
    open('/tmp/prompt5-%s.txt' % id, 'w').write(T.format(id=id, title=p['title'], statement=p['statement'], files=files))
print("written")
