#!/bin/bash
# run_all.sh [tier]: run every registered check on /repo as it is; print one line per property
tier=${1:-quick}
cd /verif
for p in $(python3 -c "import json;print(' '.join(c['property_id'] for c in json.load(open('MANIFEST.json'))['checks']))"); do
  out=$(./check $p --tier $tier 2>&1); rc=$?
  echo "$p rc=$rc $(echo "$out" | grep -E "^$p tier" )"
  echo "$out" | grep -E "^(VIOLATION|ANALYSIS-BROKEN)" | head -5
done
