#!/bin/bash
# run_all_par.sh [tier]: every registered check on /repo in parallel; prints the ones that do not exit 0; exit 1 if any
tier=${1:-quick}
cd /verif
ids=$(python3 -c "import json;print(' '.join(c['property_id'] for c in json.load(open('MANIFEST.json'))['checks']))")
fail=0
out=$(printf '%s\n' $ids | xargs -P10 -I{} bash -c "./check {} --tier $tier > /tmp/rap-{}.out 2>&1; echo {} rc=\$?")
echo "$out" | grep -v "rc=0" && fail=1
for p in $ids; do if ! grep -q "rc=0" <<< "$(echo "$out" | grep "^$p ")"; then grep -E "^(VIOLATION|ANALYSIS-BROKEN|Traceback)" /tmp/rap-$p.out | head -3; fi; done
rm -f /tmp/rap-*.out
exit $fail
