#!/usr/bin/env python3
"""design_seed_table.py <round>: print the table of seeded breaking changes of one round (DESIGN.md A.6) from seeded/*/meta.json"""
import json, glob, sys
rnd = int(sys.argv[1])
rows = []
for p in sorted(glob.glob("/verif/seeded/C??-m*/meta.json")):
    m = json.load(open(p))
    if m.get("round", 1) != rnd:
        continue
    det = m.get("static_checks", {}).get("detected_by", {})
    d = " ".join("%s %s" % (k, ",".join(v)) for k, v in sorted(det.items())) or "—"
    held = m.get("static_checks", {}).get("detected_by_the_rules_as_they_were_before_round_%d" % rnd)
    s = m.get("summary", "").replace("|", "/").replace("\n", " ")
    rows.append((m["id"], s[:150] + ("…" if len(s) > 150 else ""), d, held))
if rnd >= 3:
    print("| change | what it does (author's summary, truncated) | detected by | by the rules as they were |")
    print("|---|---|---|---|")
    for r in rows:
        print("| %s | %s | %s | %s |" % (r[0], r[1], r[2], "yes" if r[3] else "no"))
else:
    print("| change | what it does (author's summary, truncated) | detected by |")
    print("|---|---|---|")
    for r in rows:
        print("| %s | %s | %s |" % r[:3])
print()
print("detected: %d of %d" % (sum(1 for r in rows if r[2] != "—"), len(rows)))
