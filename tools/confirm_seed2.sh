#!/bin/bash
# confirm_seed2.sh <ID>: round-2 confirmation in the scratch worktree /tmp/wt-<ID>:
#   m3, m4: (1) demo passes on the clean tree, (2) patch applies, builds, demo fails, (3) the whole existing suite passes with the patch
#   b1..b3 (benign refactorings): applied together, build without new warnings, the whole suite passes
id=$1
wt=${WTPREFIX:-/tmp/wt-}$id
cd $wt || exit 2
git checkout -q -- . ; git clean -fdq -e '*.o' -e '*.lo' >/dev/null 2>&1
rundemo() { d=$1
  if [ -f $d/demo.sh ]; then (cd $d && timeout 900 bash demo.sh) ; return $?; fi
  (cd $d && gcc -g -I$wt/include demo.c -o demo.bin $wt/hwloc/.libs/libhwloc.so -Wl,-rpath,$wt/hwloc/.libs -lpthread -ldl 2>&1 && timeout 900 ./demo.bin); return $?
}
suite() { # logfile
  timeout 1800 make check -j5 > $1 2>&1; rc=$?
  echo "SUITE_RC=$rc"
  echo "SUITE_PASS=$(grep -h '^# PASS:' $(find . -name test-suite.log) | awk '{s+=$3} END{print s}') FAIL=$(grep -h '^# FAIL:' $(find . -name test-suite.log) | awk '{s+=$3} END{print s}') ERROR=$(grep -h '^# ERROR:' $(find . -name test-suite.log) | awk '{s+=$3} END{print s}')"
  grep -h '^FAIL:\|^ERROR:' $(find . -name test-suite.log) 2>/dev/null | head -5
}
for m in $(for k in ${MLIST:-m3 m4}; do echo ${WTPREFIX:-/tmp/wt-}$id-out/$k; done); do
  [ -d $m ] || continue
  log=$m/confirm.log; : > $log
  make -j16 >/dev/null 2>&1
  rundemo $m >> $log 2>&1; echo "CLEAN_DEMO_RC=$?" >> $log
  if ! git apply $m/patch.diff 2>>$log; then echo "APPLY_FAILED" >> $log; continue; fi
  make -j16 >/dev/null 2>>$log; echo "BUILD_RC=$?" >> $log
  rundemo $m >> $log 2>&1; echo "MUTANT_DEMO_RC=$?" >> $log
  suite $m/suite.log >> $log
  git checkout -q -- . ; git clean -fdq -e '*.o' -e '*.lo' >/dev/null 2>&1
done
blog=${WTPREFIX:-/tmp/wt-}$id-out/b-confirm.log; : > $blog
for b in $(for k in ${BLIST:-b1 b2 b3}; do echo ${WTPREFIX:-/tmp/wt-}$id-out/$k; done); do
  [ -d $b ] || continue
  if git apply $b/patch.diff 2>>$blog; then echo "APPLIED $(basename $b)" >> $blog; else echo "APPLY_FAILED $(basename $b)" >> $blog; fi
done
make -j16 2>&1 | grep -c "warning:" | sed 's/^/BUILD_WARNINGS=/' >> $blog
suite ${WTPREFIX:-/tmp/wt-}$id-out/b-suite.log >> $blog
git checkout -q -- . ; git clean -fdq -e '*.o' -e '*.lo' >/dev/null 2>&1
make -j16 >/dev/null 2>&1
echo "confirm2 done $id"
