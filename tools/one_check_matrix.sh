#!/bin/bash
# one_check_matrix.sh <ID> <seed dir>...: run one check against scratch copies with each patch applied (8 in parallel); prints name rc
id=$1; shift
run1() { d=$1; id=$2; n=$(basename $(dirname $d) | sed "s/.*\(C[0-9][0-9]\)-out/\1/")-$(basename $d); c=$(mktemp -d /tmp/ocm-XXXXXX); rsync -a --exclude .git --exclude '*.o' --exclude '*.lo' --exclude .libs --exclude /tests --exclude /doc /repo/ $c/r/; if ! patch -p1 -s -f -d $c/r -i $d/patch.diff >/dev/null 2>&1; then echo "$n APPLY_FAILED"; rm -rf $c; return; fi; out=$(cd /verif && HWLOC_REPO=$c/r VERIF_OUT=$c/out ./check $id 2>&1); rc=$?; echo "$n rc=$rc $(echo "$out" | grep -E '^  rule=' | sed 's/ at .*//' | sort -u | tr '\n' ' ' | cut -c1-200)"; rm -rf $c; }
export -f run1
printf '%s\n' "$@" | xargs -P8 -I{} bash -c "run1 {} $id"
