#!/bin/bash
# mkwt.sh <dir>: scratch git worktree of /repo at HEAD, configured and built in-tree (outside /repo and /verif).
set -e
d=$1
git -C /repo worktree add --detach "$d" HEAD >/dev/null 2>&1
# bring the autotools products (untracked in git) but none of the build output
rsync -a --exclude .git --exclude '*.o' --exclude '*.lo' --exclude '*.la' --exclude '.libs' --exclude '.deps' \
  --exclude 'config.status' --exclude 'config.log' --exclude 'libtool' --exclude 'Makefile' \
  --ignore-existing /repo/ "$d"/
cd "$d"
# remove stale binaries that rsync copied (executables without extension built in-tree)
git clean -xfdq -e configure -e Makefile.in -e aclocal.m4 -e config -e 'autom4te.cache' -e '*.in' -e 'include/private/autogen/config.h.in' . >/dev/null 2>&1 || true
rsync -a --exclude .git --ignore-existing --include '*/' --include 'configure' --include 'Makefile.in' --include 'aclocal.m4' --include 'config/**' --include '*.in' --exclude '*' /repo/ "$d"/
./configure CFLAGS=-Wno-error CXXFLAGS=-Wno-error >/dev/null 2>&1
make -j16 >/dev/null 2>&1
echo "worktree ready: $d"
