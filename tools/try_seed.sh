#!/bin/bash
# try_seed.sh <seed dir> <property ids...>: apply the seeded patch to /repo, run the given checks, undo.
d=$1; shift
cd /repo || exit 2
if ! git diff --quiet; then echo "/repo has uncommitted changes"; exit 2; fi
if ! git apply $d/patch.diff; then echo "patch does not apply"; exit 2; fi
for p in "$@"; do
  (cd /verif && VERIF_OUT=/tmp/try_seed_out ./check $p > /tmp/try_seed.$p.out 2>&1; rc=$?; echo "== $p rc=$rc"; grep -E "^(VIOLATION|  rule=|ANALYSIS-BROKEN)" /tmp/try_seed.$p.out | cut -c1-400 | head -8)
done
git checkout -- .
