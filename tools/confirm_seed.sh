#!/bin/bash
# confirm_seed.sh <ID>: confirm the seeded changes /tmp/wt-<ID>-out/m*/ in the scratch worktree /tmp/wt-<ID>:
#  (1) demo passes on the clean tree, (2) patch applies, builds, demo fails, (3) the whole existing suite passes with the patch.
id=$1
wt=/tmp/wt-$id
cd $wt || exit 2
git checkout -q -- . ; git clean -fdq -e '*.o' -e '*.lo' >/dev/null 2>&1
rundemo() { # dir
  d=$1
  if [ -f $d/demo.sh ]; then (cd $d && timeout 600 bash demo.sh) ; return $?; fi
  (cd $d && gcc -g -I$wt/include demo.c -o demo.bin $wt/hwloc/.libs/libhwloc.so -Wl,-rpath,$wt/hwloc/.libs -lpthread 2>&1 && timeout 600 ./demo.bin); return $?
}
for m in /tmp/wt-$id-out/m*; do
  log=$m/confirm.log; : > $log
  make -j16 >/dev/null 2>&1
  rundemo $m >> $log 2>&1; clean_rc=$?
  echo "CLEAN_DEMO_RC=$clean_rc" >> $log
  if ! git apply $m/patch.diff 2>>$log; then echo "APPLY_FAILED" >> $log; continue; fi
  make -j16 >/dev/null 2>>$log; echo "BUILD_RC=$?" >> $log
  rundemo $m >> $log 2>&1; mut_rc=$?
  echo "MUTANT_DEMO_RC=$mut_rc" >> $log
  timeout 1500 make check -j6 > $m/suite.log 2>&1; echo "SUITE_RC=$?" >> $log
  echo "SUITE_PASS=$(grep -h '^# PASS:' $(find . -name test-suite.log) | awk '{s+=$3} END{print s}') FAIL=$(grep -h '^# FAIL:' $(find . -name test-suite.log) | awk '{s+=$3} END{print s}') ERROR=$(grep -h '^# ERROR:' $(find . -name test-suite.log) | awk '{s+=$3} END{print s}')" >> $log
  git checkout -q -- . ; git clean -fdq -e '*.o' -e '*.lo' >/dev/null 2>&1
done
make -j16 >/dev/null 2>&1
echo "confirm done $id"
