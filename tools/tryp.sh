#!/bin/bash
# tryp.sh <patch> <IDs...>: run checks on a scratch copy with a patch
p=$1; shift
d=$(mktemp -d /tmp/tryp-XXXX)
rsync -a --exclude .git --exclude '*.o' --exclude '*.lo' --exclude .libs --exclude tests --exclude doc /repo/ $d/
patch -p1 -s -d $d -i $p || { echo "patch failed"; rm -rf $d; exit 2; }
for id in "$@"; do (cd /verif; HWLOC_REPO=$d VERIF_OUT=$d.out ./check $id | grep -E "^(VIOLATION|  rule=|ANALYSIS-BROKEN|C[0-9]+ tier)" | cut -c1-500); done
rm -rf $d $d.out
