#!/usr/bin/env python3
"""manifest_add.py <ID> <technique> <text> : register/refresh a check entry in MANIFEST.json"""
import json, sys
pid, tech, text = sys.argv[1:4]
note = sys.argv[4] if len(sys.argv) > 4 else "trusted: clang 14 front end (AST/CFG), the external-function effect table and libc models named in the evidence; only the clauses listed under decided_clauses are decided"
m = json.load(open('/verif/MANIFEST.json'))
m['checks'] = [c for c in m['checks'] if c['property_id'] != pid]
m['checks'].append({"property_id": pid, "quick_cmd": "./check %s --tier quick" % pid, "thorough_cmd": "./check %s --tier thorough" % pid,
                    "evidence_file": "evidence/%s.json" % pid, "replay_cmd_template": "./check %s --replay {path}" % pid, "engine": "hwast",
                    "level_claimed": {"category": "other", "text": text, "design_ref": "DESIGN.md 6 " + pid}, "level_note": note, "technique": tech})
m['not_applicable'] = [n for n in m['not_applicable'] if n['property_id'] != pid]
m['checks'].sort(key=lambda c: c['property_id'])
for e in m['engines']:
    e['serves_properties'] = sorted(set(e['serves_properties']) | {pid})
json.dump(m, open('/verif/MANIFEST.json', 'w'), indent=1)
