#!/usr/bin/env python3
"""design_tables.py: print the per-property rule/instance table (DESIGN.md A.3) from the evidence files of the last run."""
import json, glob
print("| id | rules (instances on the current tree) | quick wall |")
print("|---|---|---|")
for f in sorted(glob.glob("/verif/evidence/C*.json")):
    e = json.load(open(f))
    c = e["coverage"]
    rules = " · ".join("%s %d" % (r, n) for r, n in sorted(c["per_rule_counts"].items()))
    print("| %s | %s | %.1f s |" % (e["property_id"], rules, e["wall_s"]))
