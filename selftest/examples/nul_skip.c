/* positive example for R-NUL: both obligations must fire here on every run */
#include <string.h>
int count_fields_bad(const char *string)
{
  const char *current = string;
  int count = 1;
  /* starts at string+1 although string[0] was never looked at: past the terminator of "", and a leading ',' is skipped */
  while ((current = strchr(current + 1, ',')) != NULL)
    count++;
  return count;
}
int count_fields_good(const char *string)
{
  const char *current;
  int count = 1;
  for (current = string; (current = strchr(current, ',')) != NULL; current++)
    count++;
  return count;
}
