/* positive example for R-MULWIDTH: the product of a converted number must be bounded before it is computed in 32 bits */
#include <stdlib.h>
unsigned long long *matrix_bad(const char *text)
{
  unsigned n = strtoul(text, NULL, 10);
  if (!n)
    return NULL;
  return malloc(n*n*sizeof(unsigned long long)); /* 65536*65536 == 0 in 32 bits */
}
unsigned long long *matrix_weak(const char *text)
{
  unsigned n = strtoul(text, NULL, 10);
  if (!n || n > 65536) /* lets 65536 itself through */
    return NULL;
  return malloc(n*n*sizeof(unsigned long long));
}
static int too_big(unsigned n) { return n > 4294967295U / n; }
unsigned long long *matrix_good(const char *text)
{
  unsigned n = strtoul(text, NULL, 10);
  if (!n || too_big(n))
    return NULL;
  return malloc(n*n*sizeof(unsigned long long));
}
unsigned long long *matrix_good2(const char *text)
{
  unsigned n;
  n = strtoul(text, NULL, 10);
  if (n >= 0x10000)
    return NULL;
  return malloc(n*n*sizeof(unsigned long long));
}
