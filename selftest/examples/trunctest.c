/* positive example for R-TRUNCTEST: a result equal to the size is a truncated one */
#include <stdio.h>
#include <stdlib.h>
#include <string.h>
char *render_bad(int v)
{
  char sbuf[16];
  int len = snprintf(sbuf, sizeof(sbuf), "value=%d", v);
  if ((size_t) len > sizeof(sbuf)) /* misses len == 16: the last character was lost */
    return NULL;
  return strdup(sbuf);
}
char *render_good(int v)
{
  char sbuf[16];
  int len = snprintf(sbuf, sizeof(sbuf), "value=%d", v);
  if (len + 1 > (int) sizeof(sbuf))
    return NULL;
  return strdup(sbuf);
}
