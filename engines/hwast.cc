// hwast: clang-14 libTooling extractor.
// Dumps, for one translation unit, a compact JSON view of the *resolved* program:
//   - type table, records (fields), enums, globals (with initialisers),
//     function declarations seen in repository files,
//   - for every function with a body located under the repository root: the full
//     statement/expression tree (implicit casts and parens elided, callees and
//     declarations resolved, integer constants evaluated, macro provenance kept)
//     and the clang::CFG built with setAllAlwaysAdd() (every sub-expression is a
//     CFG element, in evaluation order), edges pruned for trivially false
//     conditions, no EH edges.
// The rules themselves live in /verif/rules/*.py and work on this output.
//
// usage: hwast -o out.json [-root /repo] file.c -- <compiler flags>

#include "clang/AST/ASTConsumer.h"
#include "clang/AST/ASTContext.h"
#include "clang/AST/Attr.h"
#include "clang/AST/Decl.h"
#include "clang/AST/Expr.h"
#include "clang/AST/Stmt.h"
#include "clang/Analysis/CFG.h"
#include "clang/Frontend/CompilerInstance.h"
#include "clang/Frontend/FrontendAction.h"
#include "clang/Lex/Lexer.h"
#include "clang/Tooling/CommonOptionsParser.h"
#include "clang/Tooling/Tooling.h"
#include "llvm/ADT/DenseMap.h"
#include "llvm/ADT/StringMap.h"
#include "llvm/Support/CommandLine.h"
#include "llvm/Support/JSON.h"
#include "llvm/Support/raw_ostream.h"

using namespace clang;
using namespace llvm;

static cl::OptionCategory Cat("hwast options");
static cl::opt<std::string> OutFile("o", cl::desc("output json"), cl::Required, cl::cat(Cat));
static cl::opt<std::string> Root("root", cl::desc("repository root"), cl::init("/repo"), cl::cat(Cat));

namespace {

struct Emitter {
  ASTContext &Ctx;
  SourceManager &SM;
  json::OStream &J;
  DenseMap<const Stmt *, unsigned> ids;
  DenseMap<const VarDecl *, unsigned> varIds;
  DenseMap<const Decl *, unsigned> declIds;
  std::vector<QualType> typeList;
  StringMap<unsigned> typeIdx;
  std::vector<std::string> fileList;
  StringMap<unsigned> fileIdx;
  unsigned nextId = 1;
  unsigned curFile = ~0u;

  Emitter(ASTContext &C, json::OStream &J) : Ctx(C), SM(C.getSourceManager()), J(J) {}

  unsigned declId(const Decl *D) {
    D = D->getCanonicalDecl();
    auto it = declIds.find(D);
    if (it != declIds.end()) return it->second;
    unsigned v = declIds.size() + 1;
    declIds[D] = v;
    return v;
  }
  unsigned typeId(QualType T) {
    std::string s = T.getAsString();
    auto it = typeIdx.find(s);
    if (it != typeIdx.end()) return it->second;
    unsigned v = typeList.size();
    typeList.push_back(T);
    typeIdx[s] = v;
    return v;
  }
  unsigned fileId(StringRef f) {
    auto it = fileIdx.find(f);
    if (it != fileIdx.end()) return it->second;
    unsigned v = fileList.size();
    fileList.push_back(f.str());
    fileIdx[f] = v;
    return v;
  }
  std::string fileOf(SourceLocation L) {
    L = SM.getExpansionLoc(L);
    if (L.isInvalid()) return "";
    StringRef f = SM.getFilename(L);
    SmallString<256> p(f);
    SM.getFileManager().makeAbsolutePath(p);
    llvm::sys::path::remove_dots(p, true);
    return std::string(p.str());
  }
  bool inRoot(SourceLocation L) {
    std::string f = fileOf(L);
    return StringRef(f).startswith(Root);
  }
  void emitLoc(SourceLocation B) {
    SourceLocation L = SM.getExpansionLoc(B);
    if (L.isValid()) {
      J.attribute("l", (int64_t)SM.getSpellingLineNumber(L));
      unsigned f = fileId(fileOf(L));
      if (f != curFile) J.attribute("fl", (int64_t)f);
    }
    if (B.isMacroID()) {
      std::string inner, outer;
      SourceLocation M = B;
      bool first = true;
      int guard = 0;
      while (M.isMacroID() && guard++ < 64) {
        StringRef n = Lexer::getImmediateMacroName(M, SM, Ctx.getLangOpts());
        if (first) { inner = n.str(); first = false; }
        outer = n.str();
        M = SM.getImmediateMacroCallerLoc(M);
      }
      J.attribute("mo", outer);
      if (inner != outer) J.attribute("mi", inner);
    }
  }

  void emitChild(const Stmt *S) {
    if (!S) { J.value(nullptr); return; }
    emitStmt(S);
  }

  const Stmt *strip(const Stmt *S) {
    // elide parens / implicit casts / full-expression wrappers
    while (S) {
      if (auto *P = dyn_cast<ParenExpr>(S)) { S = P->getSubExpr(); continue; }
      if (auto *I = dyn_cast<ImplicitCastExpr>(S)) { S = I->getSubExpr(); continue; }
      if (auto *F = dyn_cast<FullExpr>(S)) { S = F->getSubExpr(); continue; }
      if (auto *O = dyn_cast<OpaqueValueExpr>(S)) { if (O->getSourceExpr()) { S = O->getSourceExpr(); continue; } }
      break;
    }
    return S;
  }

  void emitVar(const VarDecl *VD) {
    J.object([&] {
      unsigned id = nextId++;
      varIds[VD] = id;
      J.attribute("id", (int64_t)id);
      J.attribute("k", "Var");
      emitLoc(VD->getLocation());
      J.attribute("n", VD->getName());
      J.attribute("did", (int64_t)declId(VD));
      J.attribute("t", (int64_t)typeId(VD->getType()));
      if (VD->isStaticLocal()) J.attribute("static", true);
      if (VD->hasExternalStorage()) J.attribute("extern", true);
      J.attributeArray("c", [&] { emitChild(VD->getInit()); });
    });
  }

  void emitStmt(const Stmt *S0) {
    const Stmt *S = strip(S0);
    unsigned id = nextId++;
    // map wrapper chain to the same id
    {
      const Stmt *W = S0;
      while (W && W != S) {
        ids[W] = id;
        if (auto *P = dyn_cast<ParenExpr>(W)) W = P->getSubExpr();
        else if (auto *I = dyn_cast<ImplicitCastExpr>(W)) W = I->getSubExpr();
        else if (auto *F = dyn_cast<FullExpr>(W)) W = F->getSubExpr();
        else if (auto *O = dyn_cast<OpaqueValueExpr>(W)) W = O->getSourceExpr();
        else break;
      }
      ids[S] = id;
    }
    J.object([&] {
      J.attribute("id", (int64_t)id);
      const Expr *E = dyn_cast<Expr>(S);
      if (E) {
        J.attribute("t", (int64_t)typeId(E->getType()));
        if (!isa<IntegerLiteral>(E) && !isa<CharacterLiteral>(E) && !E->isValueDependent() &&
            E->getType()->isIntegralOrEnumerationType() && E->isPRValue()) {
          Expr::EvalResult R;
          if (E->EvaluateAsInt(R, Ctx, Expr::SE_NoSideEffects) && !R.HasSideEffects) {
            APSInt V = R.Val.getInt();
            if (V.isSigned() || V.getActiveBits() <= 63) J.attribute("cv", V.getExtValue());
            else J.attribute("cvu", toString(V, 10));
          }
        }
      }
      emitLoc(S->getBeginLoc());
      switch (S->getStmtClass()) {
      case Stmt::DeclRefExprClass: {
        auto *D = cast<DeclRefExpr>(S);
        const ValueDecl *VD = D->getDecl();
        J.attribute("k", "Ref");
        J.attribute("n", VD->getName());
        J.attribute("did", (int64_t)declId(VD));
        if (auto *P = dyn_cast<ParmVarDecl>(VD)) {
          J.attribute("dk", "param");
          J.attribute("pi", (int64_t)P->getFunctionScopeIndex());
        } else if (auto *V = dyn_cast<VarDecl>(VD)) {
          if (V->isStaticLocal()) J.attribute("dk", "slocal");
          else if (V->isLocalVarDecl()) J.attribute("dk", "local");
          else {
            J.attribute("dk", "global");
            if (V->getType().isConstQualified()) J.attribute("const", true);
          }
        } else if (isa<FunctionDecl>(VD)) {
          J.attribute("dk", "func");
        } else if (auto *EC = dyn_cast<EnumConstantDecl>(VD)) {
          J.attribute("dk", "enum");
          J.attribute("v", EC->getInitVal().getExtValue());
        } else J.attribute("dk", "other");
        break;
      }
      case Stmt::MemberExprClass: {
        auto *M = cast<MemberExpr>(S);
        J.attribute("k", "Member");
        J.attribute("f", M->getMemberDecl()->getName());
        if (auto *FD = dyn_cast<FieldDecl>(M->getMemberDecl())) {
          const RecordDecl *RD = FD->getParent();
          std::string rn = RD->getName().str();
          if (rn.empty()) if (auto *TD = RD->getTypedefNameForAnonDecl()) rn = TD->getName().str();
          J.attribute("rec", rn);
          J.attribute("fi", (int64_t)FD->getFieldIndex());
        }
        if (M->isArrow()) J.attribute("arrow", true);
        J.attributeArray("c", [&] { emitChild(M->getBase()); });
        break;
      }
      case Stmt::CallExprClass: {
        auto *C = cast<CallExpr>(S);
        J.attribute("k", "Call");
        if (const FunctionDecl *FD = C->getDirectCallee()) {
          J.attribute("fn", FD->getName());
          if (FD->isNoReturn() || FD->hasAttr<NoReturnAttr>()) J.attribute("noret", true);
        }
        J.attributeArray("c", [&] {
          emitChild(C->getCallee());
          for (const Expr *A : C->arguments()) emitChild(A);
        });
        break;
      }
      case Stmt::IntegerLiteralClass: {
        auto *I = cast<IntegerLiteral>(S);
        J.attribute("k", "Int");
        APInt V = I->getValue();
        if (V.getActiveBits() <= 63) J.attribute("v", (int64_t)V.getZExtValue());
        else J.attribute("vu", toString(V, 10, false));
        break;
      }
      case Stmt::CharacterLiteralClass:
        J.attribute("k", "Char");
        J.attribute("v", (int64_t)cast<CharacterLiteral>(S)->getValue());
        break;
      case Stmt::FloatingLiteralClass:
        J.attribute("k", "Float");
        break;
      case Stmt::StringLiteralClass: {
        auto *SL = cast<clang::StringLiteral>(S);
        J.attribute("k", "Str");
        if (SL->getCharByteWidth() == 1) J.attribute("s", SL->getBytes());
        break;
      }
      case Stmt::UnaryOperatorClass: {
        auto *U = cast<UnaryOperator>(S);
        J.attribute("k", "Unary");
        std::string op = UnaryOperator::getOpcodeStr(U->getOpcode()).str();
        if (U->isPostfix()) op = "post" + op;
        J.attribute("op", op);
        J.attributeArray("c", [&] { emitChild(U->getSubExpr()); });
        break;
      }
      case Stmt::BinaryOperatorClass:
      case Stmt::CompoundAssignOperatorClass: {
        auto *B = cast<BinaryOperator>(S);
        J.attribute("k", "Binary");
        J.attribute("op", B->getOpcodeStr());
        J.attributeArray("c", [&] { emitChild(B->getLHS()); emitChild(B->getRHS()); });
        break;
      }
      case Stmt::ConditionalOperatorClass: {
        auto *C = cast<ConditionalOperator>(S);
        J.attribute("k", "Cond");
        J.attributeArray("c", [&] { emitChild(C->getCond()); emitChild(C->getTrueExpr()); emitChild(C->getFalseExpr()); });
        break;
      }
      case Stmt::BinaryConditionalOperatorClass: {
        auto *C = cast<BinaryConditionalOperator>(S);
        J.attribute("k", "BinCond");
        J.attributeArray("c", [&] { emitChild(C->getCommon()); emitChild(C->getFalseExpr()); });
        break;
      }
      case Stmt::ArraySubscriptExprClass: {
        auto *A = cast<ArraySubscriptExpr>(S);
        J.attribute("k", "Sub");
        J.attributeArray("c", [&] { emitChild(A->getBase()); emitChild(A->getIdx()); });
        break;
      }
      case Stmt::CStyleCastExprClass: {
        auto *C = cast<CStyleCastExpr>(S);
        J.attribute("k", "Cast");
        J.attributeArray("c", [&] { emitChild(C->getSubExpr()); });
        break;
      }
      case Stmt::UnaryExprOrTypeTraitExprClass: {
        auto *U = cast<UnaryExprOrTypeTraitExpr>(S);
        J.attribute("k", U->getKind() == UETT_SizeOf ? "SizeOf" : "TypeTrait");
        if (U->isArgumentType()) J.attribute("at", (int64_t)typeId(U->getArgumentType()));
        J.attributeArray("c", [&] { if (!U->isArgumentType()) emitChild(U->getArgumentExpr()); });
        break;
      }
      case Stmt::InitListExprClass: {
        auto *I = cast<InitListExpr>(S);
        if (!I->isSemanticForm() && I->getSemanticForm()) I = I->getSemanticForm();
        J.attribute("k", "InitList");
        J.attributeArray("c", [&] { for (const Expr *X : I->inits()) emitChild(X); });
        break;
      }
      case Stmt::StmtExprClass: {
        J.attribute("k", "StmtExpr");
        J.attributeArray("c", [&] { emitChild(cast<StmtExpr>(S)->getSubStmt()); });
        break;
      }
      case Stmt::CompoundStmtClass: {
        J.attribute("k", "Compound");
        J.attributeArray("c", [&] { for (const Stmt *X : cast<CompoundStmt>(S)->body()) emitChild(X); });
        break;
      }
      case Stmt::DeclStmtClass: {
        J.attribute("k", "DeclStmt");
        J.attributeArray("c", [&] {
          for (const Decl *D : cast<DeclStmt>(S)->decls())
            if (auto *VD = dyn_cast<VarDecl>(D)) emitVar(VD);
        });
        break;
      }
      case Stmt::IfStmtClass: {
        auto *I = cast<IfStmt>(S);
        J.attribute("k", "If");
        J.attributeArray("c", [&] { emitChild(I->getCond()); emitChild(I->getThen()); emitChild(I->getElse()); });
        break;
      }
      case Stmt::WhileStmtClass: {
        auto *W = cast<WhileStmt>(S);
        J.attribute("k", "While");
        J.attributeArray("c", [&] { emitChild(W->getCond()); emitChild(W->getBody()); });
        break;
      }
      case Stmt::DoStmtClass: {
        auto *D = cast<DoStmt>(S);
        J.attribute("k", "Do");
        J.attributeArray("c", [&] { emitChild(D->getBody()); emitChild(D->getCond()); });
        break;
      }
      case Stmt::ForStmtClass: {
        auto *F = cast<ForStmt>(S);
        J.attribute("k", "For");
        J.attributeArray("c", [&] { emitChild(F->getInit()); emitChild(F->getCond()); emitChild(F->getInc()); emitChild(F->getBody()); });
        break;
      }
      case Stmt::SwitchStmtClass: {
        auto *W = cast<SwitchStmt>(S);
        J.attribute("k", "Switch");
        J.attributeArray("c", [&] { emitChild(W->getCond()); emitChild(W->getBody()); });
        break;
      }
      case Stmt::CaseStmtClass: {
        auto *C = cast<CaseStmt>(S);
        J.attribute("k", "Case");
        J.attributeArray("c", [&] { emitChild(C->getLHS()); emitChild(C->getRHS()); emitChild(C->getSubStmt()); });
        break;
      }
      case Stmt::DefaultStmtClass:
        J.attribute("k", "Default");
        J.attributeArray("c", [&] { emitChild(cast<DefaultStmt>(S)->getSubStmt()); });
        break;
      case Stmt::ReturnStmtClass:
        J.attribute("k", "Return");
        J.attributeArray("c", [&] { emitChild(cast<ReturnStmt>(S)->getRetValue()); });
        break;
      case Stmt::GotoStmtClass:
        J.attribute("k", "Goto");
        J.attribute("label", cast<GotoStmt>(S)->getLabel()->getName());
        break;
      case Stmt::LabelStmtClass:
        J.attribute("k", "Label");
        J.attribute("label", cast<LabelStmt>(S)->getDecl()->getName());
        J.attributeArray("c", [&] { emitChild(cast<LabelStmt>(S)->getSubStmt()); });
        break;
      case Stmt::BreakStmtClass: J.attribute("k", "Break"); break;
      case Stmt::ContinueStmtClass: J.attribute("k", "Continue"); break;
      case Stmt::NullStmtClass: J.attribute("k", "Null"); break;
      default:
        J.attribute("k", S->getStmtClassName());
        J.attributeArray("c", [&] { for (const Stmt *X : S->children()) emitChild(X); });
        break;
      }
    });
  }

  void emitCFG(const FunctionDecl *FD) {
    CFG::BuildOptions BO;
    BO.setAllAlwaysAdd();
    BO.AddEHEdges = false;
    std::unique_ptr<CFG> G = CFG::buildCFG(FD, FD->getBody(), &Ctx, BO);
    if (!G) { J.attribute("cfg", nullptr); return; }
    J.attributeObject("cfg", [&] {
      J.attribute("entry", (int64_t)G->getEntry().getBlockID());
      J.attribute("exit", (int64_t)G->getExit().getBlockID());
      J.attributeArray("blocks", [&] {
        for (const CFGBlock *B : *G) {
          J.object([&] {
            J.attribute("id", (int64_t)B->getBlockID());
            if (B->hasNoReturnElement()) J.attribute("noret", true);
            J.attributeArray("e", [&] {
              unsigned last = 0;
              for (const CFGElement &El : *B) {
                if (auto CS = El.getAs<CFGStmt>()) {
                  auto it = ids.find(CS->getStmt());
                  if (it != ids.end() && it->second != last) {
                    J.value((int64_t)it->second);
                    last = it->second;
                  } else if (it == ids.end()) {
                    // `int a = 1, b = 2;` is split by the CFG builder into synthetic single-declarator DeclStmts that are
                    // not AST nodes: refer to the declarator's Var node instead (prog.py wraps it into a DeclStmt)
                    if (auto *DS = dyn_cast<DeclStmt>(CS->getStmt())) {
                      if (DS->isSingleDecl()) {
                        if (auto *VD = dyn_cast<VarDecl>(DS->getSingleDecl())) {
                          auto vt = varIds.find(VD);
                          if (vt != varIds.end() && vt->second != last) {
                            J.value((int64_t)vt->second);
                            last = vt->second;
                          }
                        }
                      }
                    }
                  }
                }
              }
            });
            J.attributeArray("s", [&] {
              for (auto I = B->succ_begin(); I != B->succ_end(); ++I) {
                if (const CFGBlock *T = I->getReachableBlock()) J.value((int64_t)T->getBlockID());
                else J.value(nullptr);
              }
            });
            if (const Stmt *T = B->getTerminatorStmt()) {
              auto it = ids.find(T);
              if (it != ids.end()) J.attribute("t", (int64_t)it->second);
              J.attribute("tk", T->getStmtClassName());
            }
            if (const Stmt *C = B->getTerminatorCondition(false)) {
              auto it = ids.find(C);
              if (it != ids.end()) J.attribute("tc", (int64_t)it->second);
            }
            if (const Stmt *L = B->getLabel()) {
              auto it = ids.find(L);
              if (it != ids.end()) J.attribute("lab", (int64_t)it->second);
            }
          });
        }
      });
    });
  }

  void emitFunction(const FunctionDecl *FD) {
    J.object([&] {
      J.attribute("name", FD->getName());
      std::string f = fileOf(FD->getLocation());
      curFile = fileId(f);
      J.attribute("file", (int64_t)curFile);
      J.attribute("line", (int64_t)SM.getSpellingLineNumber(SM.getExpansionLoc(FD->getLocation())));
      J.attribute("endline", (int64_t)SM.getSpellingLineNumber(SM.getExpansionLoc(FD->getEndLoc())));
      J.attribute("did", (int64_t)declId(FD));
      J.attribute("static", FD->getStorageClass() == SC_Static);
      J.attribute("inline", FD->isInlineSpecified());
      J.attribute("ret", (int64_t)typeId(FD->getReturnType()));
      J.attributeArray("params", [&] {
        for (const ParmVarDecl *P : FD->parameters()) {
          J.object([&] {
            J.attribute("n", P->getName());
            J.attribute("did", (int64_t)declId(P));
            J.attribute("t", (int64_t)typeId(P->getType()));
          });
        }
      });
      J.attributeBegin("body");
      emitStmt(FD->getBody());
      J.attributeEnd();
      emitCFG(FD);
      curFile = ~0u;
    });
  }

  static std::string recName(const RecordDecl *RD) {
    std::string rn = RD->getName().str();
    if (rn.empty()) if (auto *TD = RD->getTypedefNameForAnonDecl()) rn = TD->getName().str();
    return rn;
  }

  void emitTypes() {
    // typeList may grow while emitting (pointee types), iterate by index
    J.attributeArray("types", [&] {
      for (size_t i = 0; i < typeList.size(); ++i) {
        QualType T = typeList[i];
        J.object([&] {
          J.attribute("s", T.getAsString());
          QualType C = T.getCanonicalType();
          if (C->isPointerType()) {
            J.attribute("ptr", true);
            QualType P = C->getPointeeType();
            if (P->isFunctionType()) J.attribute("fp", true);
            if (const RecordType *RT = P->getAs<RecordType>()) J.attribute("prec", recName(RT->getDecl()));
            if (P.isConstQualified()) J.attribute("pconst", true);
          } else if (C->isIntegralOrEnumerationType()) {
            J.attribute("w", (int64_t)Ctx.getTypeSize(C));
            J.attribute("u", C->isUnsignedIntegerOrEnumerationType());
            if (const EnumType *ET = C->getAs<EnumType>()) {
              const EnumDecl *ED = ET->getDecl();
              std::string en = ED->getName().str();
              if (en.empty()) if (auto *TD = ED->getTypedefNameForAnonDecl()) en = TD->getName().str();
              J.attribute("en", en);
            }
          } else if (const RecordType *RT = C->getAs<RecordType>()) {
            J.attribute("rec", recName(RT->getDecl()));
          } else if (const ConstantArrayType *AT = Ctx.getAsConstantArrayType(C)) {
            J.attribute("arr", (int64_t)AT->getSize().getZExtValue());
          }
          bool sized = C->isPointerType() || C->isIntegralOrEnumerationType() || C->isRealFloatingType() ||
                       (C->getAs<RecordType>() && C->getAs<RecordType>()->getDecl()->isCompleteDefinition() &&
                        !C->getAs<RecordType>()->getDecl()->isInvalidDecl());
          if (const ConstantArrayType *AT2 = Ctx.getAsConstantArrayType(C)) {
            QualType ET = Ctx.getBaseElementType(AT2).getCanonicalType();
            sized = ET->isPointerType() || ET->isIntegralOrEnumerationType() || ET->isRealFloatingType() ||
                    (ET->getAs<RecordType>() && ET->getAs<RecordType>()->getDecl()->isCompleteDefinition());
          }
          if (C->isPlaceholderType() || C->isDependentType() || C->isIncompleteType()) sized = false;
          if (sized) J.attribute("sz", (int64_t)Ctx.getTypeSizeInChars(C).getQuantity());
        });
      }
    });
  }
};

struct Consumer : ASTConsumer {
  void HandleTranslationUnit(ASTContext &Ctx) override {
    std::error_code EC;
    raw_fd_ostream OS(OutFile, EC);
    if (EC) { errs() << "cannot open " << OutFile << "\n"; exit(2); }
    json::OStream J(OS);
    Emitter E(Ctx, J);
    SourceManager &SM = Ctx.getSourceManager();
    J.object([&] {
      std::string mainf;
      if (const FileEntry *FE = SM.getFileEntryForID(SM.getMainFileID())) mainf = E.fileOf(SM.getLocForStartOfFile(SM.getMainFileID()));
      J.attribute("main", mainf);
      // records
      J.attributeArray("records", [&] {
        for (const Decl *D : Ctx.getTranslationUnitDecl()->decls()) emitRecords(E, D);
      });
      J.attributeArray("enums", [&] {
        for (const Decl *D : Ctx.getTranslationUnitDecl()->decls()) emitEnums(E, D);
      });
      J.attributeArray("globals", [&] {
        for (const Decl *D : Ctx.getTranslationUnitDecl()->decls()) {
          auto *VD = dyn_cast<VarDecl>(D);
          if (!VD || !E.inRoot(VD->getLocation())) continue;
          J.object([&] {
            J.attribute("n", VD->getName());
            J.attribute("did", (int64_t)E.declId(VD));
            J.attribute("t", (int64_t)E.typeId(VD->getType()));
            J.attribute("file", (int64_t)E.fileId(E.fileOf(VD->getLocation())));
            J.attribute("line", (int64_t)SM.getSpellingLineNumber(SM.getExpansionLoc(VD->getLocation())));
            J.attribute("static", VD->getStorageClass() == SC_Static);
            J.attribute("extern", VD->hasExternalStorage());
            J.attribute("const", VD->getType().isConstQualified());
            J.attributeBegin("init");
            if (VD->getInit()) E.emitStmt(VD->getInit()); else J.value(nullptr);
            J.attributeEnd();
          });
        }
      });
      J.attributeArray("decls", [&] {
        for (const Decl *D : Ctx.getTranslationUnitDecl()->decls()) {
          auto *FD = dyn_cast<FunctionDecl>(D);
          if (!FD || !E.inRoot(FD->getLocation())) continue;
          J.object([&] {
            J.attribute("name", FD->getName());
            J.attribute("file", (int64_t)E.fileId(E.fileOf(FD->getLocation())));
            J.attribute("line", (int64_t)SM.getSpellingLineNumber(SM.getExpansionLoc(FD->getLocation())));
            J.attribute("body", FD->doesThisDeclarationHaveABody());
            J.attribute("static", FD->getStorageClass() == SC_Static);
            J.attribute("inline", FD->isInlineSpecified());
            if (auto *VA = FD->getAttr<VisibilityAttr>()) J.attribute("vis", VA->getVisibility() == VisibilityAttr::Default ? "default" : "hidden");
            J.attribute("ret", (int64_t)E.typeId(FD->getReturnType()));
            J.attributeArray("params", [&] {
              for (const ParmVarDecl *P : FD->parameters())
                J.object([&] { J.attribute("n", P->getName()); J.attribute("t", (int64_t)E.typeId(P->getType())); });
            });
          });
        }
      });
      J.attributeArray("functions", [&] {
        for (const Decl *D : Ctx.getTranslationUnitDecl()->decls()) {
          auto *FD = dyn_cast<FunctionDecl>(D);
          if (!FD || !FD->doesThisDeclarationHaveABody() || !E.inRoot(FD->getLocation())) continue;
          E.emitFunction(FD);
        }
      });
      E.emitTypes();
      J.attributeArray("files", [&] { for (auto &f : E.fileList) J.value(f); });
    });
    OS << "\n";
  }

  static void emitRecords(Emitter &E, const Decl *D) {
    const RecordDecl *RD = dyn_cast<RecordDecl>(D);
    if (!RD) return;
    if (!RD->isCompleteDefinition() || !E.inRoot(RD->getLocation())) return;
    emitRecord(E, RD);
  }
  static void emitRecord(Emitter &E, const RecordDecl *RD) {
    json::OStream &J = E.J;
    J.object([&] {
      J.attribute("n", Emitter::recName(RD));
      J.attribute("did", (int64_t)E.declId(RD));
      J.attribute("union", RD->isUnion());
      J.attribute("file", (int64_t)E.fileId(E.fileOf(RD->getLocation())));
      J.attribute("line", (int64_t)E.SM.getSpellingLineNumber(E.SM.getExpansionLoc(RD->getLocation())));
      J.attributeArray("fields", [&] {
        for (const FieldDecl *F : RD->fields()) {
          J.object([&] {
            J.attribute("n", F->getName());
            J.attribute("t", (int64_t)E.typeId(F->getType()));
            if (const RecordType *RT = F->getType()->getAs<RecordType>())
              J.attribute("rdid", (int64_t)E.declId(RT->getDecl()));
          });
        }
      });
    });
    // nested record definitions
    for (const Decl *D : RD->decls())
      if (auto *N = dyn_cast<RecordDecl>(D))
        if (N->isCompleteDefinition()) emitRecord(E, N);
  }
  static void emitEnums(Emitter &E, const Decl *D) {
    const EnumDecl *ED = dyn_cast<EnumDecl>(D);
    if (!ED || !ED->isCompleteDefinition() || !E.inRoot(ED->getLocation())) return;
    json::OStream &J = E.J;
    J.object([&] {
      std::string n = ED->getName().str();
      if (n.empty()) if (auto *TD = ED->getTypedefNameForAnonDecl()) n = TD->getName().str();
      J.attribute("n", n);
      J.attribute("file", (int64_t)E.fileId(E.fileOf(ED->getLocation())));
      J.attributeArray("items", [&] {
        for (const EnumConstantDecl *C : ED->enumerators())
          J.array([&] { J.value(C->getName()); J.value(C->getInitVal().getExtValue()); });
      });
    });
  }
};

struct Action : ASTFrontendAction {
  std::unique_ptr<ASTConsumer> CreateASTConsumer(CompilerInstance &, StringRef) override {
    return std::make_unique<Consumer>();
  }
};

} // namespace

int main(int argc, const char **argv) {
  auto Exp = tooling::CommonOptionsParser::create(argc, argv, Cat);
  if (!Exp) { errs() << toString(Exp.takeError()); return 2; }
  tooling::ClangTool Tool(Exp->getCompilations(), Exp->getSourcePathList());
  int rc = Tool.run(tooling::newFrontendActionFactory<Action>().get());
  return rc ? 2 : 0;
}
