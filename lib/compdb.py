"""Compilation database for /repo, regenerated on every run from `make -n -W <sources>`
(dry run: nothing is built).  Exit code 2 (analysis broken) if it cannot be made."""
import os, re, shlex, subprocess, sys, json

REPO = os.environ.get("HWLOC_REPO", "/repo")

DIRS = {
    "lib": ("hwloc", "libhwloc.la"),
    "utils": ("utils/hwloc", "all-am"),
    "lstopo": ("utils/lstopo", "all-am"),
}

KEEP_PREFIX = ("-D", "-I", "-U", "-include", "-std=", "-fvisibility")


class AnalysisBroken(Exception):
    pass


def _parse(dirpath, text):
    units = {}
    # join continuation lines
    text = text.replace("\\\n", " ")
    for line in text.splitlines():
        if " -c " not in line or "gcc" not in line:
            continue
        m = re.search(r"(?:^|[\s;])(gcc\s.*?\s-c\s+-o\s+\S+\s+(?:`test -f '[^']*' \|\| echo '[^']*'`)?(\S+\.c))", line)
        if not m:
            continue
        cmd, src = m.group(1), m.group(2)
        cmd = re.sub(r"`test -f '[^']*' \|\| echo '[^']*'`", "", cmd)
        cmd = cmd.replace("$depbase", "DEPBASE")
        try:
            toks = shlex.split(cmd)
        except ValueError:
            continue
        flags = []
        i = 1
        while i < len(toks):
            t = toks[i]
            if t in ("-include", "-isystem") and i + 1 < len(toks):
                flags += [t, toks[i + 1]]
                i += 2
                continue
            if t.startswith(KEEP_PREFIX):
                if t.startswith("-I") and len(t) > 2 and not os.path.isabs(t[2:]):
                    t = "-I" + os.path.normpath(os.path.join(dirpath, t[2:]))
                elif t.startswith("-I/repo/") and REPO != "/repo":
                    t = "-I" + REPO + t[7:]   # scratch copy used by the self-test
                flags.append(t)
            i += 1
        srcpath = os.path.normpath(os.path.join(dirpath, src))
        if srcpath not in units:
            units[srcpath] = flags
    return units


def load(groups=("lib",)):
    """-> {abs source path: [flags]}"""
    out = {}
    for g in groups:
        sub, target = DIRS[g]
        d = os.path.join(REPO, sub)
        try:
            # NOT -B: with --always-make the automake "am--refresh" rules (which contain
            # $(MAKE) and therefore run even under -n) re-run configure.  -W marks every
            # source as new instead; -o keeps make from remaking the Makefile itself.
            cmd = ["make", "-n", "-C", d, "-o", "Makefile", "-o", "Makefile.in",
                   "-o", os.path.join(REPO, "hwloc", "libhwloc.la")]
            for f in sorted(os.listdir(d)):
                if f.endswith(".c"):
                    cmd += ["-W", f]
            p = subprocess.run(cmd + [target], capture_output=True, text=True, timeout=60)
        except Exception as e:  # pragma: no cover
            raise AnalysisBroken("make -n failed in %s: %s" % (d, e))
        units = _parse(d, p.stdout)
        if not units:
            raise AnalysisBroken("no compile commands found by make -n in %s (rc=%d)" % (d, p.returncode))
        for k, v in units.items():
            out.setdefault(k, v)
    return out


def clang_flags(flags):
    return list(flags) + ["-std=gnu11", "-w", "-UNDEBUG"]


if __name__ == "__main__":
    u = load(sys.argv[1:] or ("lib", "utils", "lstopo"))
    for k, v in sorted(u.items()):
        print(k, len(v))
    print(len(u), "units")
