"""fold: finite-domain witnesses decided by the compiler's constant propagation.

A witness TU #includes the real /repo source file (so static tables and functions are visible) and
defines one function per domain point.  It is compiled with `clang -O2 -S -emit-llvm` (never linked,
never run); every witness must have folded to `ret i32 <const>` / `ret i64 <const>`.  A witness that
does not fold is inconclusive (AnalysisBroken), never a pass and never a violation."""
import os, re, subprocess, hashlib
import compdb
from compdb import AnalysisBroken, REPO

HERE = os.path.dirname(os.path.abspath(__file__))
BUILD = os.path.join(os.path.dirname(HERE), "build", "fold")

# C models of libc functions used by the folded code (part of the trusted base)
MODELS = r'''
static __inline__ __attribute__((always_inline)) int w_tolower(int c) { return (c >= 'A' && c <= 'Z') ? c + 32 : c; }
static __inline__ __attribute__((always_inline)) int w_strncasecmp(const char *a, const char *b, unsigned long n) {
  for (unsigned long i = 0; i < n; i++) { int x = w_tolower((unsigned char)a[i]), y = w_tolower((unsigned char)b[i]); if (x != y) return x - y; if (!x) return 0; }
  return 0; }
static __inline__ __attribute__((always_inline)) int w_strcasecmp(const char *a, const char *b) {
  for (unsigned long i = 0; ; i++) { int x = w_tolower((unsigned char)a[i]), y = w_tolower((unsigned char)b[i]); if (x != y) return x - y; if (!x) return 0; } }
static __inline__ __attribute__((always_inline)) int w_strcmp(const char *a, const char *b) {
  for (unsigned long i = 0; ; i++) { if (a[i] != b[i]) return (unsigned char)a[i] - (unsigned char)b[i]; if (!a[i]) return 0; } }
static __inline__ __attribute__((always_inline)) long w_strtol(const char *s, char **end, int base) {
  long v = 0; const char *p = s; (void) base; while (*p >= '0' && *p <= '9') { v = v * 10 + (*p - '0'); p++; } if (end) *end = (char *) p; return v; }
static __inline__ __attribute__((always_inline)) char *w_strchr(const char *s, int c) {
  for (;; s++) { if (*s == (char) c) return (char *) s; if (!*s) return 0; } }
static __inline__ __attribute__((always_inline)) unsigned long w_strlen(const char *s) { unsigned long n = 0; while (s[n]) n++; return n; }
'''


def run(name, unit_src, flags, body, pre="", use_models=(), extra_flags=()):
    """compile witness TU; returns {witness function name: int value}.  body: C text defining functions
    `int w_xxx(void) {...}` (or long).  unit_src: repo source file to #include (absolute) or None."""
    os.makedirs(BUILD, exist_ok=True)
    text = "/* generated witness TU: %s */\n" % name
    text += pre + "\n"
    if use_models:
        text += MODELS
        for m in use_models:
            text += "#define %s w_%s\n" % (m, m)
    if unit_src:
        text += '#include "%s"\n' % unit_src
    if use_models:
        for m in use_models:
            text += "#undef %s\n" % m
    text += body + "\n"
    h = hashlib.sha1(text.encode())
    if unit_src:
        with open(unit_src, "rb") as fh:
            h.update(fh.read())
    from prog import _headers_hash
    h.update(_headers_hash().encode())
    key = h.hexdigest()[:16]
    cpath = os.path.join(BUILD, "%s.%s.c" % (name, key))
    lpath = os.path.join(BUILD, "%s.%s.ll" % (name, key))
    if not os.path.exists(lpath):
        with open(cpath, "w") as fh:
            fh.write(text)
        # front end only, then: internalise everything except the witnesses (so that never-written globals of the
        # unit become constants), then the standard -O2 pipeline
        raw = lpath + ".raw.bc"
        cmd = ["clang", "-O2", "-Xclang", "-disable-llvm-passes", "-c", "-emit-llvm", "-fno-discard-value-names", "-o", raw, cpath] + \
              compdb.clang_flags(flags) + ["-fno-builtin"] + list(extra_flags)
        r = subprocess.run(cmd, capture_output=True, text=True)
        if r.returncode != 0:
            raise AnalysisBroken("witness TU %s does not compile: %s" % (name, r.stderr[-1500:]))
        wn = sorted(set(re.findall(r"\b(w_[A-Za-z0-9_]+)\s*\(void\)", body)))
        api = lpath + ".api"
        with open(api, "w") as fh:
            fh.write("\n".join(wn) + "\n")
        cmd = ["opt-14", "-S", "-passes=internalize,globalopt,default<O2>,globalopt,default<O2>", "-internalize-public-api-file=" + api,
               "-unroll-threshold=100000", "-inline-threshold=100000", "-o", lpath + ".tmp", raw]
        r = subprocess.run(cmd, capture_output=True, text=True)
        if r.returncode != 0:
            raise AnalysisBroken("witness TU %s: opt failed: %s" % (name, r.stderr[-1500:]))
        for junk in (raw, api):
            try:
                os.unlink(junk)
            except OSError:
                pass
        os.replace(lpath + ".tmp", lpath)
    with open(lpath) as fh:
        ll = fh.read()
    out = {}
    # each witness: define ... @w_name() ... { ... ret iN C }
    for m in re.finditer(r"define[^@\n]*@(w_[A-Za-z0-9_]+)\(\)[^{]*\{(.*?)\n\}", ll, re.S):
        fn, bodytxt = m.group(1), m.group(2)
        lines = [l.strip() for l in bodytxt.strip().splitlines() if l.strip() and not l.strip().endswith(":")]
        if len(lines) == 1:
            r = re.match(r"ret i(\d+) (-?\d+)$", lines[0])
            if r:
                out[fn] = int(r.group(2))
                continue
            if re.match(r"ret i\d+ (true|false)$", lines[0]):
                out[fn] = 1 if "true" in lines[0] else 0
                continue
        # straight-line body (no branch) ending in a constant return: side effects such as `errno = EINVAL` do not make the
        # returned value less constant
        if lines and not any(l.startswith("br ") or l.startswith("switch ") or l.startswith("indirectbr") for l in lines):
            r = re.match(r"ret i(\d+) (-?\d+)$", lines[-1])
            if r:
                out[fn] = int(r.group(2))
                continue
        out[fn] = None
    return out


def need_folded(res, names, what):
    bad = [n for n in names if res.get(n) is None]
    if bad:
        raise AnalysisBroken("%s: %d witness(es) did not fold to a constant (inconclusive), e.g. %s" % (what, len(bad), bad[:5]))
