"""Whole-program may-effect summaries over the hwast program model.

For every function: which abstract memory may it write (mod), free, which external calls with
effects outside the process memory it may reach (ext), what its returned pointer may point to
(ret) and which pointer values it may store where (pst, for aliasing rules).

Abstract roots (tuples):
   ('arg', k, path)     memory reachable from parameter k; path = up to 3 steps below it: field names, and '*' for
                        "through the pointer stored in that field" (so ('levels',) is the field, ('levels','*') its pointee)
   ('glob', name, path) a global variable / memory reachable from it
   ('static', name, ()) a function-local static (name = func.var)
   ('local', did, ())   stack memory of a local of the current activation   (never exported)
   ('fresh',)           allocated in this activation                          (never exported as mod)
   ('errno',)           errno
   ('unknown',)         cannot tell
The analysis is flow-insensitive inside a function (a local pointer variable has the union of the
roots of everything ever assigned to it) and context-insensitive across calls, iterated to a
fixpoint.  Indirect calls are resolved by function-pointer slot (record, field): all functions
ever stored into that field anywhere in the analysed program.
It over-approximates writes; absence of an effect in a summary is therefore meaningful, presence
may be spurious and rules that flag presence must tolerate that (they use dominance by a guard or
frozen exceptions).
"""
from prog import *

FRESH = ("fresh",)
UNKNOWN = ("unknown",)
ERRNO = ("errno",)

ALLOCATORS = set("malloc calloc strdup strndup realloc posix_memalign __sched_cpualloc xmlNewDoc xmlNewNode xmlNewChild xmlNewProp xmlReadFile xmlReadMemory newlocale asprintf fopen fdopen opendir fdopendir setmntent udev_new udev_device_new_from_subsystem_sysname xmlGetProp".split())

# external functions: (written pointer-arg indices, freed arg indices, has effect outside process memory, return spec)
#   return spec: None (no pointer / irrelevant), 'fresh', 'arg0', 'unknown', 'glob:<name>'
EXT = {}


def _ext(names, w=(), fr=(), os=False, ret=None):
    for n in names.split():
        EXT[n] = (tuple(w), tuple(fr), os, ret)


_ext("strcmp strncmp strcasecmp strncasecmp strlen strspn strcspn memcmp atoi atol atof strtoul strtoull strtol abs fabsf "
     "__builtin_ffsl __builtin_popcountll __builtin_expect __ctype_b_loc __uint16_identity __uint32_identity "
     "pthread_self sched_getcpu ferror dirfd sysconf xmlDocGetRootElement xmlGetIntSubset xmlCheckVersion "
     "udev_device_get_property_value __assert_fail abort __builtin_unreachable", ret="unknown")
_ext("strchr strrchr strstr", ret="arg0")
_ext("getenv strerror", ret="glob:<environ>")
_ext("__errno_location", ret="errno")
_ext("malloc calloc strdup strndup __sched_cpualloc newlocale", ret="fresh")
_ext("realloc", fr=(0,), ret="fresh")
_ext("free __sched_cpufree freelocale xmlFreeDoc udev_device_unref udev_unref", fr=(0,))
_ext("memcpy memmove strcpy strncpy memset __builtin_memset sprintf snprintf vsnprintf strcat strncat", w=(0,), ret="arg0")
_ext("strsep", w=(0,), ret="arg0")
_ext("strtoul strtoull strtol", w=(1,))
_ext("qsort", w=(0,))
_ext("asprintf", w=(0,))
_ext("posix_memalign", w=(0,))
_ext("uname", w=(0,), os=False)
_ext("sscanf", w=(2, 3, 4, 5, 6, 7, 8, 9))
_ext("fscanf", w=(2, 3, 4, 5, 6, 7, 8, 9), os=False)
_ext("fgets fread read", w=(0, 1), os=False)
_ext("getc fseek lseek rewinddir", os=False)
_ext("readdir getmntent_r", w=(1, 2), ret="unknown")
_ext("fstat stat fstatat", w=(1, 2), os=False)
_ext("readlinkat", w=(2,), os=False)
_ext("sched_getaffinity pthread_getaffinity_np", w=(2,), os=False)
_ext("fopen fdopen opendir fdopendir setmntent open openat access faccessat udev_new udev_device_new_from_subsystem_sysname "
     "xmlReadFile xmlReadMemory", os=False, ret="fresh")
_ext("fclose closedir close endmntent munmap", fr=(0,), os=False)
_ext("uselocale", os=False, ret="unknown")
_ext("xmlNewDoc xmlNewNode xmlNewChild xmlNewProp xmlCreateIntSubset xmlGetProp", ret="fresh")
_ext("xmlDocSetRootElement xmlNodeAddContentLen", w=(0,))
_ext("xmlDocDumpFormatMemoryEnc", w=(1, 2))
_ext("pci_device_next pci_slot_match_iterator_create", ret="unknown")
_ext("pci_get_strings pci_device_probe pci_device_cfg_read", w=(0, 1, 2, 3))
_ext("pci_iterator_destroy", fr=(0,))
# effects outside the process' own memory (the operating system, files, global library state)
_ext("sched_setaffinity pthread_setaffinity_np syscall mmap write ftruncate fwrite fprintf fcntl "
     "xmlSaveFormatFileEnc xmlSetGenericErrorFunc __xmlGenericError xmlCleanupParser pci_system_init pci_system_cleanup "
     "pthread_mutex_lock pthread_mutex_unlock", os=True, ret="unknown")
EXT["fprintf"] = ((), (), True, None)
EXT["mmap"] = ((), (), True, "unknown")
EXT["syscall"] = ((1, 2, 3, 4, 5), (), True, None)


def compose(root, path):
    if len(root) == 3 and root[0] in ("arg", "glob"):
        return (root[0], root[1], (root[2] + path)[:3])
    return root


class Summary(object):
    __slots__ = ("mod", "free", "ext", "ret", "pst", "calls", "unresolved")

    def __init__(self):
        self.mod = {}        # root -> witness
        self.free = {}       # root -> witness
        self.ext = {}        # external name -> witness
        self.ret = set()
        self.pst = {}        # target root -> set(value roots)
        self.calls = set()
        self.unresolved = {}  # slot/expr -> witness

    def size(self):
        return (len(self.mod), len(self.free), len(self.ext), len(self.ret), sum(len(v) for v in self.pst.values()), len(self.calls), len(self.unresolved))


class Effects(object):
    def __init__(self, program, user_slots=(), opaque=()):
        self.P = program
        self.opaque = set(opaque)     # functions assumed effect-free (e.g. lazy cache refreshers under an "already refreshed" precondition)
        self.funcs = {}
        for f in program.all_funcs(only_main=False):
            self.funcs.setdefault(f.name, f)
        self.sum = {name: Summary() for name in self.funcs}
        self.slots = {}          # (rec, field) -> set(func names)
        self.user_slots = set(user_slots)   # slots that user code may fill (callbacks): always also 'unknown'
        self.unmodelled = {}
        self._events = {}
        self._vroots = {}
        self._collect_slots()
        self._solve()

    # ------------------------------------------------------------------ slots
    def _collect_slots(self):
        P = self.P
        def fnames(n):
            n = strip(n)
            if n is None:
                return []
            if n["k"] == "Ref" and n.get("dk") == "func":
                return [n["n"]]
            if n["k"] == "Unary" and n["op"] == "&":
                return fnames(n["c"][0])
            if n["k"] == "Cond":
                return fnames(n["c"][1]) + fnames(n["c"][2])
            return []
        for f in self.funcs.values():
            for n in f.walk():
                a = assigned(n)
                if a and a[1] == "=":
                    t = strip(a[0])
                    if t["k"] == "Member" and "rec" in t:
                        for fn in fnames(a[2]):
                            self.slots.setdefault((t["rec"], t["f"]), set()).add(fn)
                        # slot copied from another slot of the same record: state->new_child = parentstate->new_child
        for u in P.units.values():
            for g in u.globals.values():
                init = g.get("init")
                if init is None:
                    continue
                self._slots_from_init(u, init, u.types[g["t"]])

    def _slots_from_init(self, u, init, t):
        init = strip(init)
        if init is None or init["k"] != "InitList":
            return
        rec = t.get("rec")
        if rec and rec in u.records:
            fields = u.records[rec]["fields"]
            for i, c in enumerate(init["c"]):
                if c is None or i >= len(fields):
                    continue
                c2 = strip(c)
                if c2["k"] == "Ref" and c2.get("dk") == "func":
                    self.slots.setdefault((rec, fields[i]["n"]), set()).add(c2["n"])
                elif c2["k"] == "Unary" and c2["op"] == "&" and strip(c2["c"][0])["k"] == "Ref" and strip(c2["c"][0]).get("dk") == "func":
                    self.slots.setdefault((rec, fields[i]["n"]), set()).add(strip(c2["c"][0])["n"])
                elif c2["k"] == "InitList":
                    self._slots_from_init(u, c2, u.types[fields[i]["t"]])
        elif "arr" in t:
            for c in init["c"]:
                if c is not None and strip(c)["k"] == "InitList":
                    # element type unknown here: try the record named in the element's own type
                    et = u.types[strip(c)["t"]] if "t" in strip(c) else None
                    if et:
                        self._slots_from_init(u, c, et)

    # ------------------------------------------------------------------ per-function events
    def events(self, f):
        ev = self._events.get(f.name)
        if ev is not None:
            return ev
        ev = []
        for n in f.walk():
            k = n["k"]
            if k == "Call":
                ev.append(("call", n))
            elif k == "Var":
                if n.get("c") and n["c"][0] is not None:
                    ev.append(("init", n))
            elif k == "Return":
                if n.get("c") and n["c"][0] is not None:
                    ev.append(("ret", n))
            else:
                a = assigned(n)
                if a is not None:
                    ev.append(("asg", n))
        self._events[f.name] = ev
        return ev

    # ------------------------------------------------------------------ roots
    def var_root_init(self, f):
        vr = {}
        for i, p in enumerate(f.params):
            vr[p["did"]] = {("arg", i, ())}
        return vr

    def roots(self, f, n, vr):
        """roots of the pointer VALUE of expression n"""
        n = strip(n)
        if n is None:
            return set()
        k = n["k"]
        if k == "Ref":
            dk = n.get("dk")
            if dk in ("param", "local"):
                t = f.type_of(n)
                if t and ("arr" in t or "rec" in t):
                    return {("local", n["did"], ())}      # array/struct decays to its own storage
                return set(vr.get(n["did"], ()))
            if dk == "slocal":
                return {("static", "%s.%s" % (f.name, n["n"]), ())}
            if dk == "global":
                return {("glob", n["n"], ())}
            if dk == "func":
                return {("func", n["n"])}
            return set()
        if k in ("Int", "Char", "Float", "SizeOf"):
            return set()
        if k == "Str":
            return {("glob", "<string literal>", ())}
        if k in ("Member", "Sub") or (k == "Unary" and n["op"] == "*"):
            # a pointer loaded from memory is reachable from where it was loaded
            out = set()
            for r in self.locroots(f, n, vr):
                if r[0] == "local":
                    out |= vr.get(r[1], set())
                    out.add(r)
                else:
                    # '*' marks "through a pointer stored there" (as opposed to the field itself)
                    out.add(compose(r, ("*",)) if (len(r) == 3 and r[0] in ("arg", "glob") and (not r[2] or r[2][-1] != "*")) else r)
            return out
        if k == "Unary":
            if n["op"] == "&":
                return self.locroots(f, n["c"][0], vr)
            if n["op"] in ("++", "--", "post++", "post--"):
                return self.roots(f, n["c"][0], vr)
            return set()
        if k == "Binary":
            op = n["op"]
            if op in ("+", "-"):
                out = set()
                for c in n["c"]:
                    t = f.type_of(c)
                    if t and (t.get("ptr") or "arr" in t):
                        out |= self.roots(f, c, vr)
                return out
            if op == ",":
                return self.roots(f, n["c"][1], vr)
            if op == "=":
                return self.roots(f, n["c"][1], vr)
            if op in ("+=", "-="):
                return self.roots(f, n["c"][0], vr)
            return set()
        if k == "Cond":
            return self.roots(f, n["c"][1], vr) | self.roots(f, n["c"][2], vr)
        if k == "BinCond":
            return self.roots(f, n["c"][0], vr) | self.roots(f, n["c"][1], vr)
        if k == "Call":
            return self.call_ret(f, n, vr)
        if k == "StmtExpr":
            return {UNKNOWN}
        if k == "InitList":
            out = set()
            for c in n["c"]:
                out |= self.roots(f, c, vr)
            return out
        return set()

    def locroots(self, f, n, vr):
        """roots of the memory LOCATION denoted by lvalue n"""
        n = strip(n)
        k = n["k"]
        if k == "Ref":
            dk = n.get("dk")
            if dk in ("param", "local"):
                return {("local", n["did"], ())}
            if dk == "slocal":
                return {("static", "%s.%s" % (f.name, n["n"]), ())}
            if dk == "global":
                return {("glob", n["n"], ())}
            return set()
        if k == "Member":
            if n.get("arrow"):
                base = self.roots(f, n["c"][0], vr)
            else:
                base = self.locroots(f, n["c"][0], vr)
            return set(compose(r, (n["f"],)) for r in base)
        if k == "Sub":
            b = strip(n["c"][0])
            bt = f.type_of(b)
            if bt and "arr" in bt:
                return self.locroots(f, b, vr)
            return self.roots(f, b, vr)
        if k == "Unary" and n["op"] == "*":
            return self.roots(f, n["c"][0], vr)
        if k == "Cast":
            return self.locroots(f, n["c"][0], vr)
        if k == "Call":
            return self.call_ret(f, n, vr)
        if k == "Cond":
            return self.locroots(f, n["c"][1], vr) | self.locroots(f, n["c"][2], vr)
        if k == "Str":
            return {("glob", "<string literal>", ())}
        return {UNKNOWN}

    def callees(self, f, call, vr):
        """-> (set of program function names, unresolved marker or None)"""
        fn = call.get("fn")
        if fn is not None:
            return {fn}, None
        ce = strip(call["c"][0])
        if ce["k"] == "Unary" and ce["op"] == "*":
            ce = strip(ce["c"][0])
        if ce["k"] == "Member" and "rec" in ce:
            slot = (ce["rec"], ce["f"])
            t = self.slots.get(slot, set())
            known = set(x for x in t if x in self.funcs)
            ext = set(x for x in t if x not in self.funcs)
            unres = None
            if not t or slot in self.user_slots:
                unres = "slot %s.%s" % slot
            return known | ext, unres
        # local function pointer variable / parameter
        rs = self.roots(f, ce, vr)
        fns = set(r[1] for r in rs if r[0] == "func")
        other = [r for r in rs if r[0] != "func"]
        return fns, ("function pointer %s" % src(ce) if other or not fns else None)

    def map_root(self, f, call, r, vr, argroots):
        if r[0] == "arg":
            k = r[1]
            a = args(call)
            if k >= len(a):
                return {UNKNOWN}
            if k not in argroots:
                argroots[k] = self.roots(f, a[k], vr)
            return set(compose(x, r[2]) for x in argroots[k])
        return {r}

    def call_ret(self, f, call, vr):
        fns, unres = self.callees(f, call, vr)
        out = set()
        argroots = {}
        for fn in fns:
            if fn in self.funcs:
                for r in self.sum[fn].ret:
                    out |= self.map_root(f, call, r, vr, argroots)
            else:
                spec = EXT.get(fn)
                if spec is None:
                    out.add(UNKNOWN)
                    continue
                ret = spec[3]
                if ret == "fresh":
                    out.add(FRESH)
                elif ret == "arg0":
                    a = args(call)
                    if a:
                        out |= self.roots(f, a[0], vr)
                elif ret == "errno":
                    out.add(ERRNO)
                elif ret and ret.startswith("glob:"):
                    out.add(("glob", ret[5:], ()))
                elif ret == "unknown":
                    out.add(UNKNOWN)
        if unres:
            out.add(UNKNOWN)
        return out

    # ------------------------------------------------------------------ solving
    def analyse(self, f):
        S = Summary()
        if f.name in self.opaque:
            self._vroots.setdefault(f.name, self.var_root_init(f))
            return S
        vr = self.var_root_init(f)
        ev = self.events(f)
        loc = f.loc

        def add_var(did, rs):
            cur = vr.setdefault(did, set())
            n0 = len(cur)
            cur |= rs
            return len(cur) != n0

        # 1. local pointer variables: flow-insensitive closure
        for _ in range(8):
            changed = False
            for kind, n in ev:
                if kind == "init":
                    t = f.unit.types[n["t"]]
                    rs = self.roots(f, n["c"][0], vr)
                    if rs and add_var(n["did"], rs):
                        changed = True
                elif kind == "asg":
                    tgt, op, rhs = assigned(n)
                    if rhs is None or op not in ("=",):
                        continue
                    rs = self.roots(f, rhs, vr)
                    if not rs:
                        continue
                    for lr in self.locroots(f, tgt, vr):
                        if lr[0] == "local" and add_var(lr[1], rs):
                            changed = True
                elif kind == "call":
                    # out-parameters: callee stores pointers into memory we pass by address
                    fns, unres = self.callees(f, n, vr)
                    argroots = {}
                    a = args(n)
                    for fn in fns:
                        if fn in self.funcs:
                            for tr, vals in self.sum[fn].pst.items():
                                for t2 in self.map_root(f, n, tr, vr, argroots):
                                    if t2[0] == "local":
                                        vs = set()
                                        for v in vals:
                                            vs |= self.map_root(f, n, v, vr, argroots)
                                        if add_var(t2[1], vs):
                                            changed = True
                        else:
                            spec = EXT.get(fn)
                            if spec is None:
                                continue
                            # external writing through a pointer to a local pointer (asprintf(&s), strtoul(.., &end))
                            for wi in spec[0]:
                                if wi < len(a):
                                    for t2 in self.roots(f, a[wi], vr):
                                        if t2[0] == "local":
                                            vs = {FRESH} if fn in ALLOCATORS else set()
                                            if fn in ("strtoul", "strtoull", "strtol", "strsep") and a:
                                                vs = self.roots(f, a[0], vr)
                                            if vs and add_var(t2[1], vs):
                                                changed = True
            if not changed:
                break
        self._vroots[f.name] = vr

        # 2. effects
        def note(dct, r, w):
            if r not in dct:
                dct[r] = w

        for kind, n in ev:
            if kind == "ret":
                S.ret |= set(r for r in self.roots(f, n["c"][0], vr) if r[0] not in ("local", "func"))
            elif kind == "asg":
                tgt, op, rhs = assigned(n)
                t = strip(tgt)
                if t["k"] == "Ref" and t.get("dk") in ("local", "param"):
                    continue
                lrs = self.locroots(f, tgt, vr)
                vals = None
                tt = f.type_of(tgt)
                if rhs is not None and op == "=" and tt and (tt.get("ptr") or "rec" in tt):
                    vals = set(r for r in self.roots(f, rhs, vr) if r[0] not in ("func",))
                for lr in lrs:
                    if lr[0] in ("local", "fresh", "func"):
                        continue
                    note(S.mod, lr, loc(n))
                    if vals:
                        S.pst.setdefault(lr, set()).update(v for v in vals if v[0] != "local")
            elif kind == "call":
                self.call_effects(f, n, vr, S)
        return S

    def call_effects(self, f, n, vr, S):
        loc = f.loc
        fns, unres = self.callees(f, n, vr)
        argroots = {}
        a = args(n)
        if unres:
            S.unresolved.setdefault(unres, loc(n))
        for fn in fns:
            S.calls.add(fn)
            if fn in self.funcs:
                cs = self.sum[fn]
                w = "%s -> %s" % (loc(n), fn)
                for r in cs.mod:
                    for m in self.map_root(f, n, r, vr, argroots):
                        if m[0] not in ("local", "fresh", "func"):
                            S.mod.setdefault(m, w)
                for r in cs.free:
                    for m in self.map_root(f, n, r, vr, argroots):
                        if m[0] not in ("local", "fresh", "func"):
                            S.free.setdefault(m, w)
                for e in cs.ext:
                    S.ext.setdefault(e, w)
                for u2 in cs.unresolved:
                    S.unresolved.setdefault(u2, w)
                for tr, vals in cs.pst.items():
                    for t2 in self.map_root(f, n, tr, vr, argroots):
                        if t2[0] in ("local", "fresh", "func"):
                            continue
                        vs = set()
                        for v in vals:
                            vs |= self.map_root(f, n, v, vr, argroots)
                        vs = set(v for v in vs if v[0] not in ("local", "func"))
                        if vs:
                            S.pst.setdefault(t2, set()).update(vs)
            else:
                spec = EXT.get(fn)
                if spec is None:
                    self.unmodelled.setdefault(fn, loc(n))
                    S.ext.setdefault(fn, loc(n))
                    for x in a:
                        t = f.type_of(strip(x)) if strip(x) is not None else None
                        if t and t.get("ptr") and not t.get("pconst"):
                            for m in self.roots(f, x, vr):
                                if m[0] not in ("local", "fresh", "func"):
                                    S.mod.setdefault(m, "%s -> %s (unmodelled external)" % (loc(n), fn))
                    continue
                wr, fr, os_, ret = spec
                for wi in wr:
                    if wi < len(a):
                        for m in self.roots(f, a[wi], vr):
                            if m[0] not in ("local", "fresh", "func"):
                                S.mod.setdefault(m, "%s -> %s" % (loc(n), fn))
                for fi in fr:
                    if fi < len(a):
                        for m in self.roots(f, a[fi], vr):
                            if m[0] not in ("local", "fresh", "func"):
                                S.free.setdefault(m, "%s -> %s" % (loc(n), fn))
                if os_:
                    S.ext.setdefault(fn, loc(n))
                if fn in ("memcpy", "memmove") and len(a) >= 2:
                    # copying a record may copy the pointers it contains
                    vs = set(v for v in self.roots(f, a[1], vr) if v[0] not in ("local", "func"))
                    for m in self.roots(f, a[0], vr):
                        if m[0] not in ("local", "fresh", "func") and vs:
                            S.pst.setdefault(m, set()).update(vs)

    def _solve(self):
        names = list(self.funcs)
        work = set(names)
        callers = {}
        rounds = 0
        while work:
            rounds += 1
            if rounds > 60:
                raise AnalysisBroken("effect summaries did not converge")
            cur = sorted(work)
            work = set()
            for name in cur:
                f = self.funcs[name]
                old = self.sum[name].size()
                S = self.analyse(f)
                # monotone merge (keep first witnesses)
                O = self.sum[name]
                for k2, v in S.mod.items():
                    O.mod.setdefault(k2, v)
                for k2, v in S.free.items():
                    O.free.setdefault(k2, v)
                for k2, v in S.ext.items():
                    O.ext.setdefault(k2, v)
                for k2, v in S.unresolved.items():
                    O.unresolved.setdefault(k2, v)
                O.ret |= S.ret
                for k2, v in S.pst.items():
                    O.pst.setdefault(k2, set()).update(v)
                O.calls |= S.calls
                for c in S.calls:
                    callers.setdefault(c, set()).add(name)
                if O.size() != old:
                    work |= callers.get(name, set())
                    work.add(name)
        self.rounds = rounds

    # ------------------------------------------------------------------ queries
    def node_effects(self, f, n):
        """effects of a single AST node (store or call) in terms of f's roots -> Summary"""
        vr = self._vroots.get(f.name)
        if vr is None:
            self.analyse(f)
            vr = self._vroots[f.name]
        S = Summary()
        if f.name in self.opaque:
            return S
        if n["k"] == "Call":
            self.call_effects(f, n, vr, S)
            return S
        a = assigned(n)
        if a is not None:
            tgt = a[0]
            t = strip(tgt)
            if t["k"] == "Ref" and t.get("dk") in ("local", "param"):
                return S
            for lr in self.locroots(f, tgt, vr):
                if lr[0] in ("local", "fresh", "func"):
                    continue
                S.mod[lr] = f.loc(n)
        return S

    def reach(self, name):
        """transitive callees"""
        seen = set()
        stack = [name]
        while stack:
            x = stack.pop()
            if x in seen:
                continue
            seen.add(x)
            if x in self.sum:
                stack.extend(self.sum[x].calls)
        return seen

    def chain(self, name, root, kind="mod", limit=6):
        """witness chain for an effect: list of 'loc -> callee' steps down to the store"""
        out = []
        cur = name
        r = root
        for _ in range(limit):
            S = self.sum.get(cur)
            if S is None:
                break
            d = getattr(S, kind)
            w = d.get(r)
            if w is None:
                # root was mapped through arguments; fall back to any witness of same kind/field
                cands = [v for k2, v in d.items() if k2[0] == r[0]]
                w = cands[0] if cands else None
            if w is None:
                break
            out.append("%s: %s" % (cur, w))
            if " -> " in w:
                cur = w.split(" -> ")[1].split(" ")[0]
                r = None
                S2 = self.sum.get(cur)
                if S2 is None:
                    break
                d2 = getattr(S2, kind)
                if not d2:
                    break
                r = sorted(d2.keys(), key=str)[0]
            else:
                break
        return out
