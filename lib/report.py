"""Instances, floors, known findings, evidence and exit codes shared by all checks."""
import os, sys, json, time, re

HERE = os.path.dirname(os.path.abspath(__file__))
VERIF = os.path.dirname(HERE)
KNOWN = os.path.join(VERIF, "KNOWN_FINDINGS.txt")
# self-test / seed matrix runs redirect their output so that the registered evidence is never overwritten
OUT = os.environ.get("VERIF_OUT") or VERIF


class Broken(Exception):
    """analysis broken -> exit 2"""


def load_known():
    out = []
    if not os.path.exists(KNOWN):
        return out
    for line in open(KNOWN):
        line = line.strip()
        if not line.startswith("known:"):
            continue
        m = re.match(r"known:\s+property=(\S+)\s+rule=(\S+)\s+site=(\S+)\s*(.*)", line)
        if not m:
            continue
        out.append({"props": m.group(1).split(","), "rule": m.group(2), "site": m.group(3), "text": m.group(4)})
    return out


class Check(object):
    def __init__(self, pid, tier="quick", seed=0):
        self.pid = pid
        self.tier = tier
        self.seed = seed
        self.t0 = time.time()
        self.instances = []      # dicts
        self.floors = []         # (rule, what, count, minimum)
        self.broken = []         # messages
        self.units = set()
        self.functions = set()
        self.rules = {}          # rule -> description
        self.notes = []
        self.trusted = []
        self.undecided = []
        self.decided = []

    # -- recording ---------------------------------------------------------
    def rule(self, name, text):
        self.rules[name] = text

    def inst(self, rule, func, construct, ok, detail="", loc=None, path=None, nontrivial=True, info=False):
        """one rule instance (= one obligation).  construct: stable (line-free) name of the construct
        inside the function.  ok: True (discharged) / False (violated)."""
        fname = func if isinstance(func, str) else func.name
        if loc is None and not isinstance(func, str):
            loc = "%s:%s" % (os.path.relpath(func.file, os.environ.get("HWLOC_REPO", "/repo")), func.line)
        d = {"rule": rule, "function": fname, "construct": construct, "ok": bool(ok), "detail": detail,
             "loc": loc, "nontrivial": bool(nontrivial)}
        if path:
            d["path"] = path
        if info:
            d["info"] = True
        self.instances.append(d)
        if not isinstance(func, str):
            self.functions.add(fname)
        return ok

    def floor(self, rule, what, count, minimum):
        self.floors.append((rule, what, count, minimum))
        if count < minimum:
            self.broken.append("%s: %s = %d is below the confirmed floor %d (rule would pass vacuously)" % (rule, what, count, minimum))

    def broke(self, msg):
        self.broken.append(msg)

    def need(self, cond, msg):
        if not cond:
            self.broken.append(msg)
        return cond

    # -- finishing ---------------------------------------------------------
    def finish(self, explanation, rule_text=None):
        known = load_known()
        viol, knownhit = [], []
        for d in self.instances:
            if d["ok"] or d.get("info"):
                continue
            site = d["function"] + (":" + d["construct"] if d["construct"] else "")
            hit = None
            for k in known:
                if self.pid in k["props"] and k["rule"] == d["rule"] and k["site"] == site:
                    hit = k
                    break
            if hit:
                knownhit.append((d, hit))
            else:
                viol.append(d)
        wall = time.time() - self.t0
        # reports
        lines = []
        rdir = os.path.join(OUT, "reports", self.pid)
        if os.path.isdir(rdir):   # replay files describe the latest run only
            for fn in os.listdir(rdir):
                if fn.endswith(".json"):
                    os.unlink(os.path.join(rdir, fn))
        if viol:
            os.makedirs(rdir, exist_ok=True)
        seen_known = set()
        for d, k in knownhit:
            key = (k["rule"], k["site"])
            if key in seen_known:
                continue
            seen_known.add(key)
            lines.append("KNOWN-FINDING: property=%s rule=%s site=%s %s" % (self.pid, k["rule"], k["site"], k["text"]))
        for i, d in enumerate(viol):
            p = os.path.join(rdir, "%d.json" % i)
            with open(p, "w") as fh:
                json.dump({"property": self.pid, **d}, fh, indent=1)
            lines.append("VIOLATION property=%s replay=%s" % (self.pid, p))
            lines.append("  rule=%s site=%s:%s at %s -- %s" % (d["rule"], d["function"], d["construct"], d["loc"], d["detail"]))
            for step in d.get("path", [])[:40]:
                lines.append("    path: %s" % step)
        # evidence
        obligations = [d for d in self.instances if not d.get("info")]
        discharged = [d for d in obligations if d["ok"]]
        distinct = set((d["rule"], d["function"], d["construct"]) for d in obligations if d["nontrivial"])
        samples = []
        byrule = {}
        for d in obligations:
            byrule.setdefault(d["rule"], []).append(d)
        for r, ds in sorted(byrule.items()):
            for d in ds[:2]:
                samples.append({k: d[k] for k in ("rule", "function", "construct", "loc", "ok", "detail") if d.get(k) is not None})
        for d in viol[:10]:
            samples.append({"VIOLATION": True, **{k: d[k] for k in ("rule", "function", "construct", "loc", "detail")}})
        ev = {
            "property_id": self.pid,
            "tier": self.tier,
            "seed": self.seed,
            "level": "other",
            "coverage": {
                "explanation": explanation,
                "rule": rule_text or "one evaluation = one rule instance (obligation) re-derived from the current source; "
                        "non-trivial = the instance is attached to a concrete construct (call site, field, table row, CFG path) "
                        "and not a presence-only bookkeeping fact; distinct = distinct (rule, function, construct)",
                "evaluations": len(obligations),
                "distinct_nontrivial": len(distinct),
                "obligations": len(obligations),
                "discharged": len(discharged),
                "known_findings_matched": len(seen_known),
                "samples": samples[:40],
                "rules": self.rules,
                "per_rule_counts": {r: len(ds) for r, ds in sorted(byrule.items())},
                "floors": [{"rule": r, "what": w, "count": c, "floor": m} for r, w, c, m in self.floors],
                "units": sorted(self.units),
                "functions_examined": len(self.functions),
                "decided_clauses": self.decided,
                "undecided_clauses": self.undecided,
                "trusted_base": self.trusted,
                "checker_cmd": "./check %s --tier %s" % (self.pid, self.tier),
                "exhaustive": False,
                "notes": self.notes,
                "analysis_broken": self.broken,
            },
            "assumptions": self.trusted,
            "wall_s": round(wall, 3),
            "violations": len(viol),
        }
        os.makedirs(os.path.join(OUT, "evidence"), exist_ok=True)
        with open(os.path.join(OUT, "evidence", self.pid + ".json"), "w") as fh:
            json.dump(ev, fh, indent=1)
        for l in lines:
            print(l)
        print("%s tier=%s: %d obligations, %d discharged, %d known, %d violations, %d broken, %.1fs" % (
            self.pid, self.tier, len(obligations), len(discharged), len(seen_known), len(viol), len(self.broken), wall))
        for r, w, c, m in self.floors:
            print("  floor %-14s %-40s %4d >= %d" % (r, w, c, m))
        if self.broken:
            for b in self.broken:
                print("ANALYSIS-BROKEN %s: %s" % (self.pid, b))
            return 1 if viol else 2
        return 1 if viol else 0
