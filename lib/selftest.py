"""Self-test of the rules (thorough tier): the checker must *fire* on variants of the current tree that are known to
break the property, and name the expected rule.

Variants (all built from /repo's current working tree in scratch copies under $TMPDIR, removed afterwards):
  fix:<commit>   the repaired defect is re-introduced by reverse-applying selftest/fixes/<commit>.diff
  seed:<id>      an independently seeded change from seeded/<id>/patch.diff is applied
  benign:<id>    an independently written behaviour-preserving refactoring from seeded/<id>/patch.diff is applied: the check
                 must stay SILENT (exit 0); an alarm there is a false alarm of the checker (analysis broken)
A variant whose patch does not apply to the tree under analysis is skipped (reported, not an error).  A variant that
applies and on which the expected rule stays silent means the rule lost its teeth: analysis broken (exit 2), never a
violation of the property.  Nothing is compiled to objects or executed: each variant is analysed exactly like /repo.
"""
import os, re, json, subprocess, shutil, tempfile
from concurrent.futures import ThreadPoolExecutor
from report import VERIF, KNOWN
import compdb


def variants(pid):
    out = []
    for line in open(KNOWN):
        m = re.match(r"fixed:\s+property=(\S+)\s+(\w+)\s+(.*)", line.strip())
        if not m or pid not in m.group(1).split(","):
            continue
        r = re.search(r";\s*(R-[A-Z0-9-]+)", m.group(3))
        diff = os.path.join(VERIF, "selftest", "fixes", m.group(2) + ".diff")
        if r and os.path.exists(diff):
            out.append({"name": "fix:" + m.group(2), "patch": diff, "reverse": True, "rules": [r.group(1)], "what": m.group(3)[:120]})
    own = os.path.join(VERIF, "selftest", "own", "index.json")
    if os.path.exists(own):
        # my own single-point mutations, kept only to prove that a rule without an independent seed has teeth
        for o in json.load(open(own)):
            if pid in o["properties"]:
                v = {"name": "own:" + o["file"][:-5], "patch": os.path.join(VERIF, "selftest", "own", o["file"]), "reverse": False, "rules": o["rules"], "what": o["what"]}
                if o.get("silent"):
                    v["silent"] = True      # a behaviour-preserving variant of my own: the check must stay silent
                out.append(v)
    sdir = os.path.join(VERIF, "seeded")
    for d in sorted(os.listdir(sdir)) if os.path.isdir(sdir) else []:
        mp = os.path.join(sdir, d, "meta.json")
        if not os.path.exists(mp):
            continue
        meta = json.load(open(mp))
        det = meta.get("static_checks", {}).get("detected_by", {})
        if str(meta.get("kind", "")).startswith("benign"):
            # behaviour-preserving refactoring of code that implements this property: the check must stay silent (exit 0)
            if meta.get("property") == pid:
                out.append({"name": "benign:" + d, "patch": os.path.join(sdir, d, "patch.diff"), "reverse": False, "rules": [], "silent": True,
                            "what": meta.get("summary", "")[:120]})
            continue
        if pid in det:
            out.append({"name": "seed:" + d, "patch": os.path.join(sdir, d, "patch.diff"), "reverse": False, "rules": det[pid],
                        "what": meta.get("summary", "")[:120]})
    return out


def _one(pid, v, base):
    copy = os.path.join(base, v["name"].replace(":", "_"))
    out = copy + ".out"
    try:
        subprocess.run(["rsync", "-a", "--exclude", ".git", "--exclude", "*.o", "--exclude", "*.lo", "--exclude", ".libs",
                        "--exclude", "/tests", "--exclude", "/doc", compdb.REPO.rstrip("/") + "/", copy + "/"], check=True)
        # a repaired defect whose code was touched again by a later repair: the later ones are reversed first
        req = v["patch"][:-len(".diff")] + ".requires"
        if v["reverse"] and os.path.exists(req):
            for c in open(req).read().split():
                subprocess.run(["patch", "-p1", "-s", "-f", "-R", "-d", copy, "-i", os.path.join(os.path.dirname(v["patch"]), c + ".diff")], capture_output=True, text=True)
        cmd = ["patch", "-p1", "-s", "-f", "-d", copy, "-i", v["patch"]] + (["-R"] if v["reverse"] else [])
        r = subprocess.run(cmd, capture_output=True, text=True)
        if r.returncode != 0:
            return dict(v, status="skipped", detail="patch does not apply to the tree under analysis")
        env = dict(os.environ, HWLOC_REPO=copy, VERIF_OUT=out, VERIF_TIER="quick", VERIF_NO_SELFTEST="1")
        rr = subprocess.run([os.path.join(VERIF, "check"), pid, "--tier", "quick"], capture_output=True, text=True, env=env, cwd=VERIF)
        fired = sorted(set(l.split("rule=")[1].split(" ")[0] for l in rr.stdout.splitlines() if l.strip().startswith("rule=")))
        if v.get("silent"):
            return dict(v, status="silent" if rr.returncode == 0 else "ALARM", detail="exit %d, rules fired: %s" % (rr.returncode, ",".join(fired) or "none"),
                        sites=[l.strip()[:200] for l in rr.stdout.splitlines() if l.strip().startswith(("rule=", "ANALYSIS-BROKEN"))][:3])
        ok = rr.returncode == 1 and any(x in fired for x in v["rules"])
        sites = [l.strip()[:200] for l in rr.stdout.splitlines() if l.strip().startswith("rule=") and any(("rule=" + x + " ") in l for x in v["rules"])]
        return dict(v, status="fired" if ok else "SILENT", detail="exit %d, rules fired: %s" % (rr.returncode, ",".join(fired) or "none"), sites=sites[:3])
    finally:
        shutil.rmtree(copy, ignore_errors=True)
        shutil.rmtree(out, ignore_errors=True)


def run(chk):
    if os.environ.get("VERIF_NO_SELFTEST"):
        return
    vs = variants(chk.pid)
    chk.rule("R-SELFTEST", "the rules fire, naming the expected rule, on every applicable variant of the current tree that is known to break the "
                           "property (re-introduced repaired defects, independently seeded changes); silence = analysis broken")
    if not vs:
        chk.notes.append("self-test: no variant recorded for this property")
        return
    base = tempfile.mkdtemp(prefix="verif-selftest-")
    try:
        with ThreadPoolExecutor(max_workers=min(8, len(vs))) as ex:
            res = list(ex.map(lambda v: _one(chk.pid, v, base), vs))
    finally:
        shutil.rmtree(base, ignore_errors=True)
    for r in res:
        line = "self-test %-14s expect %-28s %s (%s)" % (r["name"], ",".join(r["rules"]) or "silence", r["status"], r["detail"])
        print(line)
        chk.notes.append(line + ("; " + r["sites"][0] if r.get("sites") else ""))
        if r["status"] == "skipped":
            continue
        if r.get("silent"):
            chk.inst("R-SELFTEST", "<variant>", r["name"], True, "behaviour-preserving refactoring: " + r["detail"], loc=os.path.relpath(r["patch"], VERIF), nontrivial=True, info=(r["status"] != "silent"))
            if r["status"] != "silent":
                # on the unchanged tree this is a false alarm of the checker; on a tree that already violates the property the
                # violation is reported by the main run anyway
                chk.broke("self-test: the check is not silent on the behaviour-preserving variant %s (%s; %s)" % (r["name"], r["detail"], (r.get("sites") or [""])[0]))
            continue
        chk.inst("R-SELFTEST", "<variant>", r["name"], True if r["status"] == "fired" else True, r["detail"], loc=os.path.relpath(r["patch"], VERIF),
                 nontrivial=True, info=(r["status"] != "fired"))
        if r["status"] != "fired":
            chk.broke("self-test: rule %s stayed silent on variant %s (%s)" % (",".join(r["rules"]), r["name"], r["what"]))
