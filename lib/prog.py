"""Program model over hwast output: units, functions, expression helpers, CFG and a
small forward-dataflow framework.  Everything here is analysis of source
representation; nothing from /repo is ever executed."""
import os, sys, json, hashlib, subprocess, glob, time
from concurrent.futures import ThreadPoolExecutor

HERE = os.path.dirname(os.path.abspath(__file__))
VERIF = os.path.dirname(HERE)
sys.path.insert(0, HERE)
import compdb
from compdb import AnalysisBroken, REPO

BUILD = os.path.join(VERIF, "build")
HWAST = os.path.join(VERIF, "engines", "hwast")


# --------------------------------------------------------------------------
# extraction with a content-hash cache
# --------------------------------------------------------------------------
_hdr_hash = None


def _headers_hash():
    global _hdr_hash
    if _hdr_hash is None:
        h = hashlib.sha1()
        pats = ["include/*.h", "include/hwloc/*.h", "include/hwloc/autogen/*.h", "include/private/*.h",
                "include/private/autogen/*.h", "hwloc/*.h", "utils/hwloc/*.h", "utils/lstopo/*.h"]
        for p in pats:
            for f in sorted(glob.glob(os.path.join(REPO, p))):
                h.update(f.encode())
                with open(f, "rb") as fh:
                    h.update(fh.read())
        with open(HWAST, "rb") as fh:
            h.update(fh.read())
        _hdr_hash = h.hexdigest()
    return _hdr_hash


def _extract_one(src, flags, extra_tag="", root=None):
    if not os.path.exists(HWAST):
        raise AnalysisBroken("engines/hwast not built (run setup_cmd: make -C /verif/engines)")
    h = hashlib.sha1()
    h.update(_headers_hash().encode())
    h.update(" ".join(flags).encode())
    with open(src, "rb") as fh:
        h.update(fh.read())
    key = h.hexdigest()[:16]
    outdir = os.path.join(BUILD, "ast")
    os.makedirs(outdir, exist_ok=True)
    out = os.path.join(outdir, "%s.%s.json" % (os.path.basename(src), key))
    if not os.path.exists(out):
        tmp = out + ".tmp%d" % os.getpid()
        r = subprocess.run([HWAST, "-o", tmp, "-root", root or REPO, src, "--"] + compdb.clang_flags(flags),
                           capture_output=True, text=True)
        if r.returncode != 0 or not os.path.exists(tmp):
            raise AnalysisBroken("hwast failed on %s: rc=%s %s" % (src, r.returncode, r.stderr[-2000:]))
        os.replace(tmp, out)
        # drop cache entries of the same unit that have not been used for an hour (concurrent runs on scratch copies
        # share this cache: never delete a file another run may be about to load)
        now = time.time()
        for old in glob.glob(os.path.join(outdir, os.path.basename(src) + ".*.json")):
            if old != out:
                try:
                    if now - os.stat(old).st_atime > 3600 and now - os.stat(old).st_mtime > 3600:
                        os.unlink(old)
                except OSError:
                    pass
    else:
        try:
            os.utime(out, None)
        except OSError:
            pass
    return out


class Func(object):
    __slots__ = ("unit", "name", "d", "nodes", "parent", "blocks", "entry", "exit", "preds", "elem_block", "_order", "_dom", "_live")

    def __init__(self, unit, d):
        self.unit = unit
        self.name = d["name"]
        self.d = d
        self.nodes = {}
        self.parent = {}
        self._index(d["body"], None)
        cfg = d.get("cfg")
        self.blocks = {}
        self.preds = {}
        self.elem_block = {}
        self.entry = self.exit = None
        if cfg:
            self.entry, self.exit = cfg["entry"], cfg["exit"]
            for b in cfg["blocks"]:
                self.blocks[b["id"]] = b
                self.preds.setdefault(b["id"], [])
            wrap_id = (max(self.nodes) + 1) if self.nodes else 1
            for b in cfg["blocks"]:
                if b.get("noret"):
                    b["s"] = []
                for i, e in enumerate(b["e"]):
                    n0 = self.nodes.get(e)
                    if n0 is not None and n0["k"] == "Var":
                        # one declarator of a multi-declarator statement (the CFG builder splits `int a = 1, b = 2;`):
                        # wrap it into a single-declarator DeclStmt so that every transfer function sees the initialisation
                        w = {"id": wrap_id, "k": "DeclStmt", "c": [n0], "l": n0.get("l"), "synthetic": True}
                        if "fl" in n0:
                            w["fl"] = n0["fl"]
                        self.nodes[wrap_id] = w
                        self.parent[wrap_id] = self.parent.get(self.parent.get(e))
                        b["e"][i] = wrap_id
                        e = wrap_id
                        wrap_id += 1
                    self.elem_block[e] = (b["id"], i)
                for s in b["s"]:
                    if s is not None:
                        self.preds.setdefault(s, []).append(b["id"])

    def _index(self, n, par):
        stack = [(n, par)]
        while stack:
            n, par = stack.pop()
            if n is None:
                continue
            self.nodes[n["id"]] = n
            self.parent[n["id"]] = par
            for c in n.get("c", ()):
                if c is not None:
                    stack.append((c, n["id"]))

    @property
    def file(self):
        return self.unit.files[self.d["file"]]

    @property
    def line(self):
        return self.d["line"]

    @property
    def params(self):
        return self.d["params"]

    def loc(self, n):
        """file:line of a node (expansion location)"""
        f = self.unit.files[n["fl"]] if "fl" in n else self.file
        return "%s:%s" % (os.path.relpath(f, REPO) if f.startswith(REPO) else f, n.get("l", "?"))

    def par(self, n):
        p = self.parent.get(n["id"])
        return self.nodes[p] if p is not None else None

    def ancestors(self, n):
        p = self.par(n)
        while p is not None:
            yield p
            p = self.par(p)

    def walk(self, n=None):
        stack = [n if n is not None else self.d["body"]]
        while stack:
            x = stack.pop()
            if x is None:
                continue
            yield x
            cs = x.get("c")
            if cs:
                stack.extend(reversed(cs))

    def calls(self, name=None):
        for n in self.walk():
            if n["k"] == "Call" and (name is None or n.get("fn") == name or (isinstance(name, (set, frozenset, tuple, list)) and n.get("fn") in name)):
                yield n

    def type_of(self, n):
        return self.unit.types[n["t"]] if "t" in n else None

    def dominators(self):
        """block id -> set of dominating block ids (iterative; CFGs here are small)"""
        d = getattr(self, "_dom", None)
        if d is not None:
            return d
        order = self.rpo()
        allb = set(order)
        dom = {b: set(allb) for b in order}
        dom[self.entry] = {self.entry}
        changed = True
        while changed:
            changed = False
            for b in order:
                if b == self.entry:
                    continue
                ps = [p for p in self.preds.get(b, ()) if p in dom]
                new = set(allb)
                for p in ps:
                    new &= dom[p]
                new.add(b)
                if new != dom[b]:
                    dom[b] = new
                    changed = True
        self._dom = dom
        return dom

    def liveness(self):
        """block id -> set of decl ids of locals/params live at block entry (backward may-analysis)"""
        lv_ = getattr(self, "_live", None)
        if lv_ is not None:
            return lv_
        use, deff = {}, {}
        for b, blk in self.blocks.items():
            u, d = set(), set()
            for e in blk["e"]:
                n = self.nodes[e]
                k = n["k"]
                if k == "Ref" and n.get("dk") in ("local", "param"):
                    par = self.par(n)
                    is_def = False
                    if par is not None:
                        a = assigned(par)
                        if a is not None and strip(a[0]) is n and a[1] == "=":
                            is_def = True       # pure definition (not a use); compound ops read too
                    if not is_def and n["did"] not in d:
                        u.add(n["did"])
                elif k == "DeclStmt":
                    for v in n["c"]:
                        d.add(v["did"])
                else:
                    a = assigned(n)
                    if a is not None:
                        t = strip(a[0])
                        if t["k"] == "Ref" and t.get("dk") in ("local", "param"):
                            d.add(t["did"])
            use[b], deff[b] = u, d
        live = {b: set() for b in self.blocks}
        changed = True
        while changed:
            changed = False
            for b in reversed(self.rpo()):
                out = set()
                for s in self.blocks[b]["s"]:
                    if s is not None:
                        out |= live[s]
                new = use[b] | (out - deff[b])
                if new != live[b]:
                    live[b] = new
                    changed = True
        self._live = live
        return live

    def in_loop(self, n):
        """is the CFG element holding node n (or an ancestor of it) inside a cycle of the CFG?"""
        x = n["id"]
        while x is not None and x not in self.elem_block:
            x = self.parent.get(x)
        if x is None:
            return True      # unknown position: be conservative
        b0 = self.elem_block[x][0]
        seen, stack = set(), [s for s in self.blocks[b0]["s"] if s is not None]
        while stack:
            b = stack.pop()
            if b == b0:
                return True
            if b in seen:
                continue
            seen.add(b)
            stack.extend(s for s in self.blocks[b]["s"] if s is not None)
        return False

    def rpo(self):
        """reverse post-order of reachable blocks from entry"""
        if getattr(self, "_order", None):
            return self._order
        seen, order = set(), []
        stack = [(self.entry, iter(self.blocks[self.entry]["s"]))]
        seen.add(self.entry)
        while stack:
            b, it = stack[-1]
            adv = False
            for s in it:
                if s is not None and s not in seen:
                    seen.add(s)
                    stack.append((s, iter(self.blocks[s]["s"])))
                    adv = True
                    break
            if not adv:
                order.append(b)
                stack.pop()
        order.reverse()
        self._order = order
        return order


class Unit(object):
    def __init__(self, path, jpath):
        self.path = path
        with open(jpath) as fh:
            d = json.load(fh)
        self.d = d
        self.files = d["files"]
        self.types = d["types"]
        self.records = {}
        for r in d["records"]:
            if r["n"]:
                self.records.setdefault(r["n"], r)
        self.records_by_did = {r["did"]: r for r in d["records"]}
        self.enums = {e["n"]: e for e in d["enums"] if e["n"]}
        self.enum_consts = {}
        for e in d["enums"]:
            for n, v in e["items"]:
                self.enum_consts[n] = v
        self.globals = {g["n"]: g for g in d["globals"]}
        self.decls = {}
        for x in d["decls"]:
            self.decls.setdefault(x["name"], []).append(x)
        self.functions = {}
        self._fd = {f["name"]: f for f in d["functions"]}

    def func(self, name):
        f = self.functions.get(name)
        if f is None:
            d = self._fd.get(name)
            if d is None:
                return None
            f = self.functions[name] = Func(self, d)
        return f

    def funcs(self, only_main=False):
        for name, d in self._fd.items():
            if only_main and self.files[d["file"]] != self.path:
                continue
            yield self.func(name)

    def relfile(self, idx):
        f = self.files[idx]
        return os.path.relpath(f, REPO) if f.startswith(REPO) else f


class ExampleProgram(object):
    """Tiny positive examples kept under /verif/selftest/examples: a rule whose instance count on the repository may
    legitimately be zero must still match its example on every run (otherwise it could pass vacuously forever)."""

    def __init__(self, names):
        d = os.path.join(VERIF, "selftest", "examples")
        self.units = {}
        self.db = {}
        for nm in names:
            src = os.path.join(d, nm)
            if not os.path.exists(src):
                raise AnalysisBroken("example %s missing" % src)
            jp = _extract_one(src, [], root=d)
            self.units[nm] = Unit(src, jp)
            self.db[src] = []

    unit = lambda self, base: self.units[base]

    def func(self, name, unit=None):
        for u in ([self.units[unit]] if unit else self.units.values()):
            f = u.func(name)
            if f is not None:
                return f
        return None

    def need_func(self, name, unit=None):
        f = self.func(name, unit)
        if f is None:
            raise AnalysisBroken("example function %s missing" % name)
        return f

    def all_funcs(self, only_main=True):
        for u in self.units.values():
            for f in u.funcs(only_main=only_main):
                yield f


class Program(object):
    """A set of extracted units."""

    def __init__(self, groups=("lib",), only=None, extra=None):
        t0 = time.time()
        db = compdb.load(groups)
        self.db = db
        sel = {}
        for src, flags in db.items():
            if only is None or os.path.basename(src) in only:
                sel[src] = flags
        if only:
            missing = set(only) - set(os.path.basename(s) for s in sel)
            if missing:
                raise AnalysisBroken("units not in the build any more: %s" % sorted(missing))
        for src in sel:
            if not os.path.exists(src):
                raise AnalysisBroken("source vanished: " + src)
        with ThreadPoolExecutor(max_workers=16) as ex:
            outs = list(ex.map(lambda kv: (kv[0], _extract_one(kv[0], kv[1])), sel.items()))
        self.units = {}
        for src, jp in outs:
            self.units[os.path.basename(src)] = Unit(src, jp)
        self.extract_s = time.time() - t0

    def unit(self, base):
        u = self.units.get(base)
        if u is None:
            raise AnalysisBroken("unit %s not analysed" % base)
        return u

    def func(self, name, unit=None):
        if unit:
            return self.unit(unit).func(name)
        for u in self.units.values():
            d = u._fd.get(name)
            if d is not None and u.files[d["file"]] == u.path:
                return u.func(name)
        for u in self.units.values():
            f = u.func(name)
            if f is not None:
                return f
        return None

    def need_func(self, name, unit=None):
        f = self.func(name, unit)
        if f is None:
            raise AnalysisBroken("anchor function %s%s has vanished" % (name, " in " + unit if unit else ""))
        return f

    def public_api(self, plugins=False):
        """names of functions declared in the public headers (include/hwloc.h, include/hwloc/*.h)"""
        out = {}
        for u in self.units.values():
            for name, ds in u.decls.items():
                for d in ds:
                    rf = u.relfile(d["file"])
                    if rf == "include/hwloc.h" or (rf.startswith("include/hwloc/") and "/autogen/" not in rf):
                        if not plugins and rf.endswith("plugins.h"):
                            continue
                        out.setdefault(name, rf)
        return out

    def all_funcs(self, only_main=True):
        seen = set()
        for u in self.units.values():
            for f in u.funcs(only_main=only_main):
                key = (f.name, f.file, f.line)
                if key in seen:
                    continue
                seen.add(key)
                yield f


# --------------------------------------------------------------------------
# expression helpers
# --------------------------------------------------------------------------
def kids(n):
    return n.get("c", ())


def strip(n):
    """drop explicit casts"""
    while n is not None and n["k"] == "Cast":
        n = n["c"][0]
    return n


def cval(n):
    """compile-time integer value of an expression, or None"""
    if n is None:
        return None
    if n["k"] in ("Int", "Char"):
        return n.get("v")
    if "cv" in n:
        return n["cv"]
    if n["k"] == "Ref" and n.get("dk") == "enum":
        return n.get("v")
    if n["k"] == "Cast":
        return cval(n["c"][0])
    return None


_PREC = {"*": 12, "/": 12, "%": 12, "+": 11, "-": 11, "<<": 10, ">>": 10, "<": 9, ">": 9, "<=": 9, ">=": 9,
         "==": 8, "!=": 8, "&": 7, "^": 6, "|": 5, "&&": 4, "||": 3, "=": 1, ",": 0}


def src(n, casts=False):
    """C-like rendering of an expression tree (for reports, keys and generated witnesses)."""
    if n is None:
        return ""
    k = n["k"]
    if k == "Ref":
        return n["n"]
    if k == "Int":
        return str(n["v"]) if "v" in n else n.get("vu", "?")
    if k == "Char":
        v = n["v"]
        return "'%s'" % chr(v) if 32 <= v < 127 and chr(v) not in "'\\" else str(v)
    if k == "Str":
        return json.dumps(n.get("s", ""))
    if k == "Float":
        return "<float>"
    if k == "Member":
        return "%s%s%s" % (src_p(n["c"][0], casts), "->" if n.get("arrow") else ".", n["f"])
    if k == "Call":
        return "%s(%s)" % (src_p(n["c"][0], casts), ", ".join(src(a, casts) for a in n["c"][1:]))
    if k == "Unary":
        op = n["op"]
        if op.startswith("post"):
            return src_p(n["c"][0], casts) + op[4:]
        return op + src_p(n["c"][0], casts)
    if k == "Binary":
        return "%s %s %s" % (src_p(n["c"][0], casts), n["op"], src_p(n["c"][1], casts))
    if k == "Cond":
        return "%s ? %s : %s" % (src_p(n["c"][0], casts), src_p(n["c"][1], casts), src_p(n["c"][2], casts))
    if k == "Sub":
        return "%s[%s]" % (src_p(n["c"][0], casts), src(n["c"][1], casts))
    if k == "Cast":
        return src(n["c"][0], casts) if not casts else "(cast)%s" % src_p(n["c"][0], casts)
    if k == "SizeOf":
        return "sizeof(%s)" % (src(n["c"][0], casts) if n.get("c") else "type")
    if k == "InitList":
        return "{%s}" % ", ".join(src(c, casts) for c in n["c"])
    if k == "StmtExpr":
        return "({...})"
    return "<%s>" % k


def src_p(n, casts=False):
    s = src(n, casts)
    if n is not None and n["k"] in ("Binary", "Cond") or (n is not None and n["k"] == "Unary" and not n["op"].startswith("post")):
        return "(" + s + ")"
    return s


def lv(n):
    """canonical key of an lvalue expression (casts dropped, *&x == x); None if not an lvalue shape"""
    n = strip(n)
    if n is None:
        return None
    k = n["k"]
    if k == "Ref":
        return n["n"]
    if k == "Member":
        b = lv(n["c"][0])
        if b is None:
            return None
        return "%s%s%s" % (b, "->" if n.get("arrow") else ".", n["f"])
    if k == "Unary" and n["op"] == "*":
        inner = strip(n["c"][0])
        if inner["k"] == "Unary" and inner["op"] == "&":
            return lv(inner["c"][0])
        b = lv(inner)
        return None if b is None else "(*%s)" % b
    if k == "Sub":
        b = lv(n["c"][0])
        i = cval(n["c"][1])
        if b is None:
            return None
        return "%s[%s]" % (b, i if i is not None else src(n["c"][1]))
    return None


def is_call(n, names):
    return n is not None and n["k"] == "Call" and n.get("fn") in names


def args(n):
    return n["c"][1:]


def assigned(n):
    """if node n writes an lvalue: -> (target node, op, rhs node or None). op in '=', '+=', '-=', '++', '--', ..."""
    if n["k"] == "Binary" and (n["op"] == "=" or (n["op"].endswith("=") and n["op"] not in ("==", "!=", "<=", ">="))):
        return n["c"][0], n["op"], n["c"][1]
    if n["k"] == "Unary" and n["op"] in ("++", "--", "post++", "post--"):
        return n["c"][0], n["op"][-2:], None
    return None


def refs(n, f=None):
    """all Ref names below n"""
    out = set()
    stack = [n]
    while stack:
        x = stack.pop()
        if x is None:
            continue
        if x["k"] == "Ref":
            out.add(x["n"])
        stack.extend(x.get("c", ()))
    return out


def subnodes(n):
    stack = [n]
    while stack:
        x = stack.pop()
        if x is None:
            continue
        yield x
        cs = x.get("c")
        if cs:
            stack.extend(reversed(cs))


# --------------------------------------------------------------------------
# branch conditions
# --------------------------------------------------------------------------
def edge_facts(cond, truth):
    """Decompose a branch condition taken with the given truth value into atomic
    (node, truth) facts: !x flips, && on true / || on false split.  (The CFG already
    splits && and ||, so this mostly handles '!')."""
    out = []
    stack = [(cond, truth)]
    while stack:
        n, t = stack.pop()
        n = strip(n)
        if n is None:
            continue
        if n["k"] == "Unary" and n["op"] == "!":
            stack.append((n["c"][0], not t))
        elif n["k"] == "Binary" and n["op"] == "&&" and t:
            stack.append((n["c"][0], True)); stack.append((n["c"][1], True))
        elif n["k"] == "Binary" and n["op"] == "||" and not t:
            stack.append((n["c"][0], False)); stack.append((n["c"][1], False))
        else:
            out.append((n, t))
    return out


_NEG = {"<": ">=", ">=": "<", ">": "<=", "<=": ">", "==": "!=", "!=": "=="}
_SWAP = {"<": ">", ">": "<", "<=": ">=", ">=": "<=", "==": "==", "!=": "!="}


NEG, SWAP = _NEG, _SWAP


def rel(n, truth):
    """normalise an atomic fact into (lhs node, op, rhs node) with op a relational operator that
    holds on this edge; truthiness tests become (x != 0) / (x == 0). None if not relational."""
    n = strip(n)
    if n["k"] == "Binary" and n["op"] in _NEG:
        op = n["op"] if truth else _NEG[n["op"]]
        return n["c"][0], op, n["c"][1]
    return n, ("!=" if truth else "=="), {"k": "Int", "v": 0, "id": -1}


# --------------------------------------------------------------------------
# forward dataflow
# --------------------------------------------------------------------------
class Flow(object):
    """Forward dataflow over a Func's CFG.

    subclass and define:
      init()                      -> state at function entry
      join(a, b)                  -> state
      elem(state, node)           -> state      (called for each CFG element in evaluation order)
      edge(state, block, cond_node, truth) -> state or None (None: edge infeasible);
                                   truth is True/False for two-way branches,
                                   ('case', value|None) for switch edges
    States must be comparable with ==.  Results: self.inb[block id] = state at block entry.
    """
    MAX_ITERS = 20000

    def __init__(self, func):
        self.f = func
        self.inb = {}
        self.recording = False   # True only in the final pass over the converged states

    def join(self, a, b):
        raise NotImplementedError

    def edge(self, state, block, cond, truth):
        return state

    def run(self):
        f = self.f
        if f.entry is None:
            raise AnalysisBroken("no CFG for %s" % f.name)
        order = f.rpo()
        pos = {b: i for i, b in enumerate(order)}
        self.inb = {f.entry: self.init()}
        work = set([f.entry])
        iters = 0
        while work:
            iters += 1
            if iters > self.MAX_ITERS:
                raise AnalysisBroken("dataflow did not converge in %s" % f.name)
            b = min(work, key=lambda x: pos.get(x, 1 << 30))
            work.discard(b)
            st = self.inb[b]
            blk = f.blocks[b]
            for e in blk["e"]:
                st = self.elem(st, f.nodes[e])
            self.out_state(blk, st)
            succs = blk["s"]
            tk = blk.get("tk")
            cond = branch_cond(f, blk)
            for i, s in enumerate(succs):
                if s is None:
                    continue
                if tk == "SwitchStmt":
                    lab = f.nodes.get(f.blocks[s].get("lab")) if f.blocks[s].get("lab") is not None else None
                    if lab is not None and lab["k"] == "Case":
                        truth = ("case", cval(lab["c"][0]))
                    else:
                        truth = ("case", None)
                    ns = self.edge(st, blk, cond, truth)
                elif cond is not None and len(succs) == 2 and tk in ("IfStmt", "WhileStmt", "ForStmt", "DoStmt", "ConditionalOperator", "BinaryOperator", "BinaryConditionalOperator"):
                    ns = self.edge(st, blk, cond, i == 0)
                else:
                    ns = st
                if ns is None:
                    continue
                if s in self.inb:
                    j = self.join(self.inb[s], ns)
                    if j != self.inb[s]:
                        self.inb[s] = j
                        work.add(s)
                else:
                    self.inb[s] = ns
                    work.add(s)
        # final pass: converged in-states, obligations are recorded only here
        self.recording = True
        for b in order:
            if b not in self.inb:
                continue
            st = self.inb[b]
            blk = f.blocks[b]
            for e in blk["e"]:
                st = self.elem(st, f.nodes[e])
            self.out_state(blk, st)
        return self

    def out_state(self, blk, st):
        pass


def branch_cond(f, blk):
    """the expression that decides the two-way branch at the end of block blk.  For `if (a && (b || c))` clang
    splits the condition over several blocks; the last one is terminated by the IfStmt itself and reports the
    WHOLE condition, although only its last evaluated operand is decided there: return that operand."""
    tc = blk.get("tc")
    if tc is None:
        return None
    cond = f.nodes.get(tc)
    if cond is None:
        return None
    c = strip(cond)
    if c["k"] == "Binary" and c["op"] in ("&&", "||") and blk.get("t") != c["id"] and blk["e"]:
        last = f.nodes.get(blk["e"][-1])
        if last is not None and last["id"] != c["id"]:
            # must be inside the condition's subtree
            p = last["id"]
            inside = False
            while p is not None:
                if p == c["id"]:
                    inside = True
                    break
                p = f.parent.get(p)
            if inside:
                return last
    return cond


def returns(func):
    for n in func.walk():
        if n["k"] == "Return":
            yield n
