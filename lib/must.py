"""Must-fact forward dataflow (intersection at joins) over a Func's CFG.

Facts:
  ('T', text) / ('F', text)   the side-effect-free condition `text` evaluated true / false on every path here
  ('call', name, argtexts)    a call of `name` with these argument texts has completed on every path here
  ('asg', lhs, rhs)           lhs was last assigned the expression rhs on every path
Facts mentioning a variable are killed when that variable (or a prefix lvalue of it) is assigned,
or when its address is passed to a call.
"""
from prog import *


def cond_text(n):
    return src(strip(n))


class Must(Flow):
    def __init__(self, func, track_calls=None, on_elem=None, canon=None):
        Flow.__init__(self, func)
        self.canon = canon or []           # [(matcher(fact) -> bool, canonical fact)]: alternative ways to establish one fact
        self.track_calls = track_calls     # None = all direct calls
        self.on_elem = on_elem             # callback(node, facts) invoked in the final pass
        self.before = {}                   # node id -> facts holding just before that element (final pass)

    def init(self):
        return frozenset()

    def join(self, a, b):
        return a & b

    def _canon(self, st):
        if not self.canon:
            return st
        add = set()
        for fct in st:
            for m, c in self.canon:
                if c not in st and m(fct):
                    add.add(c)
        return st | add if add else st

    @staticmethod
    def _names(n):
        return frozenset(refs(n))

    def kill(self, st, key):
        """drop facts that mention the assigned lvalue `key` (textually: as a whole identifier/prefix)"""
        if key is None:
            return st
        base = key.split("->")[0].split(".")[0].split("[")[0].strip("(*)")
        out = []
        for fct in st:
            if fct[0] in ("call", "V", "E", "D", "L", "NZ"):
                out.append(fct)      # "this happened" facts are not about the current value of a variable
                continue
            names = fct[-1]
            if base in names:
                text = " ".join(str(x) for x in fct[1:-1])
                # precise-ish: kill if the key text occurs in the fact text, or the key is a plain variable
                if key == base or key in text:
                    continue
            out.append(fct)
        return frozenset(out)

    def elem(self, st, n):
        return self._canon(self._elem(st, n))

    def _elem(self, st, n):
        if self.recording:
            self.before[n["id"]] = st
            if self.on_elem:
                self.on_elem(n, st)
        k = n["k"]
        if k == "Call":
            fn = n.get("fn")
            # address-of arguments may be written by the callee
            for a in args(n):
                a2 = strip(a)
                if a2 is not None and a2["k"] == "Unary" and a2["op"] == "&":
                    st = self.kill(st, lv(a2["c"][0]))
            if fn is not None and (self.track_calls is None or fn in self.track_calls):
                at = tuple(src(strip(a)) for a in args(n))
                st = st | {("call", fn, at, self._names(n))}
            return st
        if k == "DeclStmt":
            for v in n["c"]:
                st = self.kill(st, v["n"])
                init = v["c"][0] if v.get("c") else None
                if init is not None:
                    st = st | {("asg", v["n"], src(strip(init)), self._names(init) | {v["n"]})}
            return st
        a = assigned(n)
        if a is not None:
            tgt, op, rhs = a
            key = lv(tgt)
            st = self.kill(st, key)
            if op == "=" and key is not None and rhs is not None:
                st = st | {("asg", key, src(strip(rhs)), self._names(rhs) | self._names(tgt))}
            return st
        return st

    def edge(self, st, blk, cond, truth):
        r = self._edge(st, blk, cond, truth)
        return self._canon(r) if r is not None else r

    def _edge(self, st, blk, cond, truth):
        if not isinstance(truth, bool):
            return st
        add = set()
        for atom, t in edge_facts(cond, truth):
            a = strip(atom)
            # assignments inside conditions: `(x = f()) != NULL` -- use the assigned lvalue as the tested thing
            add.add(("T" if t else "F", cond_text(a), self._names(a)))
            l, op, r = rel(a, t)
            if cval(r) == 0 and op in ("!=", "=="):
                add.add(("T" if op == "!=" else "F", cond_text(l), self._names(l)))
            if cval(l) == 0 and op in ("!=", "=="):
                add.add(("T" if op == "!=" else "F", cond_text(r), self._names(r)))
            if op in ("<", ">", "<=", ">=") or (op in ("==", "!=") and cval(r) not in (0, None)):
                add.add(("R", "%s %s %s" % (cond_text(l), op, cond_text(r)), self._names(a)))
        return st | frozenset(add)


def facts_text(st):
    return sorted(" ".join(str(x) for x in f[:-1]) for f in st)


def has(st, kind, text):
    for f in st:
        if f[0] == kind and f[1] == text:
            return True
    return False


def has_call(st, name, arg_pred=None):
    for f in st:
        if f[0] == "call" and f[1] == name and (arg_pred is None or arg_pred(f[2])):
            return True
    return False


def nonnull(st, text):
    """text known non-NULL / non-zero here"""
    return has(st, "T", text)
