"""CFG path queries with stable-condition correlation.

A *stable condition* is a side-effect-free branch condition (no calls, no assignments) none of whose
lvalues is assigned in the function: two branches on the same stable condition are correlated, so a
path that takes them with opposite outcomes is infeasible and is pruned."""
from prog import *


def assigned_keys(f):
    out = set()
    for n in f.walk():
        a = assigned(n)
        if a:
            k = lv(a[0])
            if k:
                out.add(k)
        if n["k"] == "Var":
            pass
        if n["k"] == "Call":
            for x in args(n):
                x2 = strip(x)
                if x2 is not None and x2["k"] == "Unary" and x2["op"] == "&":
                    k = lv(x2["c"][0])
                    if k:
                        out.add(k)
    return out


def assign_counts(f):
    cnt = getattr(f, "_acnt", None) if hasattr(f, "_acnt") else None
    out = {}
    for n in f.walk():
        a = assigned(n)
        if a:
            k = lv(a[0])
            if k:
                out[k] = out.get(k, 0) + 1
        if n["k"] == "Var" and n.get("c") and n["c"][0] is not None:
            out[n["n"]] = out.get(n["n"], 0) + 1
        if n["k"] == "Call":
            for x in args(n):
                x2 = strip(x)
                if x2 is not None and x2["k"] == "Unary" and x2["op"] == "&":
                    k = lv(x2["c"][0])
                    if k:
                        out[k] = out.get(k, 0) + 2
    return out


def norm_text(c):
    """canonical text of a condition: relational tests against constants are rendered with the numeric value"""
    c = strip(c)
    if c["k"] == "Binary" and c["op"] in ("==", "!=", "<", ">", "<=", ">="):
        l, r = strip(c["c"][0]), strip(c["c"][1])
        if cval(r) is not None and cval(l) is None:
            return "%s %s #%d" % (src(l), c["op"], cval(r))
        if cval(l) is not None and cval(r) is None:
            return "%s %s #%d" % (src(r), SWAP[c["op"]], cval(l))
    return src(c)


def stable_text(f, cond, akeys, once_ok=None):
    """canonical text of cond if it is stable, else None.  once_ok: keys assigned exactly once in the function
    (a scalar local set once and tested afterwards is as good as stable)"""
    c = strip(cond)
    if c is None:
        return None
    for n in subnodes(c):
        if n["k"] in ("Call", "StmtExpr"):
            return None
        if assigned(n) is not None:
            return None
        if n["k"] in ("Ref", "Member", "Sub") or (n["k"] == "Unary" and n["op"] == "*"):
            k = lv(n)
            if k is not None:
                for a in akeys:
                    if k == a or k.startswith(a + "->") or k.startswith(a + ".") or k.startswith(a + "["):
                        if once_ok is not None and a in once_ok and k == a:
                            continue
                        return None
    return norm_text(c)


def assigned_after(f, node):
    """lvalue keys that may be assigned after the CFG element holding `node` (rest of its block + every block reachable
    from it).  Conditions over other lvalues are stable for queries that start at `node`."""
    x = node["id"]
    while x is not None and x not in f.elem_block:
        x = f.parent.get(x)
    if x is None:
        return assigned_keys(f)
    b0, i0 = f.elem_block[x]
    out = set()
    def scan(n):
        for y in subnodes(n):
            a = assigned(y)
            if a:
                k = lv(a[0])
                if k:
                    out.add(k)
            if y["k"] == "Call":
                for z in args(y):
                    z2 = strip(z)
                    if z2 is not None and z2["k"] == "Unary" and z2["op"] == "&":
                        k = lv(z2["c"][0])
                        if k:
                            out.add(k)
            if y["k"] == "Var" and y.get("c") and y["c"][0] is not None:
                out.add(y["n"])
    for e in f.blocks[b0]["e"][i0 + 1:]:
        scan(f.nodes[e])
    seen, stack = set(), [s for s in f.blocks[b0]["s"] if s is not None]
    while stack:
        b = stack.pop()
        if b in seen:
            continue
        seen.add(b)
        for e in f.blocks[b]["e"]:
            n = f.nodes[e]
            # CFG elements are sub-expressions too: only look at the element's own node kind to avoid quadratic rescans
            a = assigned(n)
            if a:
                k = lv(a[0])
                if k:
                    out.add(k)
            if n["k"] == "Call":
                for z in args(n):
                    z2 = strip(z)
                    if z2 is not None and z2["k"] == "Unary" and z2["op"] == "&":
                        k = lv(z2["c"][0])
                        if k:
                            out.add(k)
            if n["k"] == "DeclStmt":
                for v in n["c"]:
                    if v.get("c") and v["c"][0] is not None:
                        out.add(v["n"])
        stack.extend(s for s in f.blocks[b]["s"] if s is not None)
    return out


def reach(f, start, target_pred, avoid=(), assume=(), from_elem=None, akeys=None, forced=()):
    """Is a block satisfying target_pred reachable from block `start` without passing through a block in
    `avoid`, on a path consistent with the stable conditions?  assume: iterable of (text, truth).
    akeys: the lvalue keys considered unstable (default: everything assigned anywhere in the function).
    forced: condition texts that are stable whatever the function assigns (whole-program constants).
    Returns the witness path (list of block ids) or None."""
    if akeys is None:
        akeys = assigned_keys(f)
    init = frozenset(assume)
    seen = set()
    stack = [(start, init, (start,))]
    avoid = set(avoid)
    while stack:
        b, facts, path = stack.pop()
        if (b, facts, len(path) > 1) in seen:
            continue
        seen.add((b, facts, len(path) > 1))
        if b != start and b in avoid:
            continue
        if (b != start or len(path) > 1) and target_pred(b):
            return list(path)
        blk = f.blocks[b]
        succs = blk["s"]
        cond = branch_cond(f, blk)
        two = cond is not None and len(succs) == 2 and blk.get("tk") != "SwitchStmt"
        for i, s in enumerate(succs):
            if s is None:
                continue
            nf = facts
            if two:
                ok = True
                add = []
                for atom, t in edge_facts(cond, i == 0):
                    txt = stable_text(f, atom, akeys)
                    if txt is None and forced:
                        nt = norm_text(atom)
                        if nt in forced:
                            txt = nt        # whole-program constant: stable whatever happens in this function
                    if txt is None:
                        continue
                    if (txt, not t) in facts:
                        ok = False
                        break
                    add.append((txt, t))
                if not ok:
                    continue
                if add:
                    nf = facts | frozenset(add)
            stack.append((s, nf, path + (s,) if len(path) < 60 else path))
    return None


def stable_assumptions(f, must_facts):
    """turn Must T/F facts into (text, truth) assumptions usable by reach()"""
    akeys = assigned_keys(f)
    out = []
    for fct in must_facts:
        if fct[0] in ("T", "F"):
            txt = fct[1]
            # only keep facts whose variables are not assigned in the function
            names = fct[-1]
            if not any(a.split("->")[0].split(".")[0].strip("(*)") in names and (a in txt) for a in akeys):
                out.append((txt, fct[0] == "T"))
    return out
