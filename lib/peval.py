"""Seeded constant propagation over a function's CFG ("partial evaluation"):
some parameters / lvalues are bound to constants, everything else is unknown, and the
set of CFG paths feasible under that binding is explored exhaustively (states are
(block, environment) pairs, so loops terminate).  No code is executed: expressions are
folded over the constant lattice with C integer width/sign rules taken from the AST types.

Used to decide, for EVERY value of a finite domain (all words over a flag family, every
enumerator, ...), whether a function can get past its validation prefix:
   verdict REJECT  : every feasible path ends in a failure return before any side effect
   verdict ACCEPT  : some feasible path reaches a side effect or a non-failure return
"""
from prog import *

EINVAL, EPERM, ENOSYS, ENOENT, EBUSY, EXDEV, ENOMEM = 22, 1, 38, 2, 16, 18, 12

# calls that neither write non-local memory nor have an OS effect (read-only queries, libc string/number helpers)
PURE = set("""
hwloc_weight_long hwloc_ffsl hwloc_flsl hwloc_ffs32 hwloc_fls32 __errno_location strcmp strncmp strlen strchr strrchr strstr
strcasecmp strncasecmp strspn strcspn memcmp atoi atol strtoul strtoull strtol getenv
hwloc_bitmap_iszero hwloc_bitmap_isfull hwloc_bitmap_isset hwloc_bitmap_isincluded hwloc_bitmap_intersects hwloc_bitmap_isequal
hwloc_bitmap_weight hwloc_bitmap_first hwloc_bitmap_last hwloc_bitmap_next hwloc_bitmap_compare hwloc_bitmap_compare_first
hwloc_bitmap_compare_inclusion hwloc_bitmap_first_unset hwloc_bitmap_next_unset hwloc_bitmap_last_unset hwloc_bitmap_nr_ulongs
hwloc_get_root_obj hwloc_get_obj_by_depth hwloc_get_type_depth hwloc_get_nbobjs_by_depth hwloc_get_nbobjs_by_type
hwloc_get_obj_by_type hwloc_get_next_obj_by_depth hwloc_get_next_obj_by_type hwloc_topology_get_depth
hwloc_topology_get_complete_cpuset hwloc_topology_get_topology_cpuset hwloc_topology_get_allowed_cpuset
hwloc_topology_get_complete_nodeset hwloc_topology_get_topology_nodeset hwloc_topology_get_allowed_nodeset
hwloc_topology_get_flags hwloc_topology_is_thissystem hwloc_obj_type_is_normal hwloc_obj_type_is_memory hwloc_obj_type_is_io
hwloc_obj_type_is_cache hwloc_obj_type_is_dcache hwloc_obj_type_is_icache hwloc__obj_type_is_normal hwloc__obj_type_is_memory
hwloc__obj_type_is_io hwloc__obj_type_is_special hwloc__obj_type_is_cache hwloc__obj_type_is_dcache hwloc__obj_type_is_icache
hwloc_compare_types hwloc_obj_type_string hwloc_get_depth_type __builtin_expect __assert_fail abs
""".split())


def wrap(v, t):
    """wrap python int v to C type t (dict with w/u)"""
    if v is None or t is None or "w" not in t:
        return v
    w = t["w"]
    v &= (1 << w) - 1
    if not t.get("u") and v >= (1 << (w - 1)):
        v -= (1 << w)
    return v


class Evaluator(object):
    def __init__(self, func, env, call_hook=None):
        self.f = func
        self.env = env
        self.call_hook = call_hook

    def ev(self, n):
        if n is None:
            return None
        k = n["k"]
        f = self.f
        if k in ("Int", "Char"):
            return n.get("v")
        if "cv" in n:
            return n["cv"]
        key = lv(n) if k in ("Ref", "Member", "Unary", "Sub") else None
        if key is not None and key in self.env:
            return self.env[key]
        if k == "Ref":
            if n.get("dk") == "enum":
                return n.get("v")
            return None
        if k == "Sub":
            # element of a const global table with a constant index
            b = strip(n["c"][0])
            if b is not None and b["k"] == "Ref" and b.get("dk") == "global":
                g = f.unit.globals.get(b["n"])
                if g is not None and g.get("const") and isinstance(g.get("init"), dict) and g["init"].get("k") == "InitList":
                    i = self.ev(n["c"][1])
                    items = g["init"].get("c", [])
                    if i is not None and 0 <= i < len(items) and items[i] is not None:
                        return cval(items[i])
            return None
        t = f.type_of(n)
        if k == "Cast":
            v = self.ev(n["c"][0])
            if t and t.get("ptr"):
                return v
            return wrap(v, t)
        if k == "Unary":
            op = n["op"]
            v = self.ev(n["c"][0])
            if v is None:
                return None
            if op == "!":
                return 0 if v else 1
            if op == "~":
                # operand is promoted: its own type unless narrower than int
                return wrap(~v, t)
            if op == "-":
                return wrap(-v, t)
            if op == "+":
                return v
            return None
        if k == "Binary":
            op = n["op"]
            if op in ("&&", "||"):
                a = self.ev(n["c"][0]); b = self.ev(n["c"][1])
                if op == "&&":
                    if a == 0 or b == 0:
                        return 0 if (a == 0 or (a is not None and b == 0)) else None
                    if a is not None and b is not None:
                        return 1
                    return None
                if a is not None and a != 0:
                    return 1
                if a is not None and b is not None:
                    return 1 if b else 0
                return None
            if op == ",":
                return self.ev(n["c"][1])
            if op == "=" or op.endswith("=") and op not in ("==", "!=", "<=", ">="):
                return None
            a = self.ev(n["c"][0]); b = self.ev(n["c"][1])
            if op == "&" and (a == 0 or b == 0):
                return 0
            if op == "*" and (a == 0 or b == 0):
                return 0
            if a is None or b is None:
                return None
            # usual arithmetic conversions: operate in the (wider/unsigned) common type when comparing
            ta, tb = f.type_of(n["c"][0]), f.type_of(n["c"][1])
            if op in ("<", ">", "<=", ">=", "==", "!="):
                ct = common_type(ta, tb)
                a2, b2 = wrap(a, ct), wrap(b, ct)
                return int({"<": a2 < b2, ">": a2 > b2, "<=": a2 <= b2, ">=": a2 >= b2, "==": a2 == b2, "!=": a2 != b2}[op])
            try:
                if op in ("<<", ">>"):
                    if b < 0 or b > 64:
                        return None
                    r = (wrap(a, t) << b) if op == "<<" else (wrap(a, t) >> b)
                    return wrap(r, t)
                a2, b2 = wrap(a, t), wrap(b, t)
                if op == "+": r = a2 + b2
                elif op == "-": r = a2 - b2
                elif op == "*": r = a2 * b2
                elif op == "/": r = int(a2 / b2) if b2 else None
                elif op == "%": r = (abs(a2) % abs(b2)) * (1 if a2 >= 0 else -1) if b2 else None
                elif op == "&": r = a2 & b2
                elif op == "|": r = a2 | b2
                elif op == "^": r = a2 ^ b2
                else:
                    return None
            except Exception:
                return None
            return wrap(r, t)
        if k == "Cond":
            c = self.ev(n["c"][0])
            if c is None:
                a, b = self.ev(n["c"][1]), self.ev(n["c"][2])
                return a if a is not None and a == b else None
            return self.ev(n["c"][1] if c else n["c"][2])
        if k == "Call":
            fn = n.get("fn")
            a = [self.ev(x) for x in n["c"][1:]]
            if fn == "hwloc_weight_long" and a and a[0] is not None:
                return bin(a[0] & ((1 << 64) - 1)).count("1")
            if fn == "__builtin_expect" and a:
                return a[0]
            if self.call_hook:
                return self.call_hook(n, a)
            return None
        return None


def common_type(ta, tb):
    if not ta or "w" not in ta:
        return tb
    if not tb or "w" not in tb:
        return ta
    wa, wb = max(ta["w"], 32), max(tb["w"], 32)
    if wa == wb:
        return {"w": wa, "u": bool((ta.get("u") and ta["w"] >= 32) or (tb.get("u") and tb["w"] >= 32))}
    big = ta if wa > wb else tb
    return {"w": max(wa, wb), "u": bool(big.get("u"))}


def is_errno_lv(n):
    n = strip(n)
    return n is not None and n["k"] == "Unary" and n["op"] == "*" and strip(n["c"][0])["k"] == "Call" and strip(n["c"][0]).get("fn") == "__errno_location"


def local_store(f, tgt):
    """is the assignment target a local object (not reached through a pointer)?"""
    t = strip(tgt)
    while True:
        if t["k"] == "Ref":
            return t.get("dk") in ("local", "param")
        if t["k"] == "Member" and not t.get("arrow"):
            t = strip(t["c"][0]); continue
        if t["k"] == "Sub":
            b = strip(t["c"][0])
            bt = f.type_of(b)
            if bt and "arr" in bt:
                t = b; continue
            return False
        return False


class Outcome(object):
    def __init__(self):
        self.terminals = []     # (kind, value, errno, loc) kind in 'return','effect','end'
        self.states = 0

    @property
    def accept(self):
        return any(t[0] == "effect" or (t[0] in ("return", "end") and not t[4]) for t in self.terminals)

    def fail_errnos(self):
        return set(t[2] for t in self.terminals if t[0] == "return" and t[4])

    def first_accept(self):
        for t in self.terminals:
            if t[0] == "effect" or not t[4]:
                return t
        return None


class PathEval(object):
    """explore func under env (dict lvalue-key -> int).

    States are (block, element index, env, errno).  A call of a function of the program forks the state
    into 'callee failed' (call value and errno taken from the callee's own failure returns) and
    'callee did not fail', so that `if (g(...) < 0) return -1;` is followed with the right errno."""
    MAXSTATES = 20000

    def __init__(self, program, func, env, is_effect=None, pure=PURE, depth=0, fail_value=None, memo=None, maxstates=None, through_effects=False, dirty_paths=False,
                 call_values=None, markers=None, observe=None, split=None, starts=None, track=None, exact_counters=False, observe_callees=False, callee_effect=None, observe_exit=None, fork_hook=None):
        self.fork_hook = fork_hook         # callback(call node, "fail"|"ok"|"none", env-updates of that outcome, env before): per-outcome facts of a callee
        self.observe_exit = observe_exit   # callback(kind, node or None, env) at every function exit reached ("return" / "end")
        self.callee_effect = callee_effect   # effect predicate used INSIDE evaluated callees (their parameters are not ours); default: is_effect
        self.observe_callees = observe_callees   # also report elements reached inside evaluated callees (helpers)
        self.exact_counters = exact_counters   # compute ++/--/+= on known values instead of widening them (bounded explorations only)
        self.track = track                 # optional set of lvalue keys whose constants are kept (others are treated as unknown: fewer states, more paths)
        self.starts = starts               # optional list of additional entry environments explored in the SAME run (shared state set)
        self.observe = observe             # callback(node, env) for every CFG element reached (in evaluation order)
        self.split = split or {}           # lvalue key -> finite domain: when the key becomes unknown it is forked over the domain
        self.call_values = call_values or {}   # callee name -> forced return value (the call is then treated as pure)
        self.markers = set(markers or ())      # callee names whose execution is remembered per path (terminals carry the set)
        self.through = through_effects or dirty_paths   # note effects but keep exploring
        self.dirty_paths = dirty_paths     # remember per path whether an effect happened: terminals carry (.., dirty, first effect loc)
        self.P = program
        self.f = func
        self.env0 = dict(env)
        self.pure = pure
        self.depth = depth
        self.custom_effect = is_effect
        self.memo = memo if memo is not None else {}
        rt = func.unit.types[func.d["ret"]]
        self.ret_ptr = bool(rt.get("ptr"))
        self.ret_void = rt["s"] == "void"
        self.fail_value = fail_value
        if maxstates:
            self.MAXSTATES = maxstates
        self.seeded = set(env)

    def is_fail(self, v):
        if self.fail_value is not None:
            return self.fail_value(v)
        if v is None:
            return False
        if self.ret_ptr:
            return v == 0
        return v < 0

    def callee_outcome(self, call, argvals):
        """evaluate a callee of the program under the known argument values.
        -> None (not evaluable) or dict(fail=[(value, errno)], ok_values=set, effect=bool)"""
        fn = call.get("fn")
        if fn is None or self.depth >= 3:
            return None
        g = self.P.func(fn)
        if g is None or g.entry is None:
            return None
        genv = {}
        for i, p in enumerate(g.params):
            if i < len(argvals) and argvals[i] is not None:
                genv[p["n"]] = argvals[i]
        # known fields of an object handed over by address (&x, or a pointer variable p with known p->f) travel with it
        cenv = getattr(self, "_cur_env", None)
        if cenv:
            for i, p in enumerate(g.params):
                if i >= len(call["c"]) - 1:
                    break
                a = strip(call["c"][1 + i])
                base = None
                if a is not None and a["k"] == "Unary" and a["op"] == "&":
                    base = lv(a["c"][0])
                    seps = (".",)
                elif a is not None and lv(a) is not None and cval(a) is None:
                    base = lv(a)
                    seps = ("->",)
                if base:
                    for k2, v2 in cenv.items():
                        if k2 not in self.seeded:
                            continue      # only explicitly seeded fields travel (keeps the callee memo effective)
                        for sp in seps:
                            if k2.startswith(base + sp) and v2 is not None:
                                genv["%s->%s" % (p["n"], k2[len(base) + len(sp):])] = v2
        key = (fn, tuple(sorted(genv.items())))
        if key in self.memo:
            return self.memo[key]
        self.memo[key] = None      # recursion guard
        try:
            sub = PathEval(self.P, g, genv, (self.callee_effect or self.custom_effect), self.pure, self.depth + 1, None, self.memo,
                           maxstates=3000, through_effects=True, dirty_paths=self.dirty_paths, callee_effect=self.callee_effect,
                           observe=self.observe if self.observe_callees else None, call_values=self.call_values)
            out = sub.run()
        except AnalysisBroken:
            return None
        fail_dirty = True
        if self.dirty_paths:
            # per-path effects: does a FAILING return of the callee come after one of its writes?
            fail_dirty = any(t[0] == "return" and t[4] and t[5] is not None for t in out.terminals)
            anyd = any(t[5] is not None for t in out.terminals)
            out.terminals = [t[:5] for t in out.terminals] + ([("effect", None, None, None, False)] if anyd else [])
        res = {"fail": sorted(set((v, e if not isinstance(e, frozenset) else tuple(sorted(e, key=str))) for (k, v, e, loc, fail) in out.terminals if k == "return" and fail), key=str),
               "ok": set(v for (k, v, e, loc, fail) in out.terminals if k in ("return", "end") and not fail),
               "effect": any(k == "effect" for (k, v, e, loc, fail) in out.terminals),
               "has_ok": any(k in ("return", "end") and not fail for (k, v, e, loc, fail) in out.terminals),
               "ptr": sub.ret_ptr, "fail_dirty": fail_dirty}
        self.memo[key] = res
        return res

    def evaluator(self, env):
        self._cur_env = env
        def hook(c, a):
            k = "@%d" % c["id"]
            if k in env:
                return env[k]
            if c.get("fn") in self.call_values:
                cv = self.call_values[c["fn"]]
                # a callable forces the result per call site / argument values (e.g. a predicate forced per type argument)
                return cv(c, a) if callable(cv) else cv
            o = self.callee_outcome(c, a)
            if o is None or o["effect"]:
                return None
            vals = set(v for v, e in o["fail"]) | o["ok"]
            if len(vals) == 1:
                return list(vals)[0]
            return None
        return Evaluator(self.f, env, hook)

    def run(self):
        f = self.f
        out = Outcome()
        start = (f.entry, 0, tuple(sorted(self.env0.items())), None, None)
        seen = set([start])
        work = [start]
        for e0 in (self.starts or ()):
            st0 = (f.entry, 0, tuple(sorted(e0.items())), None, None)
            if st0 not in seen:
                seen.add(st0)
                work.append(st0)
                self.seeded |= set(e0)

        def push(st):
            if st not in seen:
                seen.add(st)
                work.append(st)

        while work:
            if len(seen) > self.MAXSTATES:
                raise AnalysisBroken("partial evaluation of %s exceeded %d states" % (f.name, self.MAXSTATES))
            b, i0, envt, err, dirty = work.pop()
            self._dirty = dirty
            env = dict(envt)
            blk = f.blocks[b]
            stop = False
            elems = blk["e"]
            i = i0
            while i < len(elems):
                n = f.nodes[elems[i]]
                nterm = len(out.terminals)
                if self.observe is not None:
                    self.observe(n, env)
                r = self.step(n, env, err, out)
                if self.dirty_paths and len(out.terminals) > nterm:
                    # effects recorded by step(): mark this path dirty, drop the global terminal
                    keep = []
                    for t in out.terminals[nterm:]:
                        if t[0] == "effect":
                            if dirty is None:
                                dirty = t[3]
                                self._dirty = dirty
                        else:
                            keep.append(t + (dirty,))
                    out.terminals[nterm:] = keep
                i += 1
                if r == "stop":
                    stop = True
                    break
                if isinstance(r, tuple) and r[0] == "errno":
                    err = r[1]
                elif isinstance(r, tuple) and r[0] == "fork":
                    # r[1]: list of (env-updates, errno or KEEP)
                    for upd, e2, *eff in r[1]:
                        env2 = dict(env)
                        env2.update(upd)
                        # dirty-path mode: a fork may carry its own effect (callee wrote on that outcome only)
                        d2 = dirty if dirty is not None or not (eff and eff[0]) else f.loc(n)
                        push((b, i, tuple(sorted(env2.items())), err if e2 == "KEEP" else e2, d2))
                    stop = True
                    break
            if stop:
                continue
            succs = blk["s"]
            if b == f.exit:
                continue
            if not [s for s in succs if s is not None]:
                continue     # noreturn (abort/assert): not a normal completion
            tk = blk.get("tk")
            cond = branch_cond(f, blk)
            ev = self.evaluator(env)
            nxt = []
            if tk == "SwitchStmt" and cond is not None:
                v = ev.ev(cond)
                cases = []
                default = None
                for s in succs:
                    if s is None:
                        continue
                    lab = f.nodes.get(f.blocks[s].get("lab")) if f.blocks[s].get("lab") is not None else None
                    if lab is not None and lab["k"] == "Case":
                        lo = cval(lab["c"][0]); hi = cval(lab["c"][1]) if lab["c"][1] is not None else lo
                        cases.append((lo, hi, s))
                    else:
                        default = s
                if v is None:
                    nxt = [s for s in succs if s is not None]
                else:
                    hit = [s for lo, hi, s in cases if lo is not None and lo <= v <= hi]
                    nxt = hit[:1] if hit else ([default] if default is not None else [])
            elif cond is not None and len(succs) == 2:
                v = ev.ev(cond)
                if v is None:
                    nxt = [s for s in succs if s is not None]
                else:
                    s = succs[0] if v else succs[1]
                    nxt = [s] if s is not None else []
            else:
                nxt = [s for s in succs if s is not None]
            # drop per-call bindings when leaving the block's expression context? keep: they are keyed by node id
            if self.track is not None:
                # per-call result bindings are only needed inside the statement that made the call
                for kk in [x for x in env if x.startswith("@")]:
                    del env[kk]
            for s in nxt:
                push((s, 0, tuple(sorted(env.items())), err, dirty))
            if f.exit in nxt and not self._ends_with_return(blk):
                if self.observe_exit is not None:
                    self.observe_exit("end", None, env)
                out.terminals.append(("end", None, err, "%s:end" % f.name, False) + ((dirty,) if self.dirty_paths else ()))
        out.states = len(seen)
        return out

    def _ends_with_return(self, blk):
        for e in reversed(blk["e"]):
            if self.f.nodes[e]["k"] == "Return":
                return True
        return False

    def kill(self, env, key):
        for kk in [x for x in env if x == key or x.startswith(key + "->") or x.startswith(key + ".") or x.startswith("(*" + key)]:
            if kk in self.seeded and kk != key:
                continue
            del env[kk]

    def step(self, n, env, err, out):
        f = self.f
        k = n["k"]
        if k == "Return":
            if self.observe_exit is not None:
                self.observe_exit("return", n, env)
            ev = self.evaluator(env)
            e = n["c"][0] if n.get("c") else None
            v = ev.ev(e) if e is not None else None
            t = ("return", v, err, f.loc(n), self.is_fail(v))
            if self.markers:
                t = t + (frozenset(k[1:] for k in env if k.startswith("#")),)
            out.terminals.append(t)
            return "stop"
        if k == "DeclStmt":
            forks = None
            for v in n["c"]:
                init = v["c"][0] if v.get("c") else None
                if init is not None:
                    val = self.evaluator(env).ev(init)
                    if val is not None and (self.track is None or v["n"] in self.track):
                        env[v["n"]] = wrap(val, f.unit.types[v["t"]])
                    else:
                        env.pop(v["n"], None)
                        if val is None and v["n"] in self.split and forks is None:
                            forks = [({v["n"]: x}, "KEEP") for x in self.split[v["n"]]]
            if forks:
                return ("fork", forks)
            return None
        a = assigned(n)
        if a is not None:
            tgt, op, rhs = a
            if is_errno_lv(tgt):
                v = Evaluator(f, env).ev(rhs)
                return ("errno", v if v is not None else "unknown")
            key = lv(tgt)
            if local_store(f, tgt):
                val = None
                if op == "=":
                    val = self.evaluator(env).ev(rhs)
                elif self.exact_counters and key is not None and key in env:
                    if op in ("++", "--"):
                        val = env[key] + (1 if op == "++" else -1)
                    elif op in ("+=", "-=") and rhs is not None:
                        rv = self.evaluator(env).ev(rhs)
                        if rv is not None:
                            val = env[key] + (rv if op == "+=" else -rv)
                # counters (++, +=, ...) are widened to unknown so that loops converge
                if key is not None:
                    self.kill(env, key)
                    if val is not None and (self.track is None or key in self.track):
                        env[key] = wrap(val, f.type_of(tgt))
                    elif val is None and key in self.split:
                        return ("fork", [({key: v}, "KEEP") for v in self.split[key]])
                return None
            # store to non-local memory
            if self.custom_effect is None or self.custom_effect(f, n, env):
                out.terminals.append(("effect", None, err, f.loc(n), False))
                if not self.through:
                    return "stop"
            if key is not None:
                self.kill(env, key)
                val = None
                if op == "=":
                    val = self.evaluator(env).ev(rhs)
                    if val is not None and (self.track is None or key in self.track):
                        env[key] = wrap(val, f.type_of(tgt))
                if val is None and key in self.split:
                    return ("fork", [({key: v}, "KEEP") for v in self.split[key]])
            return None
        if k == "Call":
            fn = n.get("fn")
            # an lvalue whose address is handed to the callee may be overwritten by it
            addr_keys = []
            for x in n["c"][1:]:
                x2 = strip(x)
                if x2 is not None and x2["k"] == "Unary" and x2["op"] == "&":
                    kk = lv(x2["c"][0])
                    if kk is not None:
                        addr_keys.append(kk)
            for kk in addr_keys:
                if kk in env:
                    del env[kk]
            sp = [kk for kk in addr_keys if kk in self.split]
            if sp:
                import itertools
                return ("fork", [(dict(zip(sp, combo)), "KEEP") for combo in itertools.product(*[self.split[kk] for kk in sp])])
            if fn in self.markers:
                env["#" + fn] = 1
            if fn in self.call_values:
                return None
            if fn == "realloc" and (self.custom_effect is None or self.custom_effect(f, n, env)):
                out.terminals.append(("effect", None, err, f.loc(n), False))
                if not self.through:
                    return "stop"
            if fn in ("malloc", "calloc", "strdup", "realloc"):
                # allocation may fail (NULL, errno = ENOMEM) or succeed (non-NULL, modelled as 1)
                ck = "@%d" % n["id"]
                return ("fork", [({ck: 0}, ENOMEM), ({ck: 1}, "KEEP")])
            if fn in self.pure or n.get("noret"):
                return None
            argv = [self.evaluator(env).ev(x) for x in n["c"][1:]]
            o = self.callee_outcome(n, argv) if fn is not None else None
            is_eff = None
            if o is not None and not o["effect"]:
                is_eff = False
            elif self.custom_effect is not None:
                # the callee's effects are judged in THIS frame (its writes may land in our fresh/local memory)
                is_eff = bool(self.custom_effect(f, n, env))
            else:
                is_eff = True
            if o is None:
                if self.fork_hook is not None:
                    self.fork_hook(n, "none", env, env)
                if is_eff:
                    out.terminals.append(("effect", None, err, f.loc(n), False))
                    if not self.through:
                        return "stop"
                return ("errno", "unknown") if (fn is not None and self.P.func(fn) is not None) else None
            forks = []
            ck = "@%d" % n["id"]
            if o["fail"]:
                vals = set(v for v, e in o["fail"])
                errs = set(e for v, e in o["fail"])
                upd = {ck: list(vals)[0]} if len(vals) == 1 and list(vals)[0] is not None else {}
                flat = set()
                for x in errs:
                    if isinstance(x, (tuple, frozenset)):
                        flat |= set(x)
                    else:
                        flat.add(x)
                if None in flat or "None" in flat:
                    # the callee failed without touching errno on that path: the previous value stays
                    flat.discard(None); flat.discard("None")
                    if isinstance(err, (frozenset, tuple)):
                        flat |= set(err)
                    else:
                        flat.add(err)
                e2 = list(flat)[0] if len(flat) == 1 else frozenset(str(x) for x in flat)
                if e2 is None:
                    e2 = "KEEP"
                if self.fork_hook is not None:
                    upd = dict(upd)
                    self.fork_hook(n, "fail", upd, env)
                forks.append((upd, e2, bool(is_eff and o["fail_dirty"])))
            if o["has_ok"]:
                if is_eff and not self.dirty_paths:
                    out.terminals.append(("effect", None, err, f.loc(n), False))
                if not is_eff or self.through:
                    upd = {}
                    if len(o["ok"]) == 1 and list(o["ok"])[0] is not None:
                        upd = {ck: list(o["ok"])[0]}
                    elif o.get("ptr") and 0 not in o["ok"]:
                        # assumption (documented): a pointer-returning function yields NULL only at its literal
                        # NULL returns or by propagating a callee's failure; any other returned pointer is non-NULL
                        upd = {ck: 1}
                    if self.fork_hook is not None:
                        upd = dict(upd)
                        self.fork_hook(n, "ok", upd, env)
                    forks.append((upd, "KEEP", bool(is_eff)))
            if not forks:
                return "stop"
            return ("fork", forks)
        return None
