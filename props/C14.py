"""C14 memory attributes."""
from prog import *
import effects, flags, cap, extent, tab, guards, must

FIELDS = [("hwloc_internal_memattr_s", "targets"), ("hwloc_internal_memattr_target_s", "initiators")]
OUT = {"hwloc_memattr_get_targets": {"targets": "max", "values": "max"},
       "hwloc_memattr_get_initiators": {"initiators": "max", "values": "max"},
       "hwloc_get_local_numanode_objs": {"nodes": "(*nrp)"}}


def run(chk, tier):
    P = Program(("lib",))
    E = effects.Effects(P)
    chk.units |= {"hwloc/memattrs.c"}
    chk.rule("R-FLAGS", "flag words of the memattr entry points (exactly one of HIGHER/LOWER_FIRST for register, ZERO elsewhere, 3 bits for local numanodes)")
    ns, nw = flags.run(chk, P, "C14", effects=E)
    chk.floor("R-FLAGS", "entry points", ns, 9)
    chk.rule("R-CAP", "caller-capacity out-arrays: every store indexed by a counter proved below the capacity")
    no, _ = cap.run(chk, P, "memattrs.c", funcs=list(OUT), out_arrays=OUT)
    chk.floor("R-CAP", "out-array accesses", no, 5)
    # *nrp receives the counter on success
    for fn in OUT:
        f = P.need_func(fn, "memattrs.c")
        st = [x for x in f.walk() if assigned(x) and lv(assigned(x)[0]) == "(*nrp)"]
        chk.inst("R-CAP", f, "nr-reported", len(st) >= 1, "*nrp is assigned the number of matches")
    chk.rule("R-CMP", "best-of comparison cores decided over all orderings by folding")
    nc = tab.best_of(chk, P)
    chk.floor("R-CMP", "folded best-of cases", nc, 30)
    chk.rule("R-CACHEINV", "a duplicated topology's memory attributes have their CACHE_VALID flag cleared and their cached object pointers reset, so that they are looked up again in the copy")
    import dup as _dup
    nci = _dup.cacheinv(chk, P)
    chk.floor("R-CACHEINV", "cache invalidation facts on dup", nci, 2)
    chk.rule("R-COMPACT", "in-place compaction moves elements down: a single-element memcpy(&A[x], &A[y]) between two elements of one array has x <= y on every path (zone abstract interpretation); "
             "the converse order overwrites the surviving entry with the one just dropped")
    import zone as _zone
    nco = _zone.run_compact(chk, P, units=('memattrs.c',))
    chk.floor("R-COMPACT", "element moves inside one array", nco, 1)
    import elemmove
    nem = elemmove.run(chk, P, list(P.units))
    chk.floor("R-COMPACT", "field-wise element moves in compacting functions", nem, 1)
    chk.rule("R-EXTENT", "bulk operations on targets/initiators arrays agree on their extent")
    extent.run(chk, P, list(P.units), fields=set(FIELDS))
    chk.rule("R-GUARD", "Capacity/Locality are read-only (CONVENIENCE test dominates every store of set_value); readers refresh an invalid cache before using target objects")
    import peval, dup
    conv = dup.macro_text(P, "HWLOC_IMATTR_FLAG_CONVENIENCE")
    valid = dup.macro_text(P, "HWLOC_IMATTR_FLAG_CACHE_VALID")
    if not chk.need(conv and valid, "R-GUARD: IMATTR flag macros not found"):
        return "broken"

    def stores(f):
        for x in f.walk():
            if x["k"] == "Call" and x.get("fn") in ("hwloc__memattr_get_target", "hwloc__memattr_target_get_initiator"):
                yield x, "lookup-create"
            a = assigned(x)
            if a and not peval.local_store(f, a[0]) and not peval.is_errno_lv(a[0]):
                yield x, "store"
    guards.dominated(chk, P, "hwloc__internal_memattr_set_value", "memattrs.c", stores,
                     lambda st: any(f[0] == "F" and "iflags & (%s)" % conv in f[1] for f in st), "R-GUARD",
                     "write of an attribute value must be dominated by the attribute not being a convenience (read-only) attribute", min_inst=2)
    V = ("V", "target cache valid or refreshed", frozenset())
    canon = [(lambda fct: (fct[0] == "T" and "iflags & (%s)" % valid in fct[1]) or (fct[0] == "call" and fct[1] == "hwloc__imattr_refresh"), V)]
    for fn in ("hwloc_memattr_get_targets", "hwloc_memattr_get_initiators", "hwloc_memattr_get_value", "hwloc_memattr_get_best_target", "hwloc_memattr_get_best_initiator"):
        def uses(f):
            for x in f.walk():
                if x["k"] == "Member" and x.get("rec") == "hwloc_internal_memattr_s" and x["f"] in ("targets", "nr_targets"):
                    yield x, "targets"
                if x["k"] == "Call" and x.get("fn") in ("hwloc__memattr_get_target",):
                    yield x, "lookup"
        guards.dominated(chk, P, fn, "memattrs.c", uses, lambda st: V in st, "R-GUARD",
                         "stored targets are used only after the cache was found valid or hwloc__imattr_refresh ran", min_inst=1, canon=canon)
    chk.rule("R-PARTIALINIT", "an initialiser that fills a record through an out-parameter fills every field of each sub-record it starts filling, when the program copies such records as a whole "
             "(record types and initialisers discovered; must-written field paths per successful return; fields of anonymous sub-records recovered from the unit's member accesses)")
    import partialinit
    npi, pirecs = partialinit.run(chk, P, ["memattrs.c"])
    chk.floor("R-PARTIALINIT", "successful returns of record initialisers", npi, 2)
    chk.rule("R-COUNTFAIL", "a function of the memory-attribute code that appends to a counted array does not count the new element before it is complete: explored with the count seeded and "
             "allocations / callees forked into failed and succeeded, every failing exit still sees the seeded count (a counted, abandoned slot is later enumerated and released as if complete)")
    import countfail
    ncf = countfail.run(chk, P, ["memattrs.c"])
    chk.floor("R-COUNTFAIL", "count-raising functions with a failing exit", ncf, 2)
    chk.rule("R-INDEXKIND", "contradiction rule: a set that a function indexes by `A[v]->os_index` is a set of OS indexes; no call of the same function on the same set uses the array position `v` itself as the bit index")
    import indexkind
    nik = indexkind.run(chk, P)
    chk.floor("R-INDEXKIND", "sets indexed by the os_index of array elements", nik, 1)
    chk.decided += ['the default nodeset is tested and filled by OS index consistently (no array position used as a bit index)',
                    'a failed hwloc_memattr_set_value()/register() does not leave a counted but incomplete target, initiator or attribute behind',
                    'an initiator location converted from the user structure is complete before it is copied into a new initiator (get_initiators never returns an unset object pointer)',
                    "compaction of targets/initiators after a refresh copies the surviving entry down, never the dropped one over it",
                    "after hwloc_topology_dup() the copy's cached targets/initiators are invalidated (values survive dup and are re-resolved against the copy)",
                    "register: unique name loop and exactly one ordering flag (all words)", "*nr overflow convention: stores bounded by the caller's capacity, count reported",
                    "best-of queries keep the maximal/minimal value with first-wins ties (exhaustive fold over orderings)", "Capacity/Locality read-only",
                    "readers refresh before touching cached target objects"]
    chk.undecided += ["get_value returns the last value stored (array search semantics)", "overlapping cpuset initiators", "default nodeset disjointness"]
    chk.trusted += ["clang 14 front end and -O2 folding"]
    return "Flag-word evaluation, capacity dataflow on the three *nr out-array functions, exhaustive folding of the best-of comparators, must-fact guards."
