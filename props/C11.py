"""C11 type strings parse back; obj/attr snprintf obey the length contract; compare_types tables."""
from prog import Program
import snp, tab, progloops, union

LENGTH_FUNCS = ["hwloc__osdev_type_snprintf_short", "hwloc__osdev_type_snprintf_normal", "hwloc_obj_type_snprintf", "hwloc_obj_attr_snprintf"]


def run(chk, tier):
    P = Program(("lib",), only=["traversal.c", "topology.c"])
    chk.units |= {"hwloc/traversal.c", "hwloc/topology.c"}
    chk.rule("R-SNP", "snprintf cursor typestate on every CFG path (see C04)")
    r = snp.SnpRule(P, ["traversal.c"])
    for n in LENGTH_FUNCS:
        if not chk.need(r.is_snprintf_like(P.need_func(n, "traversal.c")), "R-SNP: %s is no longer recognised as an snprintf-like function" % n):
            pass
    st = r.run(chk)
    chk.floor("R-SNP", "producer call sites in traversal.c", st["producers"], 15)
    chk.floor("R-SNP", "cursor advance sites in traversal.c", st["advances"], 8)
    chk.rule("R-UNION", "the type-specific attribute union obj->attr is accessed only under a matching obj->type: every self-discriminating function is explored once per object type (21 values, product for two objects) by seeded constant propagation; guards are evaluated, not pattern-matched")
    nun, nuf = union.run(chk, P, units=('traversal.c',))
    chk.floor("R-UNION", "union accesses judged", nun, 30)
    chk.rule("R-SNPSIZE", "snprintf into a fixed array uses a size <= sizeof(array)")
    n = snp.fixed_buffers(chk, P, ["traversal.c"])
    chk.floor("R-SNPSIZE", "fixed-buffer snprintf sites in traversal.c", n, 4)
    chk.rule("R-PROG", "every loop iteration changes state the next iteration can observe")
    nl = progloops.run(chk, P, ["traversal.c"])
    chk.floor("R-PROG", "in-scope loops in traversal.c", nl, 5)
    chk.rule("R-TAB", "finite tables decided exhaustively by folding the real functions with clang -O2 (witness TUs include the repo source; never linked or run)")
    n1 = tab.compare_types(chk, P)
    n2 = tab.public_kind_wrappers(chk, P)
    n3 = tab.type_strings(chk, P)
    chk.floor("R-TAB", "folded witnesses", n1 + n2 + n3, 800)
    chk.decided += ['the printers read type-specific attributes only under the matching object type',
                    "printed type text (type_string of all types; every OS-device name short/long/bracketed/paired; cache/group/bridge/PCI literals) is accepted by hwloc_type_sscanf with the same type and attributes (exhaustive fold)",
                    "type/attr snprintf terminate, never write past size, NUL-terminate, return the untruncated length (cursor typestate + loop progress)",
                    "hwloc_compare_types antisymmetric, Machine highest, PU deepest, consistent with kinds; exactly one kind per type (exhaustive fold over 20x20)"]
    chk.undecided += ["that all objects of one level carry equal type attributes (C01)"]
    chk.trusted += ["clang 14 front end and -O2 constant folding", "C models of strncasecmp/strtol/strcmp/strchr used in the string witnesses (lib/fold.py)", "libc snprintf"]
    return "Cursor typestate + loop-progress dataflow on hwloc/traversal.c and exhaustive constant folding of compare_types, kind predicates and type-string round trips."
