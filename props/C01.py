"""C01 every loaded topology is well formed (structural necessary conditions of the load pipeline)."""
from prog import *
import pipe, filt, tab, oblig, setkind, effects, flags, linkfree, union, uaf
import props.C18 as c18
import props.C02 as c02


def run(chk, tier):
    P = Program(("lib",))
    E = effects.Effects(P)
    chk.units |= set("hwloc/" + u for u in c18.DISC_UNITS)
    chk.rule("R-PIPE", "the load pipeline runs its stages in dependency order on every success path; reconnect is complete; load's failure path re-initialises")
    n = pipe.discover(chk, P) + pipe.load_tail(chk, P) + pipe.reconnect_complete(chk, P)
    chk.floor("R-PIPE", "pipeline obligations", n, 25)
    chk.rule("R-FILTER", "no object of a filtered-out type is created (see C18)")
    nf = filt.creation_sites(chk, P, c18.DISC_UNITS, exceptions=c18.FILTER_EXC)
    chk.floor("R-FILTER", "object creation sites", nf, 50)
    chk.rule("R-TAB", "type-filter table and special depth tables decided exhaustively by folding")
    nt = tab.filter_table(chk, P) + tab.depth_tables(chk, P)
    chk.floor("R-TAB", "folded witnesses", nt, 80)
    chk.rule("R-WRITER", "gp_index has a single generator (plus dup and XML import)")
    n1, seen = oblig.writers(chk, P, list(P.units), "hwloc_obj", "gp_index", c02.GP_OWNERS)
    chk.floor("R-WRITER", "stores to hwloc_obj.gp_index", n1, 3)
    chk.rule("R-SETKIND", "cpusets and nodesets never mixed in the core")
    ns = setkind.run(chk, P, ["topology.c", "topology-synthetic.c", "topology-xml.c", "topology-linux.c", "topology-x86.c"])
    chk.floor("R-SETKIND", "kinded bitmap operations", ns, 110)
    chk.rule("R-LISTKIND", "the four child lists never confused")
    setkind.listkind(chk, P, ["topology.c"])
    chk.rule("R-UNION", "the type-specific attribute union obj->attr is accessed only under a matching obj->type: every self-discriminating function is explored once per object type (21 values, product for two objects) by seeded constant propagation; guards are evaluated, not pattern-matched")
    nun, nuf = union.run(chk, P, units=None)
    chk.floor("R-UNION", "union accesses judged", nun, 150)
    chk.rule("R-ARITY", "a function that keeps the arity counters in step with the child lists it splices does so for every splice (sibling agreement inside hwloc_filter_levels_keep_structure: 6 splices)")
    nar = setkind.arity_pairing(chk, P, ["topology.c"])
    chk.floor("R-ARITY", "splices in arity-maintaining functions", nar, 4)
    chk.rule("R-UAF", "no use of a pointer after it was released: may-dataflow on released lvalues (free, hwloc_bitmap_free, hwloc_free_unlinked_object, closedir, ...), killed by re-assignment, with a correlated-condition path search and whole-program constant fields to discard infeasible paths")
    nua = uaf.run(chk, P, units=None)
    chk.floor("R-UAF", "release sites examined", nua, 300)
    chk.rule("R-ARRIDX", "indexes into array fields that carry a count field (infos.array/count, memattrs/nr_memattrs, cpukinds/nr_cpukinds, children/arity, targets/nr_targets, initiators/nr_initiators, "
             "page_types/page_types_len, ...) stay below the count on every path (zone abstract interpretation); functions whose accesses need facts outside the domain are frozen out of scope with the reason")
    import zone
    nai, nao = zone.run_generic(chk, P, frozen=zone.FROZEN_GENERIC)
    chk.floor("R-ARRIDX", "array accesses proved below their count", nai, 60)
    chk.rule("R-LINKFREE", "an object handed to an insertion function (which links, merges-and-frees or frees it) is never released afterwards by its creator: no feasible path from an insertion of x to hwloc_free_unlinked_object(x) (may-dataflow + correlated-condition path search)")
    nlf = linkfree.run(chk, P)
    chk.floor("R-LINKFREE", "release sites", nlf, 14)
    chk.rule("R-FLAGS", "topology flag words of hwloc_topology_set_flags")
    flags.run(chk, P, "C01", effects=E)
    chk.rule("R-GPNEXT", "an object identifier converted from input keeps the allocator ahead of it: explored at the boundary (topology->next_gp_index == K, imported gp_index == K), "
             "every exit after the store leaves next_gp_index > K -- otherwise the next object created gets a duplicate gp_index")
    import gpnext
    ngp = gpnext.run(chk, P, ["topology-xml.c"])
    chk.floor("R-GPNEXT", "imported identifier stores", ngp, 1)
    chk.rule("R-UNIONLEVEL", "a helper that reads a type-specific attribute of every object of level i without looking at their type (discovered) is called only where the caller has tested, on every path, "
             "the type of the first object of that very level (must-facts; the level index of the tested object and the argument are the same expression)")
    import unionlevel
    nul, ulh = unionlevel.run(chk, P)
    chk.floor("R-UNIONLEVEL", "calls of level-wide attribute readers", nul, 1)
    chk.rule("R-PUTBACK", "hwloc___insert_object_by_cpuset(): every field of a child that is rewritten in the block that moves the child below the new object is stored again by the put-back section "
             "(the blocks from which no successful return is reachable): a failed insertion leaves no child pointing at the rejected object, which the caller frees")
    import putback
    npb = putback.run(chk, P)
    chk.floor("R-PUTBACK", "adopted-child fields", npb, 2)
    chk.rule("R-MEMCHILD", "fixup_sets() gives every kind of memory child its parent's cpuset: with the walked child's type bound to NUMANODE and to MEMCACHE in turn, a copy of the parent's cpuset and one of its "
             "complete_cpuset into the child are reached (in fixup_sets or in a helper that receives the child)")
    import memchild
    nmc = memchild.run(chk, P)
    chk.floor("R-MEMCHILD", "memory types explored", nmc, 2)
    chk.decided += ['memory-side caches are given their parent cpuset by fixup_sets() exactly like NUMA nodes',
                    'a failed insertion gives every adopted child back completely (parent and sibling links restored by the put-back path)',
                    'the dont_merge flag of a Group level is read from the level that is about to be merged (not from its neighbour): Groups that asked not to be merged survive the level filtering, and no non-Group attribute is read as a Group attribute',
                    'an identifier imported from XML never leaves the gp_index allocator at or below it (boundary evaluation)',
                    "indexes into counted array fields stay below the count in every function that the bound analysis covers (19 functions frozen out of scope)",
                    'no pointer is used (or released again) after its release in any library function',
                    'type-specific attributes are accessed only under the matching object type in every self-discriminating function of the library',
                    "the load pipeline establishes sets, levels, total memory, symmetric-subtree and group depths in dependency order on every success path",
                    "no object of a filtered-out type is present (creation sites) and the filter table itself is as specified", "special-level depth lookups agree with the type constants",
                    "gp_index values come from one generator", "allowed sets are clipped to the root sets; disallowed sets removed iff INCLUDE_DISALLOWED is unset"]
    chk.undecided += ["disjoint-union / inclusion algebra of cpusets and nodesets on a concrete tree", "sibling/cousin link consistency of a concrete tree",
                      "behaviour of the Linux/x86 backends on a given snapshot", "hwloc_topology_check() never aborts"]
    chk.trusted += ["clang 14 front end and -O2 folding", "frozen R-FILTER exceptions"]
    return "Must-call/ordering dataflow on hwloc_discover/load/reconnect, creation-site filter guards, exhaustive folding of the filter and depth tables."
