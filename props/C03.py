"""C03 bitmap set semantics (narrow: representation discipline)."""
from prog import Program
import bitmaprules, cap, progloops

DEFINING = ["hwloc_bitmap_sscanf", "hwloc_bitmap_list_sscanf", "hwloc_bitmap_taskset_sscanf", "hwloc_bitmap_only", "hwloc_bitmap_allbut",
            "hwloc_bitmap_from_ulong", "hwloc_bitmap_from_ith_ulong", "hwloc_bitmap_from_ulongs"]

DEFINING_ALL = DEFINING + ["hwloc_bitmap_zero", "hwloc_bitmap_fill", "hwloc_bitmap_copy", "hwloc_bitmap_not", "hwloc_bitmap_or", "hwloc_bitmap_and", "hwloc_bitmap_andnot", "hwloc_bitmap_xor"]


def run(chk, tier):
    P = Program(("lib",), only=["bitmap.c"])
    chk.units.add("hwloc/bitmap.c")
    chk.rule("R-ALIAS", "results do not depend on whether the destination aliases an operand: operand flags/counts are read before the destination's can change (may-dataflow on every path)")
    n = bitmaprules.alias_order(chk, P)
    chk.floor("R-ALIAS", "combinators with a destination and operands", n, 6)
    chk.rule("R-HISTORY", "results do not depend on allocation history: ulongs_allocated only in allocator helpers; every public function consults its operands' infinite flag")
    nh = bitmaprules.history_independence(chk, P)
    chk.floor("R-HISTORY", "facts", nh, 30)
    chk.rule("R-DEFINE", "functions that define their destination do so before accumulating into it")
    nd = bitmaprules.define_before_accumulate(chk, P, DEFINING)
    chk.floor("R-DEFINE", "accumulating sites in defining functions", nd, 4)
    chk.rule("R-DEFFLAG", "a function that defines its destination from its other arguments stores the destination's `infinite` flag on every non-failing path, itself or through helpers "
             "that store it on all of their non-failing paths (must-fact dataflow with interprocedural must-write summaries): otherwise the result depends on what the destination held before")
    ndf, _ = bitmaprules.flag_defined(chk, P, DEFINING_ALL)
    chk.floor("R-DEFFLAG", "defining functions", ndf, 12)
    chk.rule("R-GROWFIRST", "the word count (and the recorded capacity) of a set is raised only after the allocation that makes room for it has succeeded: every function that calls a fallible grow helper "
             "(discovered) is explored with the count seeded and the helper forked into failed / succeeded; an exit reached with the allocation failed still sees the seeded count")
    ngf, G = bitmaprules.grow_first(chk, P)
    chk.floor("R-GROWFIRST", "functions with a failing grow path", ngf, 10)
    chk.floor("R-GROWFIRST", "fallible grow helpers discovered", len(G), 2)
    chk.rule("R-CAPFIELD", "the capacity recorded for a heap array (X->*allocated* = F) has the same extent signature as the allocation of that array in the same function (X->A = alloc(E * sizeof ..))")
    import capfield
    ncf = capfield.run(chk, P, units=('bitmap.c',))
    chk.floor("R-CAPFIELD", "recorded capacities paired with an allocation", ncf, 2)
    chk.rule("R-WORDIDX", "every word index into a bitmap's ulongs[] is below its word count on every path (abstract interpretation over difference-bound matrices with trace partitioning; "
             "helpers' post-conditions trusted; five functions frozen out of scope with the reason)")
    import zone
    nz_ok, nz_f, nz_out = zone.run(chk, P)
    chk.floor("R-WORDIDX", "word accesses proved in range", nz_ok, 60)
    chk.rule("R-MINUS1", "documented -1 conventions for infinite sets")
    bitmaprules.early_minus_one(chk, P)
    chk.rule("R-PROG", "loop progress")
    nl = progloops.run(chk, P, ["bitmap.c"])
    chk.floor("R-PROG", "in-scope loops", nl, 18)
    chk.rule("R-WORDCOVER", "the word loops of the operations that read every word tile the word indexes without a gap: the lower end of each loop range [lo, hi) is 0, the upper end of another word loop "
             "of the function, or just above a single access (ranges as linear forms); a function with a word loop in another form is not judged")
    import wordcover
    nwc, wskipped = wordcover.run(chk, P)
    chk.floor("R-WORDCOVER", "word-loop ranges", nwc, 20)
    if wskipped:
        chk.notes.append("R-WORDCOVER: not judged (a word loop is not a counted for): %s" % ", ".join(wskipped))
    chk.decided += ["a defining operation (zero/fill/only/allbut/from_*/copy/not/or/and/andnot/xor/parsers) always stores the destination's infinite flag (no stale flag from the destination's history)",
                    "a failed allocation leaves a set with its previous word count: the count is never raised before the words exist (ulongs_count <= ulongs_allocated survives ENOMEM)",
                    'the word loops of the operations that read every word tile the word indexes without a gap (head/tail loops, first/middle/last word)',
                    "word indexes into ulongs[] stay below the word count in every bitmap function but the five listed as out of scope",
                    'ulongs_allocated always records the size of the ulongs allocation',
                    "results do not depend on whether the destination aliases an operand (effect order on all paths)",
                    "results do not depend on the history that built a set (allocation size never consulted; infinite flag always consulted; defining functions overwrite)",
                    "-1 conventions for infinite sets (weight/last/last_unset/nr_ulongs)"]
    chk.undecided += ["that each operation computes the right set (first/next/last arithmetic, range masks, compare orderings, singlify): value-level; in particular the sign of hwloc_bitmap_compare_first's tail is not seen"]
    chk.trusted += ["clang 14 front end"]
    return "May/must dataflow on the representation discipline of hwloc/bitmap.c."
