"""C02 well-formedness preserved by every history of modifying calls (structural necessary conditions)."""
from prog import *
import effects, flags, atomic, oblig, setkind, must, lists, tailzero
import props.C08 as c08

GP_OWNERS = {"hwloc_alloc_setup_object": "the one generator: next_gp_index++", "hwloc__duplicate_object": "copies the source's gp_index into the new object",
             "hwloc__xml_import_object_attr": "imports the value recorded in the XML (next_gp_index is raised past it)"}
UD_OWNERS = {"hwloc__duplicate_object": "documented verbatim copy on dup", "hwloc_alloc_setup_object": "initialises the new object's userdata to NULL",
             "hwloc_topology_set_userdata": "topology userdata setter (not object userdata)"}


def run(chk, tier):
    P = Program(("lib",))
    E = effects.Effects(P)
    chk.units |= set("hwloc/" + u for u in ("topology.c", "distances.c", "memattrs.c", "cpukinds.c"))
    chk.rule("R-FLAGS", "flag words of restrict / allow / distances_add_commit")
    ns, nw = flags.run(chk, P, "C02", effects=E)
    chk.floor("R-FLAGS", "entry points", ns, 3)
    c08.restrict_rules(chk, P, E)
    chk.rule("R-ATOMIC", "calls documented to leave the topology untouched on EINVAL do so: no EINVAL exit is reachable after a write to the topology")
    na = atomic.check(chk, P, E, "hwloc_topology_allow", "topology.c", atomic.topo_writes(E, arg_indices=(0,), ignore_paths=("infos",)), only_errno=22, construct="einval-before-write")
    chk.floor("R-ATOMIC", "EINVAL exits of hwloc_topology_allow", na, 1)
    chk.rule("R-OBLIG", "modifying entry points re-establish derived state on every success path")
    f = P.need_func("hwloc_topology_insert_group_object", "topology.c")
    # success returns that follow an insertion (dominated by hwloc_obj_add_children_sets): reconnect, symmetric subtree, group depth, total memory
    m = must.Must(f).run()
    k = 0
    for r in returns(f):
        st = m.before.get(r["id"])
        if st is None or not any(x[0] == "call" and x[1] == "hwloc_obj_add_children_sets" for x in st):
            continue
        e = r["c"][0] if r.get("c") else None
        if e is not None and cval(e) == 0:
            continue
        k += 1
        for c in ("hwloc__reconnect", "hwloc_propagate_symmetric_subtree", "hwloc_set_group_depth"):
            chk.inst("R-OBLIG", f, "inserted-return#%d:%s" % (k, c), any(x[0] == "call" and x[1] == c for x in st), "after inserting a Group, %s() runs before the object is returned" % c, loc=f.loc(r))
        tm = any(assigned(x) and lv(assigned(x)[0]) == "res->total_memory" and assigned(x)[1] == "+=" for x in f.walk())
        chk.inst("R-OBLIG", f, "inserted-return#%d:total_memory" % k, tm, "the Group's total_memory is recomputed from its children", loc=f.loc(r))
    chk.need(k >= 1, "R-OBLIG: no post-insertion success return found in hwloc_topology_insert_group_object")
    g = P.need_func("hwloc_topology_insert_misc_object", "topology.c")
    oblig.success_needs(chk, P, "hwloc_topology_insert_misc_object", "topology.c", calls=("hwloc_insert_object_by_parent", "hwloc_topology_reconnect"), success=lambda v: False) if False else None
    mm = must.Must(g).run()
    for r in returns(g):
        st = mm.before.get(r["id"])
        e = r["c"][0] if r.get("c") else None
        if st is None or e is None or cval(e) == 0:
            continue
        chk.inst("R-OBLIG", g, "misc-return:reconnect", any(x[0] == "call" and x[1] == "hwloc_topology_reconnect" for x in st), "after inserting a Misc object the topology is reconnected before returning it", loc=g.loc(r))
    for fn, unit, callee in (("hwloc_cpukinds_register", "cpukinds.c", "hwloc_internal_cpukinds_rank"),
                             ("hwloc_distances_add_commit", "distances.c", "hwloc__reconnect")):
        oblig.success_needs(chk, P, fn, unit, calls=(callee,))
    chk.rule("R-COMPACT", "in-place compaction moves elements down: a single-element memcpy(&A[x], &A[y]) between two elements of one array has x <= y on every path (zone abstract interpretation); "
             "the converse order overwrites the surviving entry with the one just dropped")
    import zone as _zone
    nco = _zone.run_compact(chk, P, units=('memattrs.c', 'topology.c', 'cpukinds.c', 'distances.c'))
    chk.floor("R-COMPACT", "element moves inside one array", nco, 1)
    import elemmove
    nem = elemmove.run(chk, P, list(P.units))
    chk.floor("R-COMPACT", "field-wise element moves in compacting functions", nem, 1)
    chk.rule("R-UNLINK", "removing a distances matrix from the topology's doubly linked list updates the predecessor or the head AND the successor or the tail (all discovered removal sites)")
    nu = lists.list_unlink(chk, P, [], "distances.c")
    chk.floor("R-UNLINK", "removal sites of the distances list", nu, 1)
    chk.rule("R-TAILZERO", "zero-tail discipline of the cpukinds array (register after restrict): see C15")
    tailzero.run(chk, P, only_arrays=("cpukinds",), min_arrays=1)
    chk.rule("R-WRITER", "gp_index is produced only by the generator, dup and XML import; object userdata is never written by hwloc except the verbatim copy on dup")
    units = list(P.units)
    n1, seen = oblig.writers(chk, P, units, "hwloc_obj", "gp_index", GP_OWNERS)
    chk.floor("R-WRITER", "stores to hwloc_obj.gp_index", n1, 3)
    n2, seen2 = oblig.writers(chk, P, units, "hwloc_obj", "userdata", UD_OWNERS)
    chk.floor("R-WRITER", "stores to hwloc_obj.userdata", n2, 1)
    chk.rule("R-PARALLEL", "arrays that run in parallel are compacted together (see C13): before a function lowers the count of a record, every array field of that extent had elements written on every path")
    import parallel
    npar, pgroups = parallel.run(chk, P, E, ["distances.c"])
    chk.floor("R-PARALLEL", "count-lowering sites of records with parallel arrays", npar, 1)
    chk.rule("R-ORPHAN", "in the functions that dismantle tree objects, hwloc_free_unlinked_object(X) is reached only after each of X's four child lists, when non-empty, was handed on "
             "(passed to a call or copied): explored per list with the list head seeded non-NULL; a NULL test alone consumes nothing")
    import orphan
    nor = orphan.run(chk, P, ["topology.c"])
    chk.floor("R-ORPHAN", "release sites x child lists", nor, 12)
    chk.rule("R-MOVED", "an object whose contents a callee has moved away and zeroed (discovered: memset(param, 0, sizeof(*param)) on every path -- hwloc_replace_linked_object) is only released afterwards: "
             "returning it, dereferencing it or handing it on is reported (may-dataflow on the argument, killed by re-assignment)")
    import moved
    nmv, movers_ = moved.run(chk, P, ["topology.c"])
    chk.floor("R-MOVED", "calls of content-moving functions", nmv, 2)
    chk.rule("R-PUTBACK", "hwloc___insert_object_by_cpuset(): every field of a child that is rewritten in the block that moves the child below the new object is stored again by the put-back section "
             "(the blocks from which no successful return is reachable): a failed insertion leaves no child pointing at the rejected object, which the caller frees")
    import putback
    npb = putback.run(chk, P)
    chk.floor("R-PUTBACK", "adopted-child fields", npb, 2)
    chk.rule("R-COMPACTALL", "a helper that compacts several parallel arrays (discovered: >= 3 pointer parameters each with an element move `P[i] = P[j]`) moves elements inside every one of them "
             "when all are present (explored with every pointer argument non-NULL): no two compactions are exclusive")
    import compactall
    nca = compactall.run(chk, P, ["distances.c"])
    chk.floor("R-COMPACTALL", "parallel arrays of compaction helpers", nca, 3)
    chk.decided += ['a failed insertion gives every adopted child back completely (parent and sibling links restored by the put-back path)',
                    'hwloc_topology_insert_group_object() never returns the emptied shell of a Group whose contents were moved into an existing one',
                    'parallel arrays of a distances structure are compacted together before its count is lowered',
                    'an object removed from the tree is freed only after each of its non-empty child lists was handed on',
                    "compaction of targets/initiators after a refresh copies the surviving entry down, never the dropped one over it",
                    "restrict: see C08", "allow/restrict leave the topology untouched on EINVAL (no write before any EINVAL exit)",
                    "Group/Misc insertion, cpukinds registration, distances commit re-establish derived state on their success paths",
                    "gp_index of surviving objects never changes and userdata is never altered (who-may-write)", "cpusets/nodesets never mixed",
                    "distances removals keep the list's head/tail and neighbour links consistent; child lists dropped by restrict are reset; a cpukind removed by restrict leaves no stale slot"]
    chk.undecided += ["that the reconnected tree is correct for a given history of calls (composition of entry points)",
                      "Groups inserted by distance-based grouping at commit time (depth/total_memory recomputation: only the reconnect obligation is checked)",
                      "dont_merge Group equal to an existing Group (value decision inside hwloc__insert_try_merge_group)"]
    chk.trusted += ["clang 14 front end", "may-effect summaries"]
    return "Obligation (must-call) dataflow on the modifying entry points, dirty-path exploration of EINVAL exits, who-may-write tables, set-kind lint."
