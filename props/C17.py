"""C17 documented thread safety."""
from prog import Program
import effects, shmem, threads, peval, atomic

USER_SLOTS = [("hwloc_topology", "userdata_import_cb"), ("hwloc_topology", "userdata_export_cb")]
PURE_EXC = {
    "hwloc_distances_release": "releases the caller's private copy handed out by hwloc_distances_get*; the container is found read-only",
}
LOCKED_EXTRA = {
    "hwloc_static_components": "component descriptors are linked into the registry only by hwloc_disc_component_register, called with the mutex held (R-LOCK)",
    "hwloc_nolibxml_callbacks": "written only by hwloc_xml_callbacks_register/reset, called from hwloc_components_init/fini with the mutex held",
    "stdout": "libc FILE, internally locked", "stderr": "libc FILE, internally locked",
}


def run(chk, tier):
    P = Program(("lib",))
    E = effects.Effects(P, user_slots=USER_SLOTS, opaque=shmem.REFRESHERS)
    chk.units |= set("hwloc/" + u for u in P.units)
    chk.rule("R-PURE", "every consulting public function: its transitive may-write set contains no memory reachable from topology/object/const-bitmap "
             "parameters (lazily refreshed caches assumed valid: R-REFRESH); summary hits are re-examined path-by-path with constant arguments (create=0 ...)")
    api = P.public_api()
    n, sw = threads.pure_readers(chk, P, E, exceptions=PURE_EXC)
    # second opinion for summary hits: context-sensitive path exploration (constant arguments such as create=0 bound in callees)
    for inst in list(chk.instances):
        if inst["rule"] == "R-PURE" and not inst["ok"]:
            f = P.func(inst["function"])
            sh = threads.shared_params(f)
            def pred(ff, node, env, sh=sh, f=f):
                S = E.node_effects(ff, node)
                return any(r[0] == "arg" and r[1] in sh for r in list(S.mod) + list(S.free))
            def inner(ff, node, env):
                # inside an evaluated callee: a write through any of ITS parameters on the path taken with the constants passed;
                # whether that memory is shared is judged at the call site in the consulting function (summary of the call)
                S = E.node_effects(ff, node)
                return any(r[0] == "arg" for r in list(S.mod) + list(S.free))
            try:
                out = peval.PathEval(P, f, {}, is_effect=pred, callee_effect=inner, maxstates=30000).run()
                eff = [t for t in out.terminals if t[0] == "effect"]
                if not eff:
                    inst["ok"] = True
                    inst["detail"] = "summary hit (%s) refuted path-by-path: with the constant arguments passed no write is reachable" % inst["detail"][:120]
                else:
                    inst["detail"] += " -- confirmed on a path: write at %s" % eff[0][3]
            except Exception as e:   # inconclusive stays a violation
                inst["detail"] += " (path exploration inconclusive: %s)" % e
    chk.floor("R-PURE", "consulting functions examined", n, 100)
    chk.rule("R-REFRESH", "each lazily refreshed cache kind is refreshed by hwloc_topology_refresh() and by the tail of hwloc_topology_load() under its own NO_* flag")
    threads.refresh_complete(chk, P)
    chk.rule("R-REFRESHALL", "the refresh-all functions validate every element: explored with one element whose fields are all 0, the per-element refresher is called on every path to the exit "
             "(an element skipped under some condition stays invalid after load()/refresh(), and every reader then refreshes it itself: a write to the shared topology)")
    nra = threads.refresh_every_element(chk, P)
    chk.floor("R-REFRESHALL", "refresh-all functions", nra, 2)
    chk.rule("R-INITFINI", "the process-wide component reference count is released only by a holder: every hwloc_components_fini() is preceded on every path in its function by a call that took a reference, "
             "or sits in a frozen owner that tears its topology down (an unbalanced release tears the components down under another thread's live topology)")
    import refcount
    nrf = refcount.run(chk, P)
    chk.floor("R-INITFINI", "release sites of the component reference count", nrf, 5)
    chk.rule("R-LOCK", "lockset dataflow on components.c: balanced lock/unlock on all paths, every write of the process-wide registry with the mutex held")
    nl, G, locked = threads.lock_discipline(chk, P, E)
    chk.floor("R-LOCK", "registry write/call sites", nl, 10)
    chk.rule("R-STATIC", "every write to static storage reachable from the public API is mutex-protected or a listed finding")
    entries = [nm for nm in sorted(api) if nm in E.sum]
    ns = threads.static_state(chk, P, E, entries, sw, locked_globals=set(G) | set(LOCKED_EXTRA))
    chk.floor("R-STATIC", "static-storage variables written from the public API", ns, 5)
    chk.decided += ["distinct topologies do not interfere through the component registry's reference count (no release without a reference on any path)",
                    "concurrent readers on a refreshed topology have no data races on topology memory (no write reachable from the consulting API)",
                    "refresh()/load() make every lazily refreshed cache valid", "the component registry is only written under its mutex",
                    "all other static-storage writes reachable from the API are enumerated (known findings)"]
    chk.undecided += ["libxml2 / libc (getenv, uselocale) internal thread safety", "same results as a single-threaded run (implied by purity for pure functions)"]
    chk.trusted += ["clang 14 front end", "may-effect summaries with the external table of lib/effects.py", "user callbacks (userdata export/import) are the user's business"]
    return "Whole-program may-effect summaries over ~130 consulting entry points, lockset dataflow on the component registry, enumeration of static-storage writers."
