"""C15 CPU kinds."""
from prog import *
import effects, flags, exh, guards, must, threads, tailzero, rerank


def run(chk, tier):
    P = Program(("lib",))
    E = effects.Effects(P)
    chk.units |= {"hwloc/cpukinds.c", "hwloc/topology.c"}
    chk.rule("R-FLAGS", "flag words (ZERO) of the four public cpukinds entry points")
    ns, nw = flags.run(chk, P, "C15", effects=E)
    chk.floor("R-FLAGS", "entry points", ns, 4)
    chk.rule("R-EXH", "consumers of hwloc_bitmap_compare_inclusion classify all five outcomes per the specification (result forced to each enumerator, all paths explored)")
    n1 = exh.get_by_cpuset(chk, P)
    n2 = exh.internal_register(chk, P)
    chk.floor("R-EXH", "outcome cases", n1 + n2, 10)
    chk.rule("R-GUARD", "NULL/empty cpuset rejected before duplication; duplicate infos filtered before add")
    def dups(f):
        for c in f.calls("hwloc_bitmap_dup"):
            yield c, "dup"
    guards.dominated(chk, P, "hwloc_cpukinds_register", "cpukinds.c", dups,
                     lambda st: any(f[0] == "F" and f[1] == "hwloc_bitmap_iszero(_cpuset)" for f in st) and any(f[0] == "T" and f[1] == "_cpuset" for f in st),
                     "R-GUARD", "the cpuset is duplicated only after it was tested non-NULL and non-empty")
    # every function of cpukinds.c that adds an info pair does so only after a duplicate test of THAT pair failed: the test is a call of
    # a function of the unit handed the same name and value (whatever it is called); a function that adds pairs after comparing
    # strings itself is an idiom this rule does not know (analysis broken, not a violation)
    nadd = 0
    for af in P.unit("cpukinds.c").funcs(only_main=True):
        if af.entry is None or not list(af.calls("hwloc__add_info")):
            continue
        m = must.Must(af).run()
        for c in af.calls("hwloc__add_info"):
            st = m.before.get(c["id"])
            if st is None:
                continue
            nadd += 1
            nv = [src(strip(x)) for x in args(c)[1:3]]
            def tested(st):
                for fct in st:
                    if fct[0] != "F" or "(" not in fct[1]:
                        continue
                    g = P.func(fct[1].split("(")[0].strip())
                    if g is not None and g.unit is af.unit and all(x in fct[1] for x in nv):
                        return True
                return False
            ok = tested(st)
            if not ok and list(af.calls("strcmp")):
                chk.broke("R-GUARD: %s adds an info pair after comparing strings itself: duplicate filtering idiom not recognised" % af.name)
                continue
            chk.inst("R-GUARD", af, "dedup-before-add#%d" % nadd, ok, "the info pair (%s) is added to a kind only after a duplicate test of that pair failed%s"
                     % (", ".join(nv), "" if ok else " (facts: %s)" % must.facts_text(st)[:6]), loc=af.loc(c))
    chk.floor("R-GUARD", "info additions in cpukinds.c", nadd, 1)
    # every input pair is considered: a loop that adds info pairs element by element is left only through its own condition (a
    # `return`/`break`/`goto` out of it -- e.g. on meeting a duplicate -- silently drops the remaining pairs)
    nlp = 0
    for af in P.unit("cpukinds.c").funcs(only_main=True):
        if af.entry is None:
            continue
        for lp in af.walk():
            if lp["k"] not in ("For", "While", "Do"):
                continue
            body = lp["c"][-1]
            if not any(s["k"] == "Call" and s.get("fn") == "hwloc__add_info" for s in subnodes(body)):
                continue
            # innermost such loop only (an enclosing loop over kinds may legitimately stop)
            if any(s is not lp and s["k"] in ("For", "While", "Do") and any(z["k"] == "Call" and z.get("fn") == "hwloc__add_info" for z in subnodes(s["c"][-1])) for s in subnodes(body)):
                continue
            nlp += 1
            exits = []
            def scan(n, depth):
                if n is None:
                    return
                if n["k"] in ("Return", "Goto"):
                    exits.append(n)
                    return
                if n["k"] == "Break" and depth == 0:
                    exits.append(n)
                    return
                d2 = depth + 1 if n["k"] in ("For", "While", "Do", "Switch") else depth
                for c in n.get("c", ()):
                    scan(c, d2)
            scan(body, 0)
            chk.inst("R-GUARD", af, "add-loop-complete#%d" % nlp, not exits, "the loop that adds info pairs one by one is left only through its own condition%s"
                     % ("" if not exits else ": %s at line %s leaves it early and drops the remaining pairs" % (exits[0]["k"].lower(), exits[0].get("l"))), loc=af.loc(lp))
    chk.floor("R-GUARD", "loops adding info pairs", nlp, 1)
    chk.rule("R-OBLIG", "after a public register and after a restrict the kinds are re-ranked / restricted: calls present under their own NO_CPUKINDS test only")
    f = P.need_func("hwloc_cpukinds_register", "cpukinds.c")
    chk.inst("R-OBLIG", f, "rank-after-register", any(True for c in f.calls("hwloc_internal_cpukinds_rank")), "hwloc_cpukinds_register re-ranks the kinds")
    # ... and does so on EVERY successful path once the internal registration has run (a registration without efficiency or infos
    # can still create or split kinds: they would keep efficiency -1 next to ranked ones).  Evaluated: integer and pointer parameters
    # forked over {0, 1} / {-1, 0, 1}; every non-failing return reached after the registration call has called the ranking.
    import peval as _pe
    from prog import AnalysisBroken as _AB
    missing = []
    nret = [0]
    def _obx(kind, nd, e, missing=missing, nret=nret, f=f):
        v = None
        if kind == "return" and nd is not None and nd.get("c") and nd["c"][0] is not None:
            v = _pe.Evaluator(f, e).ev(nd["c"][0])
        if v is None or v < 0:
            return      # a failing return, or `return err` on the outcome where the registration failed with a value not known here
        if e.get("#hwloc_internal_cpukinds_register"):
            nret[0] += 1
            if not e.get("#hwloc_internal_cpukinds_rank"):
                missing.append(f.loc(nd) if nd is not None else f.name)
    starts = []
    for fe in (-1, 0, 3):
        for inf in (0, 1):
            starts.append({"forced_efficiency": fe, "infos": inf, "flags": 0, "topology->adopted_shmem_addr": 0})
    try:
        _pe.PathEval(P, f, starts[0], is_effect=lambda *z: False, through_effects=True, observe_exit=_obx, starts=starts[1:],
                     markers={"hwloc_internal_cpukinds_register", "hwloc_internal_cpukinds_rank"}, track=set(starts[0]) | {"err"}, maxstates=50000).run()
        chk.inst("R-OBLIG", f, "rank-on-every-success", not missing and nret[0] > 0,
                 "every successful return of hwloc_cpukinds_register reached after the internal registration (forced_efficiency in {-1,0,3}, infos NULL or not) has re-ranked the kinds%s"
                 % ("" if not missing else " -- but the return at %s is reached without: new or split kinds keep efficiency -1 next to ranked ones" % missing[0]))
    except _AB as ex:
        chk.broke("R-OBLIG: hwloc_cpukinds_register not evaluable (%s)" % ex)
    r = P.need_func("hwloc_topology_restrict", "topology.c")
    m = must.Must(r).run()
    cs = list(r.calls("hwloc_internal_cpukinds_restrict"))
    ok = len(cs) == 1
    why = ""
    if ok:
        st = m.before.get(cs[0]["id"], frozenset())
        conds = [x[1] for x in st if x[0] in ("T", "F") and "flags &" in x[1] and "HWLOC_" in x[1] and not x[1].startswith("!")]
        mine = [x for x in st if x[0] == "F" and "HWLOC_TOPOLOGY_FLAG_NO_CPUKINDS" in x[1]]
        # the validation prefix (`flags & ~(all flags)` false) is not a restriction; any other test of a restrict flag is
        others = [c for c in conds if "NO_CPUKINDS" not in c and "RESTRICT_FLAG" in c and "~" not in c]
        ok = bool(mine) and not others
        why = "guards: %s" % conds
    chk.inst("R-OBLIG", r, "restrict-kinds", ok, "hwloc_topology_restrict calls hwloc_internal_cpukinds_restrict exactly when NO_CPUKINDS is unset, whatever the restrict flags (%s)" % why)
    rk = P.need_func("hwloc_internal_cpukinds_restrict", "cpukinds.c")
    chk.inst("R-OBLIG", rk, "rank-after-removal", any(True for c in rk.calls("hwloc_internal_cpukinds_rank")), "removing a kind is followed by a re-ranking")
    chk.rule("R-RERANK", "after restrict removed a kind, every exit reached with 1 or 2 kinds left has re-ranked them since (hwloc_internal_cpukinds_rank is a no-op only for 0 kinds; "
             "the guard in front of the call is evaluated under each remaining count, not matched)")
    nrr = rerank.run(chk, P, "hwloc_internal_cpukinds_restrict", "cpukinds.c", "topology->nr_cpukinds", "hwloc_internal_cpukinds_rank", needs=(1, 2), domain=(0, 1, 2))
    chk.floor("R-RERANK", "exit states judged", nrr, 2)
    chk.rule("R-TAILZERO", "zero-tail discipline of the kinds array: the grower zero-fills new slots and registration appends infos into the slot at the count in place, "
             "so every function that lowers nr_cpukinds while keeping the array zeroes the vacated slot on every path (may-dataflow from the decrement to the exit)")
    nz = tailzero.run(chk, P, only_arrays=("cpukinds",), min_arrays=1)
    chk.floor("R-TAILZERO", "count-lowering sites", nz, 3)
    chk.rule("R-ARGDOMAIN", "a forced efficiency converted from input text reaches hwloc_internal_cpukinds_register() only inside the domain the public entry point enforces: the normalisation of "
             "hwloc_cpukinds_register() is discovered by evaluation with an out-of-range probe (-5 becomes -1); every other caller that passes a converted local is explored with the conversion returning the probe")
    import argdomain
    nad = argdomain.run(chk, P, "hwloc_internal_cpukinds_register", 2, "hwloc_cpukinds_register", "cpukinds.c", ["topology-xml.c", "topology-linux.c"])
    chk.floor("R-ARGDOMAIN", "callers passing a converted forced efficiency", nad, 1)
    chk.decided += ['a negative forced efficiency read from XML is normalised like one given to the API (it is not ranked as a huge unsigned value)',
                    'after restrict removed a kind the remaining kinds are re-ranked whenever 1 or 2 are left',
                    'every info pair added to a kind passed a duplicate test of that pair; the adding loop is not left early',
                    "a kind removed by restrict leaves no stale infos/cpuset pointers for the next registration to reuse (register after restrict)",
                    "non-zero flags, NULL and empty cpusets rejected with EINVAL", "get_by_cpuset: index / EXDEV / ENOENT for each inclusion outcome",
                    "register splits on INTERSECTS/INCLUDED, merges on CONTAINS/EQUAL, skips DIFFERENT; split removes the intersection from both sides",
                    "restrict always restricts the kinds; ranks recomputed after register/removal", "info pairs accumulate without exact duplicates"]
    chk.undecided += ["that kinds partition the registered union for a given history (value)", "efficiency values vs forced efficiencies"]
    chk.trusted += ["clang 14 front end"]
    return "Result-forcing path exploration of the two compare_inclusion consumers, flag-word evaluation, must-fact guards."
