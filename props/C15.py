"""C15 CPU kinds."""
from prog import *
import effects, flags, exh, guards, must, threads, tailzero


def run(chk, tier):
    P = Program(("lib",))
    E = effects.Effects(P)
    chk.units |= {"hwloc/cpukinds.c", "hwloc/topology.c"}
    chk.rule("R-FLAGS", "flag words (ZERO) of the four public cpukinds entry points")
    ns, nw = flags.run(chk, P, "C15", effects=E)
    chk.floor("R-FLAGS", "entry points", ns, 4)
    chk.rule("R-EXH", "consumers of hwloc_bitmap_compare_inclusion classify all five outcomes per the specification (result forced to each enumerator, all paths explored)")
    n1 = exh.get_by_cpuset(chk, P)
    n2 = exh.internal_register(chk, P)
    chk.floor("R-EXH", "outcome cases", n1 + n2, 10)
    chk.rule("R-GUARD", "NULL/empty cpuset rejected before duplication; duplicate infos filtered before add")
    def dups(f):
        for c in f.calls("hwloc_bitmap_dup"):
            yield c, "dup"
    guards.dominated(chk, P, "hwloc_cpukinds_register", "cpukinds.c", dups,
                     lambda st: any(f[0] == "F" and f[1] == "hwloc_bitmap_iszero(_cpuset)" for f in st) and any(f[0] == "T" and f[1] == "_cpuset" for f in st),
                     "R-GUARD", "the cpuset is duplicated only after it was tested non-NULL and non-empty")
    def adds(f):
        for c in f.calls("hwloc__add_info"):
            yield c, "add"
    guards.dominated(chk, P, "hwloc__cpukind_add_infos", "cpukinds.c", adds,
                     lambda st: any(f[0] == "F" and f[1].startswith("hwloc__cpukind_check_duplicate_info(") for f in st),
                     "R-GUARD", "an info pair is added only after hwloc__cpukind_check_duplicate_info() found no exact duplicate")
    chk.rule("R-OBLIG", "after a public register and after a restrict the kinds are re-ranked / restricted: calls present under their own NO_CPUKINDS test only")
    f = P.need_func("hwloc_cpukinds_register", "cpukinds.c")
    chk.inst("R-OBLIG", f, "rank-after-register", any(True for c in f.calls("hwloc_internal_cpukinds_rank")), "hwloc_cpukinds_register re-ranks the kinds")
    r = P.need_func("hwloc_topology_restrict", "topology.c")
    m = must.Must(r).run()
    cs = list(r.calls("hwloc_internal_cpukinds_restrict"))
    ok = len(cs) == 1
    why = ""
    if ok:
        st = m.before.get(cs[0]["id"], frozenset())
        conds = [x[1] for x in st if x[0] in ("T", "F") and "flags &" in x[1] and "HWLOC_" in x[1] and not x[1].startswith("!")]
        mine = [x for x in st if x[0] == "F" and "HWLOC_TOPOLOGY_FLAG_NO_CPUKINDS" in x[1]]
        # the validation prefix (`flags & ~(all flags)` false) is not a restriction; any other test of a restrict flag is
        others = [c for c in conds if "NO_CPUKINDS" not in c and "RESTRICT_FLAG" in c and "~" not in c]
        ok = bool(mine) and not others
        why = "guards: %s" % conds
    chk.inst("R-OBLIG", r, "restrict-kinds", ok, "hwloc_topology_restrict calls hwloc_internal_cpukinds_restrict exactly when NO_CPUKINDS is unset, whatever the restrict flags (%s)" % why)
    rk = P.need_func("hwloc_internal_cpukinds_restrict", "cpukinds.c")
    chk.inst("R-OBLIG", rk, "rank-after-removal", any(True for c in rk.calls("hwloc_internal_cpukinds_rank")), "removing a kind is followed by a re-ranking")
    chk.rule("R-TAILZERO", "zero-tail discipline of the kinds array: the grower zero-fills new slots and registration appends infos into the slot at the count in place, "
             "so every function that lowers nr_cpukinds while keeping the array zeroes the vacated slot on every path (may-dataflow from the decrement to the exit)")
    nz = tailzero.run(chk, P, only_arrays=("cpukinds",), min_arrays=1)
    chk.floor("R-TAILZERO", "count-lowering sites", nz, 3)
    chk.decided += ["a kind removed by restrict leaves no stale infos/cpuset pointers for the next registration to reuse (register after restrict)",
                    "non-zero flags, NULL and empty cpusets rejected with EINVAL", "get_by_cpuset: index / EXDEV / ENOENT for each inclusion outcome",
                    "register splits on INTERSECTS/INCLUDED, merges on CONTAINS/EQUAL, skips DIFFERENT; split removes the intersection from both sides",
                    "restrict always restricts the kinds; ranks recomputed after register/removal", "info pairs accumulate without exact duplicates"]
    chk.undecided += ["that kinds partition the registered union for a given history (value)", "efficiency values vs forced efficiencies"]
    chk.trusted += ["clang 14 front end"]
    return "Result-forcing path exploration of the two compare_inclusion consumers, flag-word evaluation, must-fact guards."
