"""C08 hwloc_topology_restrict removes exactly what the set excludes, or nothing."""
from prog import *
import effects, flags, atomic, oblig, setkind, must, guards

RESTRICT_FLAGGED = (("HWLOC_TOPOLOGY_FLAG_NO_DISTANCES", "hwloc_internal_distances_invalidate_cached_objs"),
                    ("HWLOC_TOPOLOGY_FLAG_NO_MEMATTRS", "hwloc_internal_memattrs_need_refresh"),
                    ("HWLOC_TOPOLOGY_FLAG_NO_CPUKINDS", "hwloc_internal_cpukinds_restrict"))
RESTRICT_CALLS = ("hwloc__reconnect", "hwloc_propagate_symmetric_subtree", "propagate_total_memory")


def restrict_rules(chk, P, E):
    chk.rule("R-FLAGS", "restrict flag words: all 32 words over the 5 declared bits + every undeclared bit (see C10)")
    chk.rule("R-ATOMIC", "no EINVAL/EPERM exit of hwloc_topology_restrict is reachable after a write to the topology (all paths, constant propagation)")
    nf = atomic.check(chk, P, E, "hwloc_topology_restrict", "topology.c", atomic.topo_writes(E, arg_indices=(0,)), only_errno=22, construct="einval-before-write", maxstates=80000)
    chk.floor("R-ATOMIC", "EINVAL exits of hwloc_topology_restrict", nf, 4)
    chk.rule("R-OBLIG", "every success return of restrict is preceded by reconnect(KEEPSTRUCTURE), cache invalidations under their own NO_* flags, symmetric_subtree and total_memory recomputation")
    no = oblig.success_needs(chk, P, "hwloc_topology_restrict", "topology.c", calls=RESTRICT_CALLS, flagged=RESTRICT_FLAGGED)
    chk.floor("R-OBLIG", "obligations on restrict's success return", no, 6)
    f = P.need_func("hwloc_topology_restrict", "topology.c")
    rc = list(f.calls("hwloc__reconnect"))
    import dup
    ks = f.unit.enum_consts.get("_HWLOC_RECONNECT_FLAG_KEEPSTRUCTURE") or dup.macro_value(P, "_HWLOC_RECONNECT_FLAG_KEEPSTRUCTURE")
    chk.inst("R-OBLIG", f, "reconnect-keepstructure", len(rc) == 1 and ks is not None and cval(args(rc[0])[1]) == ks, "restrict reconnects with KEEPSTRUCTURE so that redundant levels merge as at load time")
    # the cache-invalidation calls sit under their OWN flag only
    m = must.Must(f).run()
    for fl, callee in RESTRICT_FLAGGED:
        for c in f.calls(callee):
            st = m.before.get(c["id"], frozenset())
            conds = [x for x in st if x[0] in ("T", "F") and ("RESTRICT_FLAG" in x[1] or "HWLOC_TOPOLOGY_FLAG_NO_" in x[1]) and "~" not in x[1]]
            mine = [x for x in conds if fl in x[1] and x[0] == "F"]
            others = [x[1] for x in conds if fl not in x[1]]
            chk.inst("R-OBLIG", f, "own-flag:" + callee, bool(mine) and not others, "%s runs exactly when %s is unset (other flag tests on its path: %s)" % (callee, fl, others), loc=f.loc(c))
    chk.rule("R-SETKIND", "cpusets and nodesets are never mixed in bitmap operations or argument passing")
    ns = setkind.run(chk, P, ["topology.c", "cpukinds.c", "distances.c", "memattrs.c"])
    chk.floor("R-SETKIND", "kinded bitmap operations", ns, 90)
    chk.rule("R-LISTKIND", "the four child lists are never confused: a block guarded by one list head works on that list")
    nl = setkind.listkind(chk, P, ["topology.c"])
    chk.floor("R-LISTKIND", "list-head guarded blocks", nl, 9)
    chk.rule("R-GUARD", "a NUMA node disappears only with REMOVE_CPULESS (a PU only with REMOVE_MEMLESS); I/O and Misc children dropped only without their ADAPT flag")
    for fn, typ, flag in (("restrict_object_by_cpuset", "HWLOC_OBJ_NUMANODE", "HWLOC_RESTRICT_FLAG_REMOVE_CPULESS"), ("restrict_object_by_nodeset", "HWLOC_OBJ_PU", "HWLOC_RESTRICT_FLAG_REMOVE_MEMLESS")):
        g = P.need_func(fn, "topology.c")
        tv, fv = g.unit.enum_consts.get(typ), g.unit.enum_consts.get(flag)
        allbits = 0
        for k, v in g.unit.enum_consts.items():
            if k.startswith("HWLOC_RESTRICT_FLAG_"):
                allbits |= v
        words = [w for w in range(allbits + 1) if (w & ~allbits) == 0 and not (w & fv)] if tv is not None and fv is not None else []
        if chk.need(bool(words), "R-GUARD: %s / %s not found" % (typ, flag)):
            guards.unreachable_under(chk, P, fn, "topology.c", [{"obj->type": tv, "flags": w} for w in words], "unlink_and_free_single_object", "R-GUARD", "keep-unless-flag",
                                     "with obj->type == %s and %s unset (all %d such flag words) the removal of the object is unreachable" % (typ, flag, len(words)))
    # I/O and Misc children are dropped only without their ADAPT flag: every drop site of topology.c (in the walkers or in a helper
    # extracted from them), dominated in its own function by the failed test of an ADAPT flag
    def frees(f2):
        for c in f2.calls(("hwloc_free_object_siblings_and_children",)):
            a0 = strip(args(c)[0])
            if a0 is not None and a0["k"] == "Member" and a0["f"] in ("io_first_child", "misc_first_child"):
                yield c, "drop"
    ndrop = 0
    for g in guards.functions_calling(P, "topology.c", "hwloc_free_object_siblings_and_children"):
        if not any(True for _ in frees(g)):
            continue
        ndrop += guards.dominated(chk, P, g.name, "topology.c", frees,
                                  lambda st: any(x[0] == "F" and ("HWLOC_RESTRICT_FLAG_ADAPT_IO" in x[1] or "HWLOC_RESTRICT_FLAG_ADAPT_MISC" in x[1]) for x in st),
                                  "R-GUARD", "I/O or Misc children are dropped only when the corresponding ADAPT flag is not given", min_inst=1)
    chk.floor("R-GUARD", "child-list drop sites in topology.c", ndrop, 2)
    chk.rule("R-ARITY", "a function that keeps the arity counters in step with the child lists it splices does so for every splice (sibling agreement inside hwloc_filter_levels_keep_structure: 6 splices)")
    nar = setkind.arity_pairing(chk, P, ["topology.c"])
    chk.floor("R-ARITY", "splices in arity-maintaining functions", nar, 4)
    chk.rule("R-FREERESET", "a child list released by hwloc_free_object_siblings_and_children(x->LIST) is reset (`x->LIST = NULL`, the SAME list head) on every path: "
             "the dying object's remaining lists are re-attached to its parent afterwards, a stale head would link freed objects")
    nfr = 0
    for g in guards.functions_calling(P, "topology.c", "hwloc_free_object_siblings_and_children"):
        if g.name in ("hwloc_free_object_siblings_and_children", "unlink_and_free_object_and_children"):
            continue
        nfr += guards.free_then_reset(chk, P, g.name, "topology.c", ("hwloc_free_object_siblings_and_children",), min_inst=1)
    chk.floor("R-FREERESET", "released child lists in topology.c", nfr, 2)


def run(chk, tier):
    P = Program(("lib",))
    E = effects.Effects(P)
    chk.units |= {"hwloc/topology.c", "hwloc/cpukinds.c", "hwloc/distances.c", "hwloc/memattrs.c"}
    ns, nw = flags.run(chk, P, "C08", effects=E)
    chk.floor("R-FLAGS", "entry points", ns, 1)
    restrict_rules(chk, P, E)
    chk.rule("R-ORPHAN", "in the functions that dismantle tree objects, hwloc_free_unlinked_object(X) is reached only after each of X's four child lists, when non-empty, was handed on "
             "(passed to a call or copied): explored per list with the list head seeded non-NULL; a NULL test alone consumes nothing")
    import orphan
    nor = orphan.run(chk, P, ["topology.c"])
    chk.floor("R-ORPHAN", "release sites x child lists", nor, 12)
    chk.rule("R-SUPERSETGUARD", "scenario evaluation of restrict_object_by_cpuset/by_nodeset: with every set predicate answering \"meets the dropped set\" for obj->complete_X and \"does not\" for obj->X, the subtraction from "
             "obj->complete_X and the recursion into the children are still reached (the guard is decided by the larger set, however it is written)")
    import supersetguard
    nsg = supersetguard.run(chk, P)
    chk.floor("R-SUPERSETGUARD", "restrict walkers judged", nsg, 2)
    chk.decided += ['objects whose complete sets alone meet the dropped set (offline or disallowed PUs / nodes) are still restricted, with their subtree',
                    'Misc/memory/I-O/normal children of a removed object are re-attached or released on every path before the object is freed',
                    "inconsistent flags -> EINVAL (all words); every EINVAL/EPERM exit precedes any write to the topology",
                    "post-restrict fix-ups present on every success path, each cache invalidation under its own flag",
                    "NUMA nodes/PUs removed only with REMOVE_CPULESS/REMOVE_MEMLESS; I/O and Misc dropped only without ADAPT; cpusets and nodesets never mixed"]
    chk.undecided += ["that the dropped sets are computed correctly from S and every survivor has 'old sets minus dropped' (set algebra over a runtime tree)", "level-merge decisions"]
    chk.trusted += ["clang 14 front end", "may-effect summaries"]
    return "Flag-word evaluation, dirty-path exploration of restrict's failure exits, must-call obligations on its success return, set-kind lint."
