"""C06 loading arbitrary XML is safe (structural necessary conditions)."""
from prog import Program
import nullness, cap, progloops, snp, guards, linkfree, union, enumstore, precond, uaf

XML_UNITS = ["topology-xml.c", "topology-xml-nolibxml.c", "topology-xml-libxml.c"]


def run(chk, tier):
    P = Program(("lib",))
    chk.units |= set("hwloc/" + u for u in XML_UNITS + ["traversal.c", "distances.c", "memattrs.c", "cpukinds.c"])
    chk.rule("R-NULLATTR", "path-sensitive nullness dataflow: an optional (NULL-initialised) local pointer is dereferenced or handed to a "
             "function that dereferences it only where it is proved non-NULL on every path")
    N = nullness.Nullness(P)
    tv = tu = 0
    for u in XML_UNITS:
        v, us = N.run(chk, u)
        tv += v; tu += us
    chk.floor("R-NULLATTR", "optional local pointers in the XML import code", tv, 30)
    chk.floor("R-NULLATTR", "non-NULL-requiring uses checked", tu, 45)
    chk.rule("R-CAP", "difference-bound dataflow on array accesses (indexes[], u64values[], different_types[], fixed buffers)")
    no = 0
    for u in XML_UNITS:
        o, _ = cap.run(chk, P, u)
        no += o
    chk.floor("R-CAP", "in-scope array accesses in the XML import code", no, 2)
    chk.rule("R-PROG", "loop progress in the XML code and in the read-only printers reached after a load")
    nl = progloops.run(chk, P, XML_UNITS + ["traversal.c", "distances.c", "memattrs.c", "cpukinds.c", "base64.c"])
    chk.floor("R-PROG", "in-scope loops", nl, 45)
    chk.rule("R-SNPSIZE", "snprintf into fixed buffers bounded by sizeof")
    ns = snp.fixed_buffers(chk, P, XML_UNITS)
    chk.floor("R-SNPSIZE", "fixed-buffer snprintf sites in the XML code", ns, 6)
    chk.rule("R-FREERESET", "a child list released on the failure path of hwloc_look_xml is reset to NULL (same field) before returning, so that the topology can be cleared/destroyed again")
    guards.free_then_reset(chk, P, "hwloc_look_xml", "topology-xml.c", ("hwloc_free_object_siblings_and_children",), min_inst=4)
    chk.rule("R-STATE", "hwloc_topology_load: once the LOADING state bit is set, every return is preceded by clearing it (pairing on all exits): a failed load leaves a topology "
             "that can be configured and loaded again instead of one stuck in the LOADING state")
    LOADING = P.unit("topology.c").enum_consts.get("HWLOC_TOPOLOGY_STATE_IS_LOADING")
    if chk.need(LOADING is not None, "R-STATE: HWLOC_TOPOLOGY_STATE_IS_LOADING not found"):
        nst = guards.released_on_all_exits(chk, P, "hwloc_topology_load", "topology.c",
                                           lambda n: guards.bit_op(n, "state", LOADING, True), lambda n: guards.bit_op(n, "state", LOADING, False),
                                           "R-STATE", "loading-bit", "the LOADING bit set at the start of hwloc_topology_load is cleared before this return")
        chk.floor("R-STATE", "returns of hwloc_topology_load after the LOADING bit is set", nst, 2)
    chk.rule("R-PRECOND", "a callee's asserted precondition on a scalar parameter (assert(param OP CONSTANT)) holds at every call site of the XML import code: constant argument "
             "satisfying it, call unreachable with the excluded value (seeded evaluation), or relation tested on every path")
    npc = precond.run(chk, P, units=("topology-xml.c", "topology-xml-nolibxml.c", "topology-xml-libxml.c"))
    chk.floor("R-PRECOND", "call sites with an asserted scalar precondition", npc, 3)
    chk.rule("R-ENUMSTORE", "a number converted from XML text is stored into an enum-typed attribute field only when it equals an enumerator (the converted variable is forked over "
             "the enumerators and out-of-range representatives; the store must be unreachable for the latter)")
    nes = enumstore.run(chk, P, "topology-xml.c")
    chk.floor("R-ENUMSTORE", "enum-typed attribute stores from converted text", nes, 2)
    chk.rule("R-UNION", "the type-specific attribute union obj->attr is accessed only under a matching obj->type: every self-discriminating function is explored once per object type (21 values, product for two objects) by seeded constant propagation; guards are evaluated, not pattern-matched")
    nun, nuf = union.run(chk, P, units=('topology-xml.c',))
    chk.floor("R-UNION", "union accesses judged", nun, 60)
    chk.rule("R-UAF", "no use of a pointer after it was released: may-dataflow on released lvalues (free, hwloc_bitmap_free, hwloc_free_unlinked_object, closedir, ...), killed by re-assignment, with a correlated-condition path search and whole-program constant fields to discard infeasible paths")
    nua = uaf.run(chk, P, units=('topology-xml.c', 'topology-xml-nolibxml.c', 'topology-xml-libxml.c', 'diff.c'))
    chk.floor("R-UAF", "release sites examined", nua, 40)
    chk.rule("R-LEAK", "a local allocation is released, stored or handed over on every path to a return: may-dataflow on owning locals; a call ends ownership only if the callee's effect summary "
             "frees the object or stores/returns the pointer (unknown callees conservatively); infeasible paths discarded with correlated conditions")
    import leak, effects
    nlk = leak.run(chk, P, effects.Effects(P), units=("topology-xml.c", "topology-xml-nolibxml.c", "topology-xml-libxml.c", "diff.c"))
    chk.floor("R-LEAK", "allocation sites examined in the XML/diff code", nlk, 20)
    chk.rule("R-LINKFREE", "an object handed to an insertion function (which links, merges-and-frees or frees it) is never released afterwards by its creator: no feasible path from an insertion of x to hwloc_free_unlinked_object(x) (may-dataflow + correlated-condition path search)")
    nlf = linkfree.run(chk, P, units=("topology-xml.c",))
    chk.floor("R-LINKFREE", "release sites in the XML import code", nlf, 1)
    chk.rule("R-GPNEXT", "an object identifier converted from input keeps the allocator ahead of it: explored at the boundary (topology->next_gp_index == K, imported gp_index == K), "
             "every exit after the store leaves next_gp_index > K -- otherwise the next object created gets a duplicate gp_index")
    import gpnext
    ngp = gpnext.run(chk, P, ["topology-xml.c"])
    chk.floor("R-GPNEXT", "imported identifier stores", ngp, 1)
    import uninit
    uninit.wire(chk, P, ["topology-xml.c", "topology-xml-nolibxml.c", "topology-xml-libxml.c"], 5)
    from report import Check as _Check
    chk.rule("R-OPTFIELD", "an object read from XML is accepted only with the sets the core takes for granted: the bitmap fields that the attribute reader allocates on demand are discovered; the importer is explored "
             "with each of them absent (NULL), the type forked over normal and memory types where the type= attribute is converted, with and without a parent: no insertion and no successful return "
             "may be reached with the field still NULL")
    import optfield
    nof = optfield.run(chk, P)
    chk.floor("R-OPTFIELD", "optional object fields explored", nof, 4)
    chk.rule("R-CAPRESET", "a function that leaves an array field of the topology NULL (destroy/clear paths) leaves the paired capacity field 0 as well: hwloc_topology_load() clears and re-initialises the same "
             "structure after a failed load, and the next append trusts the recorded capacity (pairs discovered at the allocation sites; must-facts at every exit)")
    import capfield
    capfield.run(_Check("C06-pairs"), P, units=None)      # discovery of the (record, array, capacity) pairs only
    ncr = capfield.reset_with_array(chk, P, rule="R-CAPRESET")
    chk.floor("R-CAPRESET", "functions that leave a counted topology array NULL", ncr, 2)
    chk.rule("R-LOADUNDO", "what hwloc_topology_destroy() releases below the topology and hwloc__topology_init() did not allocate is also released on the failing return of hwloc_topology_load() "
             "that follows the re-initialisation (sets from destroy's releasing calls, init's allocations and must-facts on completed calls): contents of a rejected input do not survive into the next load")
    import loadundo
    nlu = loadundo.run(chk, P, effects.Effects(P))
    chk.floor("R-LOADUNDO", "topology fields released by destroy()", nlu, 3)
    chk.rule("R-MULWIDTH", "a product of numbers converted from XML text that is computed in a type of at most 32 bits cannot wrap: the function is explored with every conversion "
             "forced to return 2^(w/2) (65536 for 32 bits, the smallest value whose square does not fit); the multiplication must be unreachable with that value, however the bound is written")
    import mulwidth
    from prog import ExampleProgram
    nmw = mulwidth.run(chk, P, XML_UNITS)
    ex = _Check("C06-example")
    E = ExampleProgram(["mulwidth.c"])
    mulwidth.run(ex, E, None, funcs=list(E.all_funcs()))
    got = dict((i["function"], i["ok"]) for i in ex.instances)
    want = {"matrix_bad": False, "matrix_weak": False, "matrix_good": True, "matrix_good2": True}
    chk.need(got == want, "R-MULWIDTH: the positive example selftest/examples/mulwidth.c is not judged as expected (%s)" % got)
    chk.inst("R-MULWIDTH", "<example>", "mulwidth.c", got == want, "positive example: fires on the unbounded product and on the bound that lets 65536 through, silent on the division test in a helper and on `>= 0x10000`",
             loc="selftest/examples/mulwidth.c", nontrivial=False)
    chk.floor("R-MULWIDTH", "narrow products of converted numbers in the XML import code + positive example", nmw + 1, 1)
    chk.decided += ['an imported object identifier keeps next_gp_index above it',
                    'a failed load releases the topology-level infos it gathered: the next load on the same topology does not report attributes of the rejected input',
                    'a normal or memory object without cpuset, nodeset, complete_cpuset or complete_nodeset attribute is rejected (the core dereferences all four)',
                    'releasing the CPU-kind array of a topology also resets its recorded capacity (a failed load followed by a second load does not append through NULL)',
                    'a number of objects read from XML is bounded before its square is computed in 32 bits (the distances matrix is allocated and bound-checked with the true number of values)',
                    'a local filled by a fallible reader is not read when the reader failed',
                    "no local allocation of the XML import/diff code is dropped on a path to a return (leak on rarely taken branches, e.g. under NO_CPUKINDS)",
                    'the XML import/diff code never uses a pointer after releasing it (failure paths included)',
                    "a failed hwloc_topology_load() does not leave the topology in the LOADING state (it can be configured and loaded again)",
                    "assertions on scalar parameters of functions called by the XML import cannot fail on values taken from the file (memattr ids)",
                    "enum-typed object attributes read from XML hold an enumerator (cache type, bridge upstream/downstream type): consumers that assert on them cannot abort",
                    "attributes read from XML are stored into the union member that matches the object's type (no type confusion between cache/numanode/group/pcidev/bridge/osdev attributes)",
                    "a failed import never frees an object that is already linked into the tree (no double free / use after free in the cleanup)",
                    "no NULL dereference from a missing attribute (all optional locals of the import functions, all paths)",
                    "array writes driven by XML content stay within the arrays allocated for them (scoped accesses)",
                    "loops of the import code and of the printers make progress", "the failure path of hwloc_look_xml resets every list it releases"]
    chk.undecided += ["absence of leaks / use-after-free in the object-graph code after a successful import", "libxml2 internals", "that a loaded topology satisfies C01 (value-level)"]
    chk.trusted += ["clang 14 front end", "out-parameters (&x) are assigned by the callee on the success path the caller tests", "capacities are non-negative"]
    return "Nullness, capacity and progress dataflow over the three XML units plus the printers."
