"""C18 discovery from Linux/x86 snapshots (structural necessary conditions)."""
from prog import *
import filt, fsroot, progloops, snp, nullness, linkfree, uaf

FILTER_EXC = {
    ("hwloc__duplicate_object", "src->type"): "copies an object that already passed the (copied) filters of the source topology",
    ("hwloc_topology_alloc_group_object", "HWLOC_OBJ_GROUP"): "allocation only: hwloc_topology_insert_group_object tests type_filter[GROUP] == KEEP_NONE before inserting",
    ("hwloc__groups_by_distances", "HWLOC_OBJ_GROUP"): "reached only when topology->grouping is set; hwloc_internal_distances_prepare clears it when Group is KEEP_NONE",
    ("hwloc_pcidisc_add_hostbridges", "HWLOC_OBJ_BRIDGE"): "the only caller tests type_filter[BRIDGE] != KEEP_NONE through its local copy bfilter",
    ("hwloc__xml_import_object", "HWLOC_OBJ_TYPE_MAX"): "placeholder type: the real type is read from the attributes and filtered before insertion by hwloc__xml_import_object itself",
    ("hwloc_look_pci", "type"): "type is PCI_DEVICE or BRIDGE, each tested just above (subtype-important / type filter)",
    ("hwloc_linux_knl_add_cluster", "HWLOC_OBJ_L3CACHE"): "decided separately by evaluation (knl-cache obligations below): created only when hwdata.mcdram_cache_size > 0, which the KNL quirk zeroes when the cache type in use is filtered out",
    ("look_sysfscpu", "HWLOC_OBJ_GROUP"): "clusterset is read only when hwloc_filter_check_keep_object_type(GROUP) holds (line ~5146); NULL otherwise",
    ("look_sysfscpu", "HWLOC_OBJ_DIE"): "dieset is read only when hwloc_filter_check_keep_object_type(DIE) holds; NULL otherwise",
    ("hwloc_linuxfs_pci_look_pcidevices", "type"): "type is PCI_DEVICE or BRIDGE, each tested just above (subtype-important / get_type_filter)",
}
DISC_UNITS = ["topology-linux.c", "topology-x86.c", "topology-hardwired.c", "pci-common.c", "topology-pci.c", "topology.c", "topology-synthetic.c", "topology-xml.c", "distances.c", "topology-noos.c"]


def run(chk, tier):
    P = Program(("lib",))
    chk.units |= set("hwloc/" + u for u in DISC_UNITS)
    chk.rule("R-FILTER", "every object creation site is covered by a passed filter check of ITS type (dominating test, follow-up hwloc_filter_check_keep_object, unfilterable type, or all callers checked); the rest are frozen one per line with the reason read from the code")
    n = filt.creation_sites(chk, P, DISC_UNITS, exceptions=FILTER_EXC)
    chk.floor("R-FILTER", "object creation sites", n, 50)
    # the KNL memory-side cache: created by hwloc_linux_knl_add_cluster() as an L3 (or a MemCache) without a filter test of its own; the quirk
    # zeroes hwdata.mcdram_cache_size when the type in use is filtered out.  Decided by evaluation in two steps:
    import peval, guards
    u = P.unit("topology-linux.c")
    q = P.need_func("hwloc_linux_knl_numa_quirk", "topology-linux.c")
    L3, MC = u.enum_consts.get("HWLOC_OBJ_L3CACHE"), u.enum_consts.get("HWLOC_OBJ_MEMCACHE")
    from prog import src, strip, args
    guards.unreachable_under(chk, P, "hwloc_linux_knl_add_cluster", "topology-linux.c", [{"knl_hwdata->mcdram_cache_size": 0}], "hwloc_alloc_setup_object",
                             "R-FILTER", "knl-cache:size0", "with knl_hwdata->mcdram_cache_size == 0 hwloc_linux_knl_add_cluster() creates no cache object (the Group it may create has its own filter test)",
                             only=lambda c: len(args(c)) > 1 and src(strip(args(c)[1])) != "HWLOC_OBJ_GROUP")
    # in the quirk: whichever way HWLOC_KNL_MSCACHE_L3 is set, when the filter of the type in use rejects it every call of
    # hwloc_linux_knl_add_cluster() is made with hwdata.mcdram_cache_size == 0
    for as_l3, keep in ((1, {L3: 0, MC: 1}), (0, {L3: 1, MC: 0})):
        seen = set()
        def obs(nd, env, seen=seen, as_l3=as_l3):
            if nd["k"] == "Call" and nd.get("fn") == "hwloc_linux_knl_add_cluster":
                v = env.get("mscache_as_l3")
                if v is None or bool(v) == bool(as_l3):
                    seen.add((nd.get("l"), env.get("hwdata.mcdram_cache_size")))
        try:
            peval.PathEval(P, q, {}, is_effect=lambda *z: False, through_effects=True, observe=obs, maxstates=200000, split={"mscache_as_l3": (0, 1)},
                           call_values={"hwloc_filter_check_keep_object_type": (lambda c, a, keep=keep: keep.get(a[1] if len(a) > 1 else None))},
                           track={"mscache_as_l3", "hwdata.mcdram_cache_size"}).run()
            bad = sorted((l, v) for l, v in seen if v != 0)
            chk.need(len(seen) >= 4, "R-FILTER: calls of hwloc_linux_knl_add_cluster() seen by the evaluation of the KNL quirk (%d)" % len(seen))
            chk.inst("R-FILTER", q, "knl-cache:filtered(as_l3=%d)" % as_l3, not bad, "with the %s filter rejecting the type in use (HWLOC_KNL_MSCACHE_L3 %s) every call of hwloc_linux_knl_add_cluster() is made with "
                     "hwdata.mcdram_cache_size == 0 (%d call sites evaluated%s)" % ("L3Cache" if as_l3 else "MemCache", "non-zero" if as_l3 else "zero", len(set(l for l, _ in seen)),
                                                                                  "; not so at line %s where it is %s" % bad[0] if bad else ""))
        except AnalysisBroken as ex:
            chk.broke("R-FILTER: hwloc_linux_knl_numa_quirk not evaluable (%s)" % ex)
    chk.rule("R-ERRCLEAN", "a failing return does not bypass the function's own cleanup: once the function has jumped to a cleanup label (discovered: its code releases something), every later failing return has made the label's releases itself on every path (must-facts on completed calls) -- otherwise what was built so far leaks")
    import errclean
    nec = errclean.run(chk, P, ["topology-linux.c", "topology-x86.c", "pci-common.c", "topology-pci.c"])
    chk.floor("R-ERRCLEAN", "failing returns past a cleanup jump", nec, 1)
    import uninit
    uninit.wire(chk, P, ["topology-linux.c", "topology-x86.c", "pci-common.c", "topology-pci.c"], 30, 6)
    chk.rule("R-NULLELEM", "an array element that is tested for NULL somewhere in a function is not dereferenced unguarded elsewhere in it (missing files leave holes in node arrays)")
    ne = filt.null_elements(chk, P, ["topology-linux.c", "topology-x86.c"])
    chk.floor("R-NULLELEM", "tested-element dereferences", ne, 2)
    chk.rule("R-FSROOT", "in topology-linux.c raw file-system calls are made only by the *at wrappers and the frozen owners; everything else goes through a wrapper with the backend's root fd")
    nf = fsroot.run(chk, P)
    chk.floor("R-FSROOT", "raw file-system call sites (owners)", nf, 10)
    chk.rule("R-UAF", "no use of a pointer after it was released: may-dataflow on released lvalues (free, hwloc_bitmap_free, hwloc_free_unlinked_object, closedir, ...), killed by re-assignment, with a correlated-condition path search and whole-program constant fields to discard infeasible paths")
    nua = uaf.run(chk, P, units=('topology-linux.c', 'topology-x86.c', 'pci-common.c', 'topology-pci.c', 'topology-hardwired.c'))
    chk.floor("R-UAF", "release sites examined", nua, 150)
    chk.rule("R-BUFSIZE", "a heap buffer handed to an snprintf-like producer (any function with an adjacent writable (char *, size) parameter pair) is handed over with exactly its allocated size (allocation and size expressions compared after resolving named temporaries and realloc aliases)")
    import bufsize
    nbs = bufsize.run(chk, P, units=('topology-linux.c', 'topology-x86.c'))
    chk.floor("R-BUFSIZE", "heap buffers handed to producers", nbs, 1)
    chk.rule("R-LINKFREE", "an object handed to an insertion function (which links, merges-and-frees or frees it) is never released afterwards by its creator: no feasible path from an insertion of x to hwloc_free_unlinked_object(x) (may-dataflow + correlated-condition path search)")
    nlf = linkfree.run(chk, P, units=("topology-linux.c", "topology-x86.c", "pci-common.c", "topology-pci.c", "topology.c"))
    chk.floor("R-LINKFREE", "release sites in the discovery code and the core", nlf, 12)
    chk.rule("R-SNPSIZE", "snprintf into fixed path buffers bounded by sizeof")
    ns = snp.fixed_buffers(chk, P, ["topology-linux.c", "topology-x86.c", "topology-pci.c", "pci-common.c"])
    chk.floor("R-SNPSIZE", "fixed-buffer snprintf sites", ns, 60)
    chk.rule("R-PROG", "loop progress in the discovery code")
    nl = progloops.run(chk, P, ["topology-linux.c", "topology-x86.c", "pci-common.c", "components.c"])
    chk.floor("R-PROG", "in-scope loops", nl, 60)
    chk.rule("R-CONSUMED", "a pointer handed to a function that takes ownership of it (discovered per function and parameter by exploring it: every exit -- or every successful exit -- has released the parameter, "
             "stored it into a field that the program releases, or handed it to such a function) is not released again by the caller: callers explored with callee outcomes forked into failed / succeeded")
    import consumed
    ncs, cfound = consumed.run(chk, P, ["topology-linux.c", "topology-x86.c", "pci-common.c", "topology-pci.c", "topology-synthetic.c"])
    chk.floor("R-CONSUMED", "call sites of ownership-taking functions", ncs, 4)
    chk.floor("R-CONSUMED", "ownership-taking functions discovered", len(cfound), 2)
    chk.rule("R-DANGLE", "a local pointer stored into a field the program releases through (`X->f = p`) and then released by the same function never leaves the field unchanged at an exit: "
             "explored paths store -> release of the same local -> no later store to the field -> exit are reported (the owner would release the block again)")
    import consumed as _consumed
    ndg = _consumed.dangling(chk, P, ["topology-linux.c", "topology-x86.c", "pci-common.c", "topology-pci.c", "topology-hardwired.c"])
    chk.floor("R-DANGLE", "stores of a local into an owning field", ndg, 4)
    chk.rule("R-SPRINTF", "unbounded sprintf() into a fixed-size local buffer of the discovery backends fits for the longest text its format can produce (worst-case length per conversion, counted loops exact)")
    import sprintfmax
    nsp, nspj = sprintfmax.run(chk, P, ["topology-linux.c", "topology-x86.c", "pci-common.c", "topology-pci.c", "topology-hardwired.c", "topology-noos.c"])
    chk.floor("R-SPRINTF", "sprintf sites into fixed local buffers judged", nsp, 10)
    if nspj:
        chk.notes.append("R-SPRINTF: %d sprintf sites not judged (a %%s argument that is not a literal or a literal-returning function)" % nspj)
    chk.decided += ['a failed step never leaves an owning field pointing at a block the function has already released (no dangling pointer for the destructor to release again)',
                    'arrays handed to a function that takes ownership of them (hwloc_internal_distances_add: attached on success, freed on failure) are not freed again by the caller',
                    'a value read from a sysfs/procfs file into an unset local is not used when the read failed; a pointer left NULL by a failed parser is not dereferenced',
                    'the KNL memory-side cache obeys the filter of the type in use',
                    'failing returns past a cleanup jump have released what the label releases',
                    'heap path/line buffers are filled with their allocated size',
                    'the discovery code never uses a pointer after releasing it (a freed array handed on, a stale handle)',
                    "no filtered type is created at the covered creation sites (under every filter assignment)", "discovery cannot read the live machine when a snapshot root is set: raw file access only in the wrappers",
                    "holes left by missing files in node arrays are not dereferenced where the code elsewhere expects them", "path buffers are not overrun; loops make progress"]
    chk.undecided += ["that the loaded topology satisfies C01 for a given mutilated snapshot", "load determinism as equality of values", "every use of a failed sysfs read (R-ERR of the design was not built: idiom set too large to make exact in the time available)"]
    chk.trusted += ["clang 14 front end", "the frozen R-FILTER exceptions (each read in the source)"]
    return "Must-fact dataflow on creation sites, who-may-call table for raw file access, contradiction rule on array elements."
