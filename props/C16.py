"""C16 topology diffs."""
from prog import Program
import effects, flags, diffrules, atomic, nullness, errno_rule, peval, union


def run(chk, tier):
    P = Program(("lib",))
    E = effects.Effects(P)
    chk.units |= {"hwloc/diff.c", "hwloc/topology-xml.c"}
    chk.rule("R-NULLFIELD", "values handed to the diff-entry producer are proved non-NULL on the path (must-fact dataflow)")
    n = diffrules.producers_nonnull(chk, P)
    chk.floor("R-NULLFIELD", "producer arguments checked", n, 6)
    chk.rule("R-REVERSE", "roll-back uses exactly the REVERSE-flipped flags over the applied prefix; arms select old/new by opposite senses")
    diffrules.cancel_symmetry(chk, P)
    diffrules.apply_arms_symmetric(chk, P)
    chk.rule("R-ATOMIC", "hwloc_apply_diff_one cannot fail after it has written the object (all paths, constant propagation)")
    nf = atomic.check(chk, P, E, "hwloc_apply_diff_one", "diff.c", atomic.topo_writes(E, arg_indices=(0, 1)))
    chk.floor("R-ATOMIC", "failure returns of hwloc_apply_diff_one", nf, 4)
    chk.rule("R-UNION", "the type-specific attribute union obj->attr is accessed only under a matching obj->type: every self-discriminating function is explored once per object type (21 values, product for two objects) by seeded constant propagation; guards are evaluated, not pattern-matched")
    nun, nuf = union.run(chk, P, units=('diff.c',))
    chk.floor("R-UNION", "union accesses judged", nun, 6)
    chk.rule("R-BUFSIZE", "a heap buffer handed to an snprintf-like producer (any function with an adjacent writable (char *, size) parameter pair) is handed over with exactly its allocated size (allocation and size expressions compared after resolving named temporaries and realloc aliases)")
    import bufsize
    nbs = bufsize.run(chk, P, units=('topology-xml-nolibxml.c',))
    chk.floor("R-BUFSIZE", "heap buffers handed to producers", nbs, 1)
    chk.rule("R-FLAGS", "flag words of build/apply (see C10)")
    ns, nw = flags.run(chk, P, "C16", effects=E)
    chk.floor("R-FLAGS", "entry points", ns, 2)
    chk.rule("R-NULLATTR", "optional attributes of a diff XML entry (see C06)")
    N = nullness.Nullness(P)
    v, us = N.run(chk, "topology-xml.c", funcs=["hwloc__xml_import_diff_one", "hwloc__xml_import_diff"])
    chk.floor("R-NULLATTR", "optional pointers in hwloc__xml_import_diff_one", v, 5)
    chk.rule("R-REFRESHFIRST", "hwloc_topology_diff_build refreshes the distances of EACH of its two topologies before walking that topology's list (must-facts, per argument): the cached object pointers it compares are otherwise NULL (after a dup) or dangling (after a restrict)")
    import lists
    nrf = lists.refresh_first(chk, P, only=("hwloc_topology_diff_build",))
    chk.floor("R-REFRESHFIRST", "distances-list reads in hwloc_topology_diff_build", nrf, 2)
    chk.rule("R-EMPTYOK", "a local filled through an out-parameter is not read when the callee succeeded without storing anything: readers with an EMPTY non-negative result (all exits with that value leave the "
             "out-parameter untouched while another value stores it) are discovered; callers passing the address of an uninitialised local are explored with the result forced to each empty value")
    import emptyok
    neo, eofound = emptyok.run(chk, P, ["topology-xml-nolibxml.c", "topology-xml.c", "topology-xml-libxml.c", "diff.c", "traversal.c"])
    chk.floor("R-EMPTYOK", "call sites of readers with an empty successful outcome", neo, 1)
    chk.decided += ['the built-in diff importer does not read the tag of a root element that was not found (a buffer starting with a closing tag)',
                    'diff_build refreshes the distances of both topologies before comparing them',
                    'the diff XML buffer export re-runs with the size of the reallocated buffer',
                    'diff compares type-specific attributes only under the matching object type of both objects',
                    "a diff that build returns can be applied and exported: no NULL value strings are produced (all producer sites, all paths)",
                    "the N-th entry failing leaves the topology as before: apply_diff_one never fails after writing; roll-back re-applies the prefix with REVERSE flipped; returns -N",
                    "REVERSE symmetry of the three arms", "flag validation and EPERM/EINVAL prefixes", "diff XML import never dereferences a missing attribute"]
    chk.undecided += ["apply(build(A,B)) makes A equal to B (value)", "TOO_COMPLEX exactly when something inexpressible differs (comparison extents are value-level)"]
    chk.trusted += ["clang 14 front end", "effect summaries (may-write) of lib/effects.py"]
    return "Must-fact dataflow on producers, constant-propagating path exploration for failure atomicity and flag words, evaluation of the roll-back flag expression."
