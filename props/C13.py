"""C13 distances."""
from prog import Program
import effects, flags, cap, extent, lists, atomic

FIELDS = [("hwloc_internal_distances_s", f) for f in ("values", "indexes", "objs", "different_types")] + [("hwloc_distances_s", "objs"), ("hwloc_distances_s", "values")]


def run(chk, tier):
    P = Program(("lib",))
    E = effects.Effects(P)
    chk.units |= {"hwloc/distances.c", "hwloc/topology-xml.c", "hwloc/diff.c", "hwloc/shmem.c"}
    chk.rule("R-FLAGS", "kind/flags words of all distances entry points (see C10)")
    ns, nw = flags.run(chk, P, "C13", effects=E)
    chk.floor("R-FLAGS", "entry points", ns, 9)
    chk.rule("R-CAP", "caller-capacity out-array: stores guarded by nr < *nrp, counter incremented unconditionally")
    no, _ = cap.run(chk, P, "distances.c", funcs=["hwloc__distances_get"], out_arrays={"hwloc__distances_get": {"distancesp": "(*nrp)"}})
    chk.floor("R-CAP", "out-array accesses in hwloc__distances_get", no, 2)
    chk.rule("R-EXTENT", "bulk operations on one distances array field agree on their extent")
    ne = extent.run(chk, P, list(P.units), fields=set(FIELDS))
    chk.floor("R-EXTENT", "bulk operations on distances arrays", ne, 11)
    chk.rule("R-GUARDKILL", "a transform nulls an object only under is_nvswitch() of that object")
    ng = lists.guarded_kill(chk, P)
    chk.floor("R-GUARDKILL", "NULL stores into objs[] in transforms", ng, 1)
    chk.rule("R-REFRESHFIRST", "every reader of the distances list refreshes it first")
    nr = lists.refresh_first(chk, P)
    chk.floor("R-REFRESHFIRST", "consumer sites", nr, 5)
    chk.rule("R-SIBLING", "file and buffer export variants make the same preparatory calls")
    lists.sibling_prep(chk, P, [("hwloc_topology_export_xml", "hwloc_topology_export_xmlbuffer", "topology-xml.c")])
    chk.rule("R-UNLINK", "list removal updates both directions")
    nu = lists.list_unlink(chk, P, [], "distances.c")
    chk.floor("R-UNLINK", "removal sites of the distances list", nu, 1)
    chk.rule("R-SENTINEL", "an invalid depth is rejected: with hwloc_get_depth_type() forced to its failure value (hwloc_obj_type_t)-1, every distances entry point that calls it "
             "returns -1 with errno EINVAL and writes nothing (explored by seeded constant propagation with the callee's result forced)")
    import peval
    from prog import AnalysisBroken
    nsn = 0
    for f in P.unit("distances.c").funcs(only_main=True):
        if f.entry is None or not list(f.calls("hwloc_get_depth_type")):
            continue
        nsn += 1
        try:
            out = peval.PathEval(P, f, {}, is_effect=atomic.topo_writes(E, arg_indices=(0,)), call_values={"hwloc_get_depth_type": 0xffffffff}, markers={"hwloc_get_depth_type"}, through_effects=True, dirty_paths=True, maxstates=40000).run()
        except AnalysisBroken as ex:
            chk.broke("R-SENTINEL: %s not evaluable (%s)" % (f.name, ex))
            continue
        # only the returns reached after the (failed) depth lookup are judged
        rets = [t for t in out.terminals if t[0] == "return" and any(isinstance(x, frozenset) and "hwloc_get_depth_type" in x for x in t[5:])]
        bad = [t for t in rets if not (t[1] == -1 and str(t[2]) == str(peval.EINVAL) and not t[-1])]
        chk.inst("R-SENTINEL", f, "invalid-depth", bool(rets) and not bad, "with hwloc_get_depth_type() == (hwloc_obj_type_t)-1 every return is -1/EINVAL with nothing written (%d returns explored%s)" % (
            len(rets), "" if not bad else "; offending: value %s errno %s dirty %s at %s" % (bad[0][1], bad[0][2], bad[0][-1], bad[0][3])))
    chk.floor("R-SENTINEL", "distances entry points taking a depth", nsn, 2)
    chk.rule("R-ATOMIC", "argument failures of the add steps happen before the list is linked")
    atomic.check(chk, P, E, "hwloc_distances_add_create", "distances.c", atomic.topo_writes(E, arg_indices=(0,), ignore_paths=("next_dist_id",)), only_errno=22)
    chk.rule("R-PARALLEL", "arrays that run in parallel are compacted together: the array fields of a record that share a count field as extent (discovered from the library's bulk operations) "
             "have all had elements written, on every path, before a function lowers that count (must-dataflow over whole-program may-write summaries)")
    import parallel
    npar, pgroups = parallel.run(chk, P, E, ["distances.c"])
    chk.floor("R-PARALLEL", "count-lowering sites of records with parallel arrays", npar, 1)
    chk.rule("R-RELFAIL", "a pointer handed to a function that releases it on its failing paths (discovered: every failing exit released the parameter, no successful exit did) "
             "is neither passed on nor dereferenced after that call failed: callers explored with callee outcomes forked into failed / succeeded")
    import relfail
    nrf, rfound = relfail.run(chk, P, ["distances.c"])
    chk.floor("R-RELFAIL", "call sites of release-on-failure functions", nrf, 4)
    chk.floor("R-RELFAIL", "release-on-failure functions discovered", len(rfound), 2)
    chk.rule("R-CONSUMED", "a pointer handed to a function that takes ownership of it (discovered per function and parameter by exploring it: every exit -- or every successful exit -- has released the parameter, "
             "stored it into a field that the program releases, or handed it to such a function) is not released again by the caller: callers explored with callee outcomes forked into failed / succeeded")
    import consumed
    ncs, cfound = consumed.run(chk, P, ["distances.c", "topology-xml.c"])
    chk.floor("R-CONSUMED", "call sites of ownership-taking functions", ncs, 6)
    chk.floor("R-CONSUMED", "ownership-taking functions discovered", len(cfound), 2)
    chk.rule("R-SCANZERO", "a loop that examines every element of a caller-supplied array (pointer parameter indexed by the loop variable, bounded by an integer parameter) starts at element 0, "
             "unless the function deals with the skipped elements elsewhere (A[0], A[i-1], *A)")
    import scanzero
    nsz = scanzero.run(chk, P, ["distances.c", "memattrs.c", "cpukinds.c"])
    chk.floor("R-SCANZERO", "loops over caller-supplied arrays", nsz, 3)
    chk.rule("R-COMPACTALL", "a helper that compacts several parallel arrays (discovered: >= 3 pointer parameters each with an element move `P[i] = P[j]`) moves elements inside every one of them "
             "when all are present (explored with every pointer argument non-NULL): no two compactions are exclusive")
    import compactall
    nca = compactall.run(chk, P, ["distances.c"])
    chk.floor("R-COMPACTALL", "parallel arrays of compaction helpers", nca, 3)
    chk.decided += ['the validation of the objects handed to hwloc_distances_add_values() covers every slot (a NULL object is rejected wherever it is)',
                    'arrays handed to a function that takes ownership of them (hwloc_internal_distances_add: attached on success, freed on failure) are not freed again by the caller',
                    'objs, indexes, different_types and values are compacted together when objects disappear',
                    'a distances handle is not used again after a backend call that released it failed',
                    "an invalid depth (hwloc_get_depth_type failure) is rejected with EINVAL before anything is removed or returned",
                    "invalid kinds / unknown flags rejected with EINVAL before any effect (all words)", "*nr reports the number of matches even when the array is smaller (capacity dataflow)",
                    "bulk copies/compares of distances arrays have the allocation's extent", "transforms keep every non-switch object (guarded kill)",
                    "returned structures reference objects of this topology: every reader refreshes first; file/buffer export agree"]
    chk.undecided += ["exact sub-matrix extraction after restrict (index arithmetic)", "grouping results"]
    chk.trusted += ["clang 14 front end"]
    return "Flag-word evaluation, capacity dataflow, extent agreement, must-fact dataflow on transforms and readers."
