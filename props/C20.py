"""C20 command-line tools compute what the library API defines (narrow: tables, who-may-call, crash discipline)."""
from prog import *
import re
import setkind, nullness, progloops, must

UTIL_UNITS = ["hwloc-calc.c", "hwloc-distrib.c", "hwloc-diff.c", "hwloc-patch.c", "hwloc-info.c", "hwloc-bind.c", "hwloc-annotate.c"]
LSTOPO_UNITS = ["lstopo.c", "lstopo-xml.c", "lstopo-text.c"]
OPS = {"HWLOC_CALC_APPEND_ADD": "hwloc_bitmap_or", "HWLOC_CALC_APPEND_CLR": "hwloc_bitmap_andnot", "HWLOC_CALC_APPEND_AND": "hwloc_bitmap_and", "HWLOC_CALC_APPEND_XOR": "hwloc_bitmap_xor"}
PREFIX = {ord("~"): "HWLOC_CALC_APPEND_CLR", ord("x"): "HWLOC_CALC_APPEND_AND", ord("^"): "HWLOC_CALC_APPEND_XOR"}


def run(chk, tier):
    P = Program(("lib", "utils", "lstopo"))
    chk.units |= set("utils/hwloc/" + u for u in UTIL_UNITS) | set("utils/lstopo/" + u for u in LSTOPO_UNITS) | {"utils/hwloc/hwloc-calc.h", "utils/hwloc/misc.h"}
    calc = P.unit("hwloc-calc.c")
    chk.rule("R-SIBLING", "the walker that counts the objects of a level inside the given sets and the walker that returns the i-th of them apply the same filter: "
             "each is evaluated under every feasible valuation of the filter predicates (forced call results) and the accepted sets are compared")
    import sibling
    nsv = sibling.filter_agreement(chk, P, "hwloc-calc.c", "hwloc_calc_get_nbobjs_inside_sets_by_depth", "hwloc_calc_get_obj_inside_sets_by_depth")
    chk.floor("R-SIBLING", "walker pairs compared", 1 if nsv else 0, 1)     # a filter shared through one helper leaves a single predicate: still a comparison
    chk.rule("R-TAB", "hwloc-calc operator table: prefix character -> append mode -> bitmap combinator (extracted from the AST)")
    f = calc.func("hwloc_calc_append_set")
    if not chk.need(f is not None, "R-TAB: hwloc_calc_append_set vanished"):
        return "broken"
    E = calc.enum_consts
    # decided by evaluation: with the mode parameter seeded to each enumerator, exactly the expected combinator is reached, applied
    # to (set, set, newset); with the first character of the argument seeded to each prefix, hwloc_calc_append_set is given the mode
    import peval
    pm = [p["n"] for p in f.params]
    modep = [p["n"] for p in f.params if "mode" in f.unit.types[p["t"]].get("s", "")] or ["mode"]
    for mode, fn in OPS.items():
        seen_calls = []
        def obs(nd, env, seen_calls=seen_calls):
            if nd["k"] == "Call" and nd.get("fn") in OPS.values():
                seen_calls.append((nd["fn"], [lv(z) for z in args(nd)]))
        try:
            peval.PathEval(P, f, {modep[0]: E.get(mode)}, is_effect=lambda *z: False, through_effects=True, observe=obs, maxstates=20000).run()
        except AnalysisBroken as ex:
            chk.broke("R-TAB: hwloc_calc_append_set not evaluable (%s)" % ex)
            continue
        ok = bool(seen_calls) and all(c[0] == fn and c[1][0] == c[1][1] == pm[0] and c[1][2] == pm[1] for c in seen_calls)
        chk.inst("R-TAB", f, "mode:" + mode, ok, "with mode == %s exactly %s(%s, %s, %s) is reached (reached: %s)" % (mode, fn, pm[0], pm[0], pm[1], sorted(set(c[0] for c in seen_calls))))
    g = calc.func("hwloc_calc_process_location_as_set")
    if chk.need(g is not None, "R-TAB: hwloc_calc_process_location_as_set vanished"):
        argp = [p["n"] for p in g.params if "char" in g.unit.types[p["t"]].get("s", "")]
        cases = dict(PREFIX)
        cases[ord("a")] = "HWLOC_CALC_APPEND_ADD"
        for ch, mode in sorted(cases.items()):
            got = set()
            def obs2(nd, env, got=got):
                if nd["k"] == "Call" and nd.get("fn") == "hwloc_calc_append_set" and len(args(nd)) >= 3:
                    got.add(peval.Evaluator(g, env).ev(args(nd)[2]))
            try:
                peval.PathEval(P, g, {"(*%s)" % argp[0]: ch}, is_effect=lambda *z: False, through_effects=True, observe=obs2, maxstates=40000).run()
            except (AnalysisBroken, IndexError) as ex:
                chk.broke("R-TAB: hwloc_calc_process_location_as_set not evaluable (%s)" % ex)
                continue
            name = "prefix:%s" % chr(ch) if ch != ord("a") else "prefix:none"
            chk.inst("R-TAB", g, name, got == {E.get(mode)}, "with the first character %r every hwloc_calc_append_set call is given %s (values seen: %s)" % (chr(ch), mode, sorted(got, key=str)))
    chk.rule("R-SETKIND", "cpusets and nodesets never mixed in the tools (bitmap operations and argument passing)")
    ns = setkind.run(chk, P, UTIL_UNITS + LSTOPO_UNITS)
    chk.floor("R-SETKIND", "kinded bitmap operations in the tools", ns, 60)
    chk.rule("R-NULLFIELD", "optional object names/subtypes are tested before being used as strings")
    nn = nullness.nullable_fields(chk, P, UTIL_UNITS + LSTOPO_UNITS)
    chk.floor("R-NULLFIELD", "string uses of object name/subtype in the tools", nn, 10)
    chk.rule("R-NULLATTR", "optional local pointers in the tools (see C06)")
    N = nullness.Nullness(P)
    tv = 0
    for u in UTIL_UNITS:
        v, us = N.run(chk, u)
        tv += us
    chk.floor("R-NULLATTR", "checked uses", tv, 22)
    chk.rule("R-EXPORT", "lstopo's XML and synthetic outputs are the library exports of the topology it loaded")
    for un, fn, callee in (("lstopo-xml.c", "output_xml", "hwloc_topology_export_xml"), ("lstopo-text.c", "output_synthetic", "hwloc_topology_export_synthetic")):
        u = P.unit(un)
        f2 = u.func(fn)
        if not chk.need(f2 is not None, "R-EXPORT: %s vanished" % fn):
            continue
        cs = list(f2.calls(callee))
        ok = len(cs) >= 1 and all(lv(args(c)[0]) in ("topology", "loutput->topology") for c in cs)
        chk.inst("R-EXPORT", f2, "calls:" + callee, ok, "%s exports through %s on the loaded topology (%d call(s))" % (fn, callee, len(cs)))
        others = [c.get("fn") for c in f2.calls() if (c.get("fn") or "").startswith("hwloc_topology_export") and c.get("fn") != callee and not (c.get("fn") or "").startswith(callee)]
        chk.inst("R-EXPORT", f2, "no-other-writer", not others, "no other export routine is used (%s)" % others)
    chk.rule("R-DISTRIB", "hwloc-distrib prints the sets filled by its single hwloc_distrib call")
    d = P.unit("hwloc-distrib.c").func("main")
    if chk.need(d is not None, "R-DISTRIB: main vanished"):
        cs = list(d.calls("hwloc_distrib"))
        ok = len(cs) == 1
        why = ""
        if ok:
            a = args(cs[0])
            arr, cnt = lv(a[3]), src(strip(a[4]))
            mall = [c for c in d.calls(("malloc", "calloc")) if cnt in src(c)]
            ok = bool(mall)
            why = "array %s of %s sets allocated with that count: %s" % (arr, cnt, bool(mall))
        chk.inst("R-DISTRIB", d, "single-call", ok, "one hwloc_distrib call fills the printed array (%s)" % why)
    chk.rule("R-UAF", "no use of a pointer after it was released in the tools (may-dataflow, infeasible paths discarded with correlated conditions and whole-program constant fields)")
    import uaf
    nua = uaf.run(chk, P, units=tuple(UTIL_UNITS + LSTOPO_UNITS + ["lstopo-draw.c", "lstopo-ascii.c", "lstopo-svg.c", "lstopo-fig.c", "lstopo-tikz.c", "lstopo-shmem.c", "misc.h", "hwloc-calc.h", "hwloc-ps.c", "hwloc-gather-cpuid.c", "common-ps.c", "hwloc-dump-hwdata.c"]))
    chk.floor("R-UAF", "release sites examined in the tools", nua, 60)
    chk.rule("R-BUFSIZE", "a heap buffer handed to an snprintf-like producer (any function with an adjacent writable (char *, size) parameter pair) is handed over with exactly its allocated size (allocation and size expressions compared after resolving named temporaries and realloc aliases)")
    import bufsize
    nbs = bufsize.run(chk, P, units=None)
    chk.floor("R-BUFSIZE", "heap buffers handed to producers", nbs, 15)
    chk.rule("R-PROG", "loop progress in the tools")
    nl = progloops.run(chk, P, UTIL_UNITS)
    chk.floor("R-PROG", "in-scope loops", nl, 18)
    import uninit
    uninit.wire(chk, P, UTIL_UNITS + LSTOPO_UNITS + ["lstopo-draw.c", "lstopo-ascii.c", "lstopo-fig.c", "lstopo-svg.c", "lstopo-tikz.c", "lstopo-shmem.c", "hwloc-ps.c", "hwloc-gather-cpuid.c", "hwloc-dump-hwdata.c"], 12, 3)
    chk.rule("R-TRUNCTEST", "the test that decides whether a length-returning producer of the public API (or libc snprintf) truncated treats `length == size` as truncated: every comparison between the result and the size "
             "handed over is evaluated with the length at size-1, size and size+1; its truth value must change exactly between size-1 and size (however the comparison is written)")
    import trunctest, os as _os
    from prog import ExampleProgram
    from report import Check as _Check
    ntt = trunctest.run(chk, P, units=[_os.path.basename(k9) for k9 in P.db if "/utils/" in k9])
    ex = _Check("C20-example")
    EX = ExampleProgram(["trunctest.c"])
    trunctest.run(ex, EX, funcs=list(EX.all_funcs()))
    got = dict((i["function"], i["ok"]) for i in ex.instances)
    okx = got == {"render_bad": False, "render_good": True}
    chk.need(okx, "R-TRUNCTEST: the positive example selftest/examples/trunctest.c is not judged as expected (%s)" % got)
    chk.inst("R-TRUNCTEST", "<example>", "trunctest.c", okx, "positive example: `len > sizeof(buf)` fires, `len + 1 > sizeof(buf)` does not", loc="selftest/examples/trunctest.c", nontrivial=False)
    chk.floor("R-TRUNCTEST", "truncation tests on producer results in the tools + positive example", ntt + 1, 2)
    chk.decided += ["lstopo's synthetic output is re-exported into a large enough buffer whenever the library reports a length that does not fit the first one (boundary of the truncation test)",
                    "hwloc-calc's level width and i-th object use the same inclusion filter (all feasible predicate valuations)",
                    'values filled by fallible readers in the tools are not read after a failure',
                    'buffers allocated by the tools for snprintf-like API calls are handed over with their allocated size (no truncated export)',
                    "hwloc-calc's operators map to the documented set operations", "tools never mix cpusets and nodesets", "no NULL object name/subtype or optional argument pointer is used as a string (no crash on unnamed objects)",
                    "lstopo's XML/synthetic outputs come from the library exports of the loaded topology", "hwloc-distrib prints what its single hwloc_distrib call returned"]
    chk.undecided += ["that the printed set equals the API-computed set", "--largest / -I / -N / --single equivalences", "hwloc-diff | hwloc-patch file equality", "non-zero exit status on every malformed argument"]
    chk.trusted += ["clang 14 front end"]
    return "Table extraction, set-kind lint and nullness dataflow over the tool units."
