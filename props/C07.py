"""C07 synthetic descriptions: safe parsing, export obeys the snprintf contract."""
from prog import Program
import effects, flags, snp, cap, guards, peval, progloops, errno_rule, union

EXPORT_FUNCS = ["hwloc__export_synthetic_update_status", "hwloc__export_synthetic_add_char", "hwloc__export_synthetic_indexes",
                "hwloc__export_synthetic_obj_attr", "hwloc__export_synthetic_obj", "hwloc__export_synthetic_memory_children",
                "hwloc_topology_export_synthetic"]


def run(chk, tier):
    P = Program(("lib",))
    E = effects.Effects(P)
    chk.units.add("hwloc/topology-synthetic.c")
    chk.rule("R-CAP", "difference-bound dataflow: every access to the 128-entry level array (and the heap arrays of the parser) is within capacity on every path; memmove extents included")
    no, nu = cap.run(chk, P, "topology-synthetic.c", funcs=["hwloc_backend_synthetic_init", "hwloc_synthetic_parse_attrs", "hwloc__export_synthetic_indexes"])
    chk.floor("R-CAP", "in-scope array accesses in the synthetic parser", no, 45)
    chk.rule("R-SNP", "snprintf cursor typestate (see C04) incl. pair consistency: a producer is given the size that is advanced with its pointer")
    r = snp.SnpRule(P, ["topology-synthetic.c"])
    for n in EXPORT_FUNCS:
        P.need_func(n, "topology-synthetic.c")
    st = r.run(chk)
    chk.floor("R-SNP", "producer call sites in topology-synthetic.c", st["producers"], 9)
    chk.floor("R-SNP", "cursor advance sites in topology-synthetic.c", st["advances"], 9)
    chk.rule("R-FLAGS", "export flag words: every word classified (see C10)")
    ns, nw = flags.run(chk, P, "C07", effects=E)
    chk.floor("R-FLAGS", "entry points", ns, 1)
    chk.rule("R-ERRNO", "every failure return of the parser has errno set")
    ne = errno_rule.check(chk, P, ["hwloc_backend_synthetic_init", "hwloc_synthetic_parse_attrs", "hwloc_synthetic_parse_memory_attr"],
                          {"hwloc_synthetic_parse_attrs": "int", "hwloc_synthetic_parse_memory_attr": "int"}, unit="topology-synthetic.c")
    chk.floor("R-ERRNO", "failure returns in the synthetic parser", ne, 3)
    chk.rule("R-UNION", "the type-specific attribute union obj->attr is accessed only under a matching obj->type: every self-discriminating function is explored once per object type (21 values, product for two objects) by seeded constant propagation; guards are evaluated, not pattern-matched")
    nun, nuf = union.run(chk, P, units=('topology-synthetic.c',))
    chk.floor("R-UNION", "union accesses judged", nun, 15)
    chk.rule("R-SENTINELSCAN", "an unbounded scan that stops at a zero field (the walk over data->level[] until arity == 0) is called only after the sentinel was planted on every path")
    import sentinel
    nss, nsc = sentinel.run(chk, P, "topology-synthetic.c")
    chk.floor("R-SENTINELSCAN", "calls of functions containing a sentinel scan", nss, 1)
    chk.rule("R-SCANBOUND", "a pointer found by strchr beyond the current item is compared with the item end before use")
    ng = guards.scan_bound(chk, P, "hwloc_backend_synthetic_init", "topology-synthetic.c")
    chk.floor("R-SCANBOUND", "guarded strchr uses", ng, 1)
    chk.rule("R-PROG", "loop progress")
    nl = progloops.run(chk, P, ["topology-synthetic.c"])
    chk.floor("R-PROG", "in-scope loops", nl, 15)
    chk.rule("R-ERRCLEAN", "a failing return does not bypass the function's own cleanup: once the function has jumped to a cleanup label (discovered: its code releases something), every later failing return has made the label's releases itself on every path (must-facts on completed calls) -- otherwise what was built so far leaks")
    import errclean
    nec = errclean.run(chk, P, ["topology-synthetic.c"])
    chk.floor("R-ERRCLEAN", "failing returns past a cleanup jump", nec, 1)
    import uninit
    uninit.wire(chk, P, ["topology-synthetic.c"], 2)
    chk.rule("R-DANGLE", "a local pointer stored into a field the program releases through (`X->f = p`) and then released by the same function never leaves the field unchanged at an exit: "
             "explored paths store -> release of the same local -> no later store to the field -> exit are reported (the owner would release the block again)")
    import consumed as _consumed
    ndg = _consumed.dangling(chk, P, ["topology-synthetic.c"])
    chk.floor("R-DANGLE", "stores of a local into an owning field", ndg, 1)
    chk.decided += ['a failed step never leaves an owning field pointing at a block the function has already released (no dangling pointer for the destructor to release again)',
                    'a failing return of the parser past its first jump to the cleanup label releases what was built',
                    'a union left unfilled by a failed type parser is not read',
                    'inside the export cursor helper the advance is clamped and non-negative on every path',
                    "the level walk of the index parser never reads levels that were not written (sentinel planted before every call)",
                    "synthetic attributes are stored into / exported from the union member matching the level's type",
                    "the parser accepts or rejects without writing outside its fixed/heap arrays (bounds proved on all paths of the scoped accesses)",
                    "rejects with -1/errno set", "export obeys the snprintf length contract (cursor typestate over 7 functions)", "export flag words validated"]
    chk.undecided += ["faithful build (arities, index interleaving)", "export/import structural equality and fixpoint"]
    chk.trusted += ["clang 14 front end", "capacities are non-negative element counts"]
    return "Difference-bound dataflow on the synthetic parser's arrays, cursor typestate on the exporter, seeded constant propagation on flag words."
