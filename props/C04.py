"""C04 bitmap <-> string conversions: snprintf contract (R-SNP), asprintf shape, parser discipline."""
from prog import Program
import snp


def run(chk, tier):
    P = Program(("lib",), only=["bitmap.c"])
    chk.units.add("hwloc/bitmap.c")
    chk.rule("R-SNP", "snprintf cursor typestate on every CFG path: accumulate the raw result, advance pointer and size "
             "together by a clamped amount, guarded direct stores, return the accumulated length / -1")
    r = snp.SnpRule(P, ["bitmap.c"])
    st = r.run(chk)
    chk.floor("R-SNP", "producer call sites in bitmap.c", st["producers"], 13)
    chk.floor("R-SNP", "cursor advance sites in bitmap.c", st["advances"], 10)
    chk.rule("R-SNP-ASPRINTF", "len=F(NULL,0,x); buf=malloc(len+1); return F(buf,len+1,x)")
    snp.asprintf_shape(chk, P, "bitmap.c", [("hwloc_bitmap_asprintf", "hwloc_bitmap_snprintf"),
                                             ("hwloc_bitmap_list_asprintf", "hwloc_bitmap_list_snprintf"),
                                             ("hwloc_bitmap_taskset_asprintf", "hwloc_bitmap_taskset_snprintf")])
    chk.decided += ["snprintf-style functions never write outside [buf,buf+buflen), NUL-terminate when buflen>0, return the untruncated length (structural: cursor typestate)",
                    "asprintf produces the same text and length as snprintf (call shape)"]
    chk.undecided += ["print/parse round-trip equality and stability (value-level)"]
    chk.trusted += ["libc snprintf honours its size argument and returns the untruncated length",
                    "clang 14 AST/CFG of the unit as compiled with the build's flags"]
    return ("Static typestate/dataflow rules over clang's CFG of hwloc/bitmap.c; each obligation is a producer call, "
            "accumulate, clamp, advance, guarded store or return site, checked on all paths reaching it.")
