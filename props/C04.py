"""C04 bitmap <-> string conversions: snprintf contract (R-SNP), asprintf shape, parser discipline."""
from prog import Program
import snp, bitmaprules


def run(chk, tier):
    P = Program(("lib",), only=["bitmap.c"])
    chk.units.add("hwloc/bitmap.c")
    chk.rule("R-SNP", "snprintf cursor typestate on every CFG path: accumulate the raw result, advance pointer and size "
             "together by a clamped amount, guarded direct stores, return the accumulated length / -1")
    r = snp.SnpRule(P, ["bitmap.c"])
    st = r.run(chk)
    chk.floor("R-SNP", "producer call sites in bitmap.c", st["producers"], 9)
    chk.floor("R-SNP", "cursor advance sites in bitmap.c", st["advances"], 7)
    chk.rule("R-SNP-ASPRINTF", "len=F(NULL,0,x); buf=malloc(len+1); return F(buf,len+1,x)")
    snp.asprintf_shape(chk, P, "bitmap.c", [("hwloc_bitmap_asprintf", "hwloc_bitmap_snprintf"),
                                             ("hwloc_bitmap_list_asprintf", "hwloc_bitmap_list_snprintf"),
                                             ("hwloc_bitmap_taskset_asprintf", "hwloc_bitmap_taskset_snprintf")])
    chk.rule("R-DEFINE", "the three parsers define their destination before accumulating into it (result independent of previous contents)")
    nd = bitmaprules.define_before_accumulate(chk, P, ["hwloc_bitmap_sscanf", "hwloc_bitmap_list_sscanf", "hwloc_bitmap_taskset_sscanf"])
    chk.floor("R-DEFINE", "accumulating sites in the parsers", nd, 3)
    chk.rule("R-BUFSIZE", "a heap buffer handed to an snprintf-like producer (any function with an adjacent writable (char *, size) parameter pair) is handed over with exactly its allocated size (allocation and size expressions compared after resolving named temporaries and realloc aliases)")
    import bufsize
    nbs = bufsize.run(chk, P, units=('bitmap.c',))
    chk.floor("R-BUFSIZE", "heap buffers handed to producers", nbs, 2)
    chk.rule("R-WORDIDX", "every word index into a bitmap's ulongs[] is below its word count on every path (abstract interpretation over difference-bound matrices with trace partitioning; "
             "helpers' post-conditions trusted; five functions frozen out of scope with the reason)")
    import zone
    nz_ok, nz_f, nz_out = zone.run(chk, P)
    chk.floor("R-WORDIDX", "word accesses proved in range", nz_ok, 60)
    chk.rule("R-NUL", "a scanner never hands p+k to a string function unless p[0..k-1] are known non-NUL, and a character search from p+1 does not skip an occurrence at p[0] (p is the previous match or p[0] was compared)")
    nn = bitmaprules.nul_discipline(chk, P, "bitmap.c", ["hwloc_bitmap_sscanf", "hwloc_bitmap_list_sscanf", "hwloc_bitmap_taskset_sscanf"])
    # the repaired parsers contain no p+k search any more: the rule must still prove on every run that it can fire (positive example)
    from prog import ExampleProgram
    from report import Check as _Check
    ex = _Check("C04-example")
    bitmaprules.nul_discipline(ex, ExampleProgram(["nul_skip.c"]), "nul_skip.c", ["count_fields_bad", "count_fields_good"])
    fired = sorted(i["construct"] for i in ex.instances if not i["ok"] and i["function"] == "count_fields_bad")
    quiet = not any((not i["ok"]) for i in ex.instances if i["function"] == "count_fields_good")
    chk.need(len(fired) == 2 and quiet, "R-NUL: the positive example selftest/examples/nul_skip.c no longer triggers both obligations (fired: %s, good variant quiet: %s)" % (fired, quiet))
    chk.inst("R-NUL", "<example>", "nul_skip.c", len(fired) == 2 and quiet, "positive example: both obligations fire on count_fields_bad (%s), none on count_fields_good" % fired, loc="selftest/examples/nul_skip.c", nontrivial=False)
    chk.floor("R-NUL", "p+k string-function arguments in the parsers (0 on the repaired tree) + positive example", nn + 1, 1)
    for fn in ("hwloc_bitmap_sscanf", "hwloc_bitmap_list_sscanf", "hwloc_bitmap_taskset_sscanf"):
        f = P.need_func(fn, "bitmap.c")
        from prog import returns, cval
        vals = [cval(r["c"][0]) for r in returns(f) if r.get("c")]
        chk.inst("R-RET", f, "returns-0-or-minus-1", all(v in (0, -1) for v in vals) and len(vals) >= 2, "every return expression is the constant 0 or -1 (%s)" % vals)
    chk.decided += ["word indexes into ulongs[] stay below the word count in every bitmap function but the five listed as out of scope",
                    'the asprintf variants hand the allocated size (len+1) to the snprintf variant',
                    "parsing defines the destination first and never starts a string function past a terminator (scoped sites); returns 0 or -1",
                    "snprintf-style functions never write outside [buf,buf+buflen), NUL-terminate when buflen>0, return the untruncated length (structural: cursor typestate)",
                    "asprintf produces the same text and length as snprintf (call shape)"]
    chk.undecided += ["print/parse round-trip equality and stability (value-level)"]
    chk.trusted += ["libc snprintf honours its size argument and returns the untruncated length",
                    "clang 14 AST/CFG of the unit as compiled with the build's flags"]
    return ("Static typestate/dataflow rules over clang's CFG of hwloc/bitmap.c; each obligation is a producer call, "
            "accumulate, clamp, advance, guarded store or return site, checked on all paths reaching it.")
