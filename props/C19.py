"""C19 shared-memory topologies."""
from prog import Program
import effects, flags, shmem

EPERM_EXC = {
    "hwloc_topology_dup": "duplicating an adopted topology only reads it (the may-effect summary merges source and copy objects; independence of the copy is C12's R-NOALIAS)",
    "hwloc_shmem_topology_get_length": "dups the source into a scratch copy: reads only (same imprecision as hwloc_topology_dup)",
    "hwloc_shmem_topology_write": "dups the source into the new mapping: reads only (same imprecision as hwloc_topology_dup)",
    "hwloc_topology_destroy": "destroy unmaps through hwloc__topology_disadopt: decided by R-DESTROY/R-PRIV",
    "hwloc_topology_insert_group_object": "the EPERM path frees the caller's unlinked Group object (private memory: hwloc_topology_alloc_group_object itself refuses on adopted topologies)",
    "hwloc_distances_add_commit": "acts on a handle that only the guarded hwloc_distances_add_create can hand out",
    "hwloc_distances_add_values": "acts on a handle that only the guarded hwloc_distances_add_create can hand out",
    "hwloc_distances_add": "deprecated wrapper: starts with the guarded hwloc_distances_add_create",
}
TMA_OWNERS = {
    "hwloc_tma_malloc": "the one place that falls back to malloc when no tma is given",
    "tma_get_length_malloc": "length pass: counts the rounded size and allocates for real",
    "hwloc_shmem_topology_adopt": "adopter-private memory by design (struct copy, support arrays, allowed sets)",
}


def run(chk, tier):
    P = Program(("lib",))
    E = effects.Effects(P, opaque=shmem.REFRESHERS)
    chk.units |= {"hwloc/shmem.c", "hwloc/topology.c"} | set("hwloc/" + u for u in P.units)
    chk.rule("R-EPERM", "for every public entry point with a topology parameter: with adopted_shmem_addr set (state LOADED) no CFG path reaches a store/free "
             "into memory living in the shared mapping (seeded constant propagation + effect summaries; lazy cache refreshers assumed done: R-ARGID checks that write() did them)")
    n = shmem.eperm(chk, P, E, exceptions=EPERM_EXC)
    chk.floor("R-EPERM", "public entry points with a topology parameter", n, 100)
    chk.rule("R-PRIV", "every adopter-private allocation made by adopt is released by disadopt")
    np_ = shmem.priv_pairing(chk, P)
    chk.floor("R-PRIV", "private allocations in adopt", np_, 5)
    chk.rule("R-ARGID", "write() refreshes distances and memattrs of the COPY after the dup")
    shmem.write_refreshes_copy(chk, P)
    chk.rule("R-HDR", "every header field is written by write and compared by adopt before mmap; EBUSY under mmap_res != address; ABI check")
    shmem.header_rule(chk, P)
    chk.rule("R-ALIGN", "length pass and write pass round allocations identically; header room reserved by get_length covers the header offset")
    shmem.align_rule(chk, P)
    chk.rule("R-DESTROY", "destroy tests the adopted case first")
    shmem.destroy_rule(chk, P)
    chk.rule("R-TMA", "no plain allocator in tma-aware functions (the duplication path)")
    nt = shmem.tma_rule(chk, P, owners=TMA_OWNERS)
    chk.floor("R-TMA", "tma-aware functions", nt, 14)
    chk.rule("R-FLAGS", "flag words of the three shmem entry points (ZERO)")
    ns, nw = flags.run(chk, P, "C19", effects=E)
    chk.floor("R-FLAGS", "entry points", ns, 3)
    chk.rule("R-INITFINI", "adopt's (and every other function's) error paths release the process-wide component reference only if they hold one (see C17)")
    import refcount
    nrf = refcount.run(chk, P)
    chk.floor("R-INITFINI", "release sites of the component reference count", nrf, 5)
    chk.decided += ["adopt's error paths release the component reference only when they hold one",
                    "every structure-modifying public call on an adopted topology is refused before it can touch the mapping (all public entry points with a topology parameter)",
                    "hwloc_topology_allow operates on adopter-private sets", "mismatching header fields -> EINVAL, unavailable range -> EBUSY (structure)",
                    "get_length suffices for write (same traversal, same rounding, header room; everything on the duplication path goes through the tma)",
                    "destroy unmaps and releases exactly the private allocations"]
    chk.undecided += ["equality of the adopted topology's export with the original's (value)", "functions that take only an object (hwloc_obj_add_info): no topology to test"]
    chk.trusted += ["clang 14 front end", "effect summaries (may-write) with the external table", "an adopted topology has state LOADED and is never INIT/LOADING"]
    return "Seeded constant propagation over all public entry points with effect summaries; structural pairing/identity/header/rounding rules on shmem.c."
