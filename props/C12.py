"""C12 hwloc_topology_dup: equivalent and independent."""
from prog import Program
import effects, dup, shmem, extent, uaf

OWN_T = [("hwloc__topology_dup", ["new"]), ("hwloc_internal_distances_dup", ["new"]), ("hwloc_internal_distances_dup_one", ["new"]),
         ("hwloc_internal_memattrs_dup", ["new"]), ("hwloc_internal_cpukinds_dup", ["new"]),
         # initialisers called by dup (a field set only here must be in T_DEFAULTED)
         ("hwloc__topology_init", ["topology"]), ("hwloc_topology_setup_defaults", ["topology"]),
         ("hwloc_internal_distances_init", ["topology"]), ("hwloc_internal_memattrs_init", ["topology"]), ("hwloc_internal_cpukinds_init", ["topology"]),
         ("hwloc_pci_discovery_init", ["topology"]), ("hwloc_topology_components_init", ["topology"]), ("hwloc_set_binding_hooks", ["topology"]),
         ("hwloc_internal_distances_prepare", ["topology"]), ("hwloc_reset_normal_type_depths", ["topology"])]
NPRIM_T = 5
T_DEFAULTED = {
    "topology_abi": "constant of this build", "nb_levels_allocated": "allocation bookkeeping of the fresh levels array",
    "userdata": "topology userdata belongs to the application and is not duplicated", "adopted_shmem_addr": "a copy is never an adopted mapping",
    "adopted_shmem_length": "a copy is never an adopted mapping", "tma": "set from the dup's own allocator argument",
    "backend_phases": "a copy has no backends", "backend_excluded_phases": "a copy has no backends", "machine_memory": "discovery-time scratch",
    "pci_has_forced_locality": "discovery-time PCI configuration", "pci_forced_locality_nr": "discovery-time PCI configuration",
    "pci_forced_locality": "discovery-time PCI configuration", "pci_locality_quirks": "discovery-time PCI configuration",
    "nr_blacklisted_components": "configuration consumed by load", "blacklisted_components": "configuration consumed by load",
    "first_pci_locality": "discovery-time PCI locality list", "last_pci_locality": "discovery-time PCI locality list",
}
OWN_O = [("hwloc__duplicate_object", ["newobj"]), ("hwloc__tma_dup_infos", ["newi"]), ("hwloc_alloc_setup_object", ["obj"]), ("hwloc_insert_object_by_parent", ["obj"])]
NPRIM_O = 2
O_DEFAULTED = {"parent": "link set when the copy is attached to its new parent", "next_sibling": "link set by hwloc_insert_object_by_parent",
               "first_child": "link set by hwloc_insert_object_by_parent", "memory_first_child": "link set by hwloc_insert_object_by_parent",
               "io_first_child": "link set by hwloc_insert_object_by_parent", "misc_first_child": "link set by hwloc_insert_object_by_parent"}
T_EXC = {"want_some_cpu_caches": "discovery-time scratch computed by hwloc_topology_load from the filters; never read on a loaded topology"}
SHALLOW = {"userdata": "documented: object userdata pointers are copied verbatim"}
FIELDS = [("hwloc_internal_distances_s", f) for f in ("values", "indexes", "objs", "different_types")] + \
         [("hwloc_internal_memattr_s", "targets"), ("hwloc_internal_memattr_target_s", "initiators")]


def run(chk, tier):
    P = Program(("lib",))
    E = effects.Effects(P)
    chk.units |= {"hwloc/topology.c", "hwloc/distances.c", "hwloc/memattrs.c", "hwloc/cpukinds.c", "hwloc/bitmap.c"}
    chk.rule("R-DUPFIELD", "every field of the duplicated records (from the RecordDecls) is given a value on the copy by dup or by the initialisers it calls")
    # the initialisers listed after the primary duplication functions count only if hwloc__topology_dup really reaches them
    # (call graph): an initialiser that only hwloc_topology_load() runs gives the copy nothing
    reach, work = set(), [OWN_T[0][0]]
    while work:
        fn0 = work.pop()
        if fn0 in reach:
            continue
        reach.add(fn0)
        f0 = P.func(fn0)
        if f0 is not None and f0.entry is not None:
            work += [c0["fn"] for c0 in f0.calls() if c0.get("fn") and P.func(c0["fn"]) is not None]
    own_t = [o for i, o in enumerate(OWN_T) if i < NPRIM_T or o[0] in reach]
    dropped = [o[0] for o in OWN_T if o not in own_t]
    if dropped:
        chk.notes.append("R-DUPFIELD: listed initialisers not reached from hwloc__topology_dup and therefore not counted: %s" % ", ".join(dropped))
    n = dup.dupfield(chk, P, "hwloc_topology", own_t, defaulted=T_DEFAULTED, nprimary=NPRIM_T, exceptions=T_EXC)
    n += dup.dupfield(chk, P, "hwloc_obj", OWN_O, defaulted=O_DEFAULTED, nprimary=NPRIM_O)
    n += dup.dupfield(chk, P, "hwloc_internal_distances_s", [("hwloc_internal_distances_dup_one", ["newdist"])])
    n += dup.dupfield(chk, P, "hwloc_internal_memattr_s", [("hwloc_internal_memattrs_dup", ["imattrs"])])
    n += dup.dupfield(chk, P, "hwloc_internal_cpukind_s", [("hwloc_internal_cpukinds_dup", ["kinds"])])
    n += dup.dupfield(chk, P, "hwloc_infos_s", [("hwloc__tma_dup_infos", ["newi"])])
    chk.floor("R-DUPFIELD", "record fields examined", n, 85)
    chk.rule("R-NOALIAS", "no pointer loaded from the source instance is stored into the copy (value flow through locals), whole-record memcpy re-assigns every pointer field")
    m = 0
    for fn, u, srcp in (("hwloc__duplicate_object", "topology.c", (3,)), ("hwloc__topology_dup", "topology.c", (1,)),
                        ("hwloc_internal_distances_dup_one", "distances.c", (1,)), ("hwloc_internal_distances_dup", "distances.c", (1,)),
                        ("hwloc_internal_memattrs_dup", "memattrs.c", (1,)), ("hwloc_internal_cpukinds_dup", "cpukinds.c", (1,)),
                        ("hwloc__tma_dup_infos", "topology.c", (2,)), ("hwloc_bitmap_tma_dup", "bitmap.c", (1,))):
        m += dup.shallow_copies(chk, P, E, fn, u, srcp, SHALLOW)
    for fn, u in (("hwloc_internal_memattrs_dup", "memattrs.c"), ("hwloc_internal_cpukinds_dup", "cpukinds.c"), ("hwloc__duplicate_object", "topology.c")):
        m += dup.memcpy_pointer_fields(chk, P, fn, u)
    chk.floor("R-NOALIAS", "pointer stores on the copy examined", m, 30)
    chk.rule("R-TRUNCFAIL", "a duplication loop that fails at element i leaves the copy's count at the number of elements it built (i or i+1): explored with the source count seeded, the loop counter exact and every callee / "
             "allocation forked; otherwise the destructor run by the failure path releases entries of the bulk-copied array that still hold the source's pointers")
    import truncfail
    ntf = truncfail.run(chk, P, ["cpukinds.c", "memattrs.c", "distances.c", "topology.c"])
    chk.floor("R-TRUNCFAIL", "count-copying duplication loops with a failing exit", ntf, 1)
    chk.rule("R-SHALLOWELEM", "an array of records copied in bulk by memcpy gets every pointer field of every element re-assigned: must-fact dataflow scoped to one iteration of the loop that walks the "
             "elements (through `E = &D[i]` or `D[i].f`); the facts must hold on every back edge, so an iteration that ends early (`continue`) with a field as copied is reported")
    nse = 0
    for fn, u in (("hwloc_internal_memattrs_dup", "memattrs.c"), ("hwloc_internal_cpukinds_dup", "cpukinds.c")):
        nse += dup.shallow_elements(chk, P, fn, u)
    chk.floor("R-SHALLOWELEM", "pointer fields of bulk-copied elements", nse, 4)
    chk.rule("R-UAF", "no use of a pointer after it was released: may-dataflow on released lvalues (free, hwloc_bitmap_free, hwloc_free_unlinked_object, closedir, ...), killed by re-assignment, with a correlated-condition path search and whole-program constant fields to discard infeasible paths")
    nua = uaf.run(chk, P, units=('topology.c', 'distances.c', 'memattrs.c', 'cpukinds.c'))
    chk.floor("R-UAF", "release sites examined", nua, 100)
    chk.rule("R-CAPFIELD", "the capacity recorded for a heap array (X->*allocated* = F) has the same extent signature as the allocation of that array in the same function (X->A = alloc(E * sizeof ..))")
    import capfield
    ncf = capfield.run(chk, P, units=None)
    chk.floor("R-CAPFIELD", "recorded capacities paired with an allocation", ncf, 5)
    chk.rule("R-LEAK", "a local allocation is released, stored or handed over on every path to a return: may-dataflow on owning locals; a call ends ownership only if the callee's effect summary frees the object or stores/returns the pointer (unknown callees conservatively); infeasible paths discarded with correlated conditions")
    import leak
    nlk = leak.run(chk, P, E, units=('topology.c', 'distances.c', 'memattrs.c', 'cpukinds.c', 'bitmap.c'))
    chk.floor("R-LEAK", "allocation sites examined", nlk, 80)
    chk.rule("R-CACHEINV", "validity flags of pointer caches are cleared and cached object pointers reset on the copy")
    dup.cacheinv(chk, P)
    chk.rule("R-TMA", "no plain allocator on the tma duplication path (see C19)")
    import props.C19 as c19
    shmem.tma_rule(chk, P, owners=c19.TMA_OWNERS)
    chk.rule("R-EXTENT", "sibling agreement on the extent of bulk copies of one array field")
    ne = extent.run(chk, P, list(P.units), fields=set(FIELDS))
    chk.floor("R-EXTENT", "bulk operations on distances/memattr arrays", ne, 11)
    nl = extent.counted_loops(chk, P, list(P.units))
    chk.floor("R-EXTENT", "counted loops over fixed-size array fields", nl, 4)
    chk.rule("R-SIZEOF", "a block operation on typed objects measures the object it operates on: in memcpy/memmove/memcmp/memset(dst, .., [n *] sizeof(X)) the measured size "
             "equals the size of what dst and src point to (records and scalars of known size; byte buffers not judged)")
    import sizeofrule
    nso = sizeofrule.run(chk, P, list(P.units))
    chk.floor("R-SIZEOF", "typed block operations", nso, 40)
    chk.rule("R-DANGLE", "a local pointer stored into a field the program releases through (`X->f = p`) and then released by the same function never leaves the field unchanged at an exit: "
             "explored paths store -> release of the same local -> no later store to the field -> exit are reported (the owner would release the block again)")
    import consumed as _consumed
    ndg = _consumed.dangling(chk, P, ["topology.c", "distances.c", "memattrs.c", "cpukinds.c"])
    chk.floor("R-DANGLE", "stores of a local into an owning field", ndg, 3)
    chk.decided += ['a failed hwloc_topology_dup() does not release memory of the original: the counts of the partly built CPU-kind and memory-attribute arrays are truncated on every failing path',
                    'a failed step never leaves an owning field pointing at a block the function has already released (no dangling pointer for the destructor to release again)',
                    'typed block copies measure the object they copy (sizeof consistency)',
                    'per-slot loops over fixed-size array fields cover every slot',
                    'no local allocation of the duplication code is dropped on a path to a return',
                    'a copy records for each heap array the capacity it was actually allocated with',
                    "the duplication functions' failure paths release each allocation once (no use after release)",
                    "nothing is forgotten: every field of topology/object/distances/memattr/cpukind/infos records is set on the copy",
                    "the copy shares no mutable storage: no source pointer stored in the copy except object userdata; copied arrays have the allocation's extent",
                    "pointer caches are invalidated so that they are rebuilt against the new tree"]
    chk.undecided += ["equality of values / identical XML export", "leak freedom on error paths"]
    chk.trusted += ["clang 14 front end", "flow-insensitive local pointer roots of lib/effects.py"]
    return "Record-field coverage from the RecordDecls, pointer value-flow in the eight duplication functions, validity-flag evaluation, extent agreement."
