"""C05 XML export/import round trip (writer/reader agreement)."""
from prog import Program
import effects, flags, xmltab, lists, snp, slots, union


def run(chk, tier):
    P = Program(("lib",))
    E = effects.Effects(P)
    chk.units |= {"hwloc/topology-xml.c", "hwloc/topology-xml-nolibxml.c", "hwloc/topology-xml-libxml.c"}
    chk.rule("R-XMLTAB", "per XML element: every attribute name and child tag the export side writes is read/dispatched by the import side (names extracted from the AST on both sides)")
    n = xmltab.xmltab(chk, P)
    chk.floor("R-XMLTAB", "exported attribute names and child tags", n, 70)
    chk.rule("R-SUPPORT", "every field of the discovery/cpubind/membind/misc support structs (from the RecordDecls) is exported and imported under the same name")
    ns = xmltab.support(chk, P)
    chk.floor("R-SUPPORT", "support bits", ns, 30)
    chk.rule("R-ESC", "built-in backend: escape and unescape tables are inverse, lengths agree, scan charset equals the escaped set")
    ne = xmltab.escapes(chk, P)
    chk.floor("R-ESC", "escape table facts", ne, 7)
    chk.rule("R-XMLFMT", "import conversions are not narrower than the exported field")
    nf = xmltab.fmt_width(chk, P)
    chk.floor("R-XMLFMT", "sscanf conversions into typed fields", nf, 4)
    chk.rule("R-XMLSLOTS", "both backends fill every callback slot")
    nl = xmltab.slots(chk, P)
    chk.floor("R-XMLSLOTS", "slot facts", nl, 14)
    chk.rule("R-UNION", "the type-specific attribute union obj->attr is accessed only under a matching obj->type: every self-discriminating function is explored once per object type (21 values, product for two objects) by seeded constant propagation; guards are evaluated, not pattern-matched")
    nun, nuf = union.run(chk, P, units=('topology-xml.c',))
    chk.floor("R-UNION", "union accesses judged", nun, 60)
    chk.rule("R-BUFSIZE", "a heap buffer handed to an snprintf-like producer (any function with an adjacent writable (char *, size) parameter pair) is handed over with exactly its allocated size (allocation and size expressions compared after resolving named temporaries and realloc aliases)")
    import bufsize
    nbs = bufsize.run(chk, P, units=('topology-xml.c', 'topology-xml-nolibxml.c'))
    chk.floor("R-BUFSIZE", "heap buffers handed to producers", nbs, 4)
    chk.rule("R-SLOTLEN", "the two XML backends agree on length-delimited text buffers: an implementation of a callback slot that reads a (buffer, length) pair uses the length whenever its sibling does")
    nsl = slots.run(chk, P, E, records=("hwloc__xml_export_state_s", "hwloc_xml_backend_data_s", "hwloc_xml_callbacks"))
    chk.floor("R-SLOTLEN", "(implementation, buffer/length pair) facts", nsl, 6)
    chk.rule("R-REFRESHFIRST", "export refreshes distances before walking them; file and buffer variants make the same preparatory calls")
    lists.refresh_first(chk, P)
    lists.sibling_prep(chk, P, [("hwloc_topology_export_xml", "hwloc_topology_export_xmlbuffer", "topology-xml.c"),
                                ("hwloc_topology_diff_export_xml", "hwloc_topology_diff_export_xmlbuffer", "topology-xml.c")])
    chk.rule("R-FLAGS", "export flag words")
    flags.run(chk, P, "C05", effects=E)
    chk.rule("R-SNP", "the built-in exporter's buffer cursor (see C04)")
    r = snp.SnpRule(P, ["topology-xml-nolibxml.c"])
    st = r.run(chk)
    chk.floor("R-SNP", "producer call sites in the built-in exporter", st["producers"], 10)
    chk.rule("R-SPRINTF", "unbounded sprintf() into a fixed-size local buffer fits for the longest text its format can produce: maximum length from the conversions and argument types (%s from literals or from functions "
             "that only return literals), the function explored with every sprintf returning that maximum and loop counters computed exactly, so that `len += sprintf(tmp+len, ..)` in a counted loop reaches its worst case")
    import sprintfmax
    nsp, nspj = sprintfmax.run(chk, P, ["topology-xml.c", "topology-xml-nolibxml.c", "topology-xml-libxml.c"])
    chk.floor("R-SPRINTF", "sprintf sites into fixed local buffers judged", nsp, 40)
    if nspj:
        chk.notes.append("R-SPRINTF: %d sprintf sites not judged (a %%s argument that is not a literal or a literal-returning function)" % nspj)
    chk.decided += ['the export never writes past its fixed formatting buffers (worst-case length of every sprintf, including lines accumulated over ten entries)',
                    "the built-in exporter's second pass and the base64 helpers are given exactly the size of the buffer allocated for them",
                    'export and import access the attribute union only under the matching object type',
                    "element content (userdata, value arrays) is written with exactly the announced length by both backends",
                    "nothing that is exported is ignored on import (attribute names and child tags, per element)", "every support bit is carried",
                    "what the built-in backend escapes it unescapes", "both backends implement the whole interface", "exports start from refreshed distances; file/buffer variants agree"]
    chk.undecided += ["equality of values after the trip, byte-identical re-export", "libxml2's own behaviour", "the v2 downgrade mapping tables"]
    chk.trusted += ["clang 14 front end", "the element -> import function table in rules/xmltab.py (confirmed by reading)"]
    return "Writer/reader table extraction from the AST of the three XML units, compared per element."
