"""C10 binding calls validate, sanitise, dispatch."""
from prog import Program
import effects, flags, bind, pair

USER_SLOTS = [("hwloc_topology", "userdata_import_cb"), ("hwloc_topology", "userdata_export_cb")]


def run(chk, tier):
    P = Program(("lib",))
    E = effects.Effects(P, user_slots=USER_SLOTS)
    chk.units |= set("hwloc/" + u for u in P.units)
    chk.rule("R-FLAGS", "for every word of the flag family (all combinations of declared bits, every undeclared bit): invalid words fail with "
             "EINVAL before any observable effect, valid words pass validation - seeded constant propagation over the CFG")
    ns, nw = flags.run(chk, P, "C10", effects=E)
    chk.floor("R-FLAGS", "binding entry points with a flags argument", ns, 16)
    chk.floor("R-FLAGS", "(function, flag word) evaluations", nw, 1000)
    chk.rule("R-BIND", "hook calls guarded by a test of the same slot; set/alloc hooks receive the checked result of hwloc_fix_*; "
             "policy check dominates membind hooks; fixers test emptiness and inclusion before success; dummy hooks complete, effect-free, selected on !IS_THISSYSTEM")
    chk.rule("R-ERRNO", "every failure return of an entry point has errno set on its path")
    nh = bind.run(chk, P, E)
    chk.floor("R-BIND", "indirect binding hook call sites", nh, 26)
    nde = bind.dispatch_exclusive(chk, P)
    chk.floor("R-BIND", "explicit-target scenarios (function x PROCESS/THREAD)", nde, 8)
    chk.rule("R-PAIR", "x86 discovery restores the binding it saved on every path (look_procs), OS state save/restore paired")
    pair.run_c10(chk, P, E)
    chk.rule("R-OUTDEF", "the set a binding getter hands back is defined (zero/copy/only/...) before anything is accumulated into it (set/or/set_ith_ulong): the get_* hooks of the Linux backend, their callees "
             "and callbacks are explored as a first invocation (integer parameters 0); a defining call on the same output must have been executed before every accumulating call")
    import outdef
    nod, roots = outdef.run(chk, P)
    chk.floor("R-OUTDEF", "accumulating calls into getter outputs", nod, 5)
    chk.floor("R-OUTDEF", "get_* hooks installed by the Linux backend", len(roots), 6)
    chk.decided += ["the binding read back depends only on OS state, not on what the caller's bitmap held before (outputs defined before accumulation, Linux backend)",
                    "unknown flag bits rejected with EINVAL before any effect (all entry points, all words)",
                    "empty / non-included sets rejected, covering set replaced (fixer structure + every set-hook argument routed through a fixer)",
                    "ENOSYS/errno on every failure path", "foreign topologies: dummy hooks complete, effect-free, report the complete set",
                    "load leaves the caller's binding as found (save/restore pairing in x86 discovery; no other set-binding call reachable from discovery)"]
    chk.undecided += ["live OS round trip (bind, read back, last cpu location)"]
    chk.trusted += ["clang 14 AST/CFG", "effect summaries are may-summaries with the external-function table of lib/effects.py",
                    "a pointer-returning function returns NULL only at literal NULL returns or by propagating a callee failure"]
    return "Seeded constant propagation over every flag word plus must-fact dataflow on hwloc/bind.c and topology-x86.c; effect summaries over the whole library."
