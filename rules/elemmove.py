"""R-COMPACT (whole elements): an element moved inside a counted array is moved whole.

In a function that sets the count of a counted array (infos.array/count, initiators/nr_initiators, ...: the array/count pairs of
R-ARRIDX) -- i.e. that compacts or resizes it -- a field-wise move between two elements of that array  A[x].f = A[y].f  must move
EVERY field of the element record between the same two positions (or use a whole-element assignment / memcpy, which R-COMPACT's
direction clause judges).  A move that carries only some fields leaves the survivor with the dropped entry's other fields (the
location of an initiator with the value of the slot it was moved into).  Field-wise moves in functions that do not set the count
(rank propagation between neighbours, a level inserted by hand) are not compactions and are not judged."""
from prog import *
import zone, tailzero


def run(chk, P, units, rule="R-COMPACT", specs=None):
    specs = specs or zone.GENERIC
    n = 0
    for u in units:
        for f in P.unit(u).funcs(only_main=True):
            if f.entry is None:
                continue
            al = None
            moves = {}      # (rec, array, dst idx text, src idx text) -> {field: node}
            for s in f.walk():
                a = assigned(s)
                if not a or a[1] != "=" or a[2] is None:
                    continue
                def elem(e):
                    e = strip(e)
                    path = []
                    while e is not None and e["k"] == "Member" and not e.get("arrow"):
                        path.append(e["f"])
                        e = strip(e["c"][0])
                    if e is not None and e["k"] == "Sub" and path:
                        return strip(e["c"][0]), src(e["c"][1]), path[-1]
                    return None
                le, re_ = elem(a[0]), elem(a[2])
                if not le or not re_ or le[1] == re_[1] or le[2] != re_[2] or lv(le[0]) is None or lv(le[0]) != lv(re_[0]):
                    continue
                base = le[0]
                flds = set()
                if base["k"] == "Member":
                    flds = {(base.get("rec"), base["f"])}
                elif base["k"] == "Ref":
                    if al is None:
                        al = tailzero._aliases(f)
                    flds = set(al.get(base["n"], ()))
                for rf in flds:
                    if rf in specs:
                        moves.setdefault((rf[0], rf[1], le[1], re_[1]), {})[le[2]] = s
            if not moves:
                continue
            for (rec, arr, di, si), fm in sorted(moves.items(), key=str):
                cnt = specs[(rec, arr)]
                # the function sets the count of this array
                if not any(assigned(z) and strip(assigned(z)[0])["k"] == "Member" and strip(assigned(z)[0])["f"] == cnt and strip(assigned(z)[0]).get("rec") == rec for z in f.walk()):
                    continue
                # element record of the array
                node = list(fm.values())[0]
                le = strip(assigned(node)[0])
                while le["k"] == "Member" and strip(le["c"][0])["k"] != "Sub":
                    le = strip(le["c"][0])
                erec = le.get("rec")
                R = None
                for uu in P.units.values():
                    if erec in uu.records:
                        R = uu.records[erec]
                        break
                if R is None:
                    continue
                allf = [x["n"] for x in R["fields"]]
                missing = [x for x in allf if x not in fm]
                n += 1
                chk.inst(rule, f, "whole-element:%s.%s[%s<-%s]" % (rec, arr, di, si), not missing,
                         "the element of %s.%s moved from [%s] to [%s] field by field is moved whole (%s)%s"
                         % (rec, arr, si, di, ", ".join(allf), "" if not missing else " -- but %s stays behind: the moved entry inherits it from the slot it lands in" % ", ".join(missing)), loc=f.loc(node))
    return n
