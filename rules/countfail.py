"""R-COUNTFAIL: a function that appends to a counted array does not count the new element before it is complete.

Scope (discovered): functions that increment a count field of a record they reach through a parameter (`X->nr_f++`, `X->count += 1`)
and that can fail.  The function is explored with the count seeded, allocations and program callees forked into failed / succeeded:
every FAILING exit must still see the seeded count -- a slot that was counted and then abandoned (its strings or bitmaps not
duplicated) is later enumerated, exported and released as if it were complete."""
from prog import *
import peval

SEED = 7


def run(chk, P, units, rule="R-COUNTFAIL"):
    n = 0
    for u in units:
        for f in P.unit(u).funcs(only_main=True):
            if f.entry is None:
                continue
            T = f.unit.types
            params = set(p["n"] for p in f.params)
            counts = {}
            for x in f.walk():
                a = assigned(x)
                if not a or a[1] not in ("++", "+="):
                    continue
                t = strip(a[0])
                if t["k"] != "Member" or not t.get("arrow"):
                    continue
                if a[1] == "+=" and cval(a[2]) != 1:
                    continue
                k = lv(a[0])
                if not k or k.split("->")[0] not in params:
                    continue
                tt = f.type_of(t)
                if not tt or "w" not in tt or tt.get("ptr"):
                    continue
                counts.setdefault(k, x)
            if not counts:
                continue
            rt = T[f.d["ret"]]
            if rt["s"] == "void":
                continue
            isfail = (lambda v: v == 0) if rt.get("ptr") else (lambda v: v is not None and v < 0)
            env = {k: SEED for k in counts}
            bad = {}
            nfail = [0]
            def obx(kind, nd, e, bad=bad, nfail=nfail, f=f):
                v = None
                if kind == "return" and nd is not None and nd.get("c") and nd["c"][0] is not None:
                    v = peval.Evaluator(f, e).ev(nd["c"][0])
                if v is None or not isfail(v):
                    return
                nfail[0] += 1
                for k in counts:
                    if e.get(k) != SEED:
                        bad.setdefault(k, (f.loc(nd), e.get(k)))
            locals_ = set(v9["n"] for v9 in f.walk() if v9["k"] == "Var" and T[v9["t"]].get("ptr"))
            try:
                peval.PathEval(P, f, env, is_effect=lambda *z: False, through_effects=True, observe_exit=obx, exact_counters=True,
                               track=set(env) | locals_, maxstates=100000).run()
            except AnalysisBroken as ex:
                continue      # not evaluable (too large): not judged
            if not nfail[0]:
                continue
            for k in sorted(counts):
                n += 1
                hit = bad.get(k)
                chk.inst(rule, f, "count:" + k, hit is None,
                         "%s raises `%s`; every failing exit (%d explored) still sees the count it had on entry%s"
                         % (f.name, k, nfail[0], "" if hit is None else " -- but the failing exit at %s is reached with the count %s: the element was counted before it was complete"
                            % (hit[0], "changed" if hit[1] is None else hit[1])), loc=f.loc(counts[k]))
    return n
