"""R-ERRCLEAN: a failing return does not bypass the function's own cleanup.

Belief inference (Engler et al.): a function that jumps to a cleanup label L at some point P states that, from P on, failing
requires the releases made at L.  State only grows, so every later failing `return` (one reachable from the branch that decided
the `goto L`) owes the same releases -- unless each of them already happened on every path to that return (free(path);
closedir(dir); ... return -1;).  A `return -1` past that point without them leaks what the function has built so far
(hwloc_backend_synthetic_init: the sanity checks after the parsing loop returned directly while every failure inside the loop
went through `error:` and hwloc_synthetic_free_levels()).

Cleanup labels are discovered: a label whose code, up to the function's exit, calls a releasing function (free-family, or a function
of the program that itself calls one).  "Already happened" is a must-fact: a completed call of the same function with the same
argument texts on every path to the return.  Functions without cleanup labels are not judged."""
from prog import *
import must, uaf

FREE = set(k for k, v in uaf.RELEASE.items()) | {"munmap", "close", "hwloc_topology_destroy", "hwloc_bitmap_free"}


def _releasers(P):
    out = set(FREE)
    for f in P.all_funcs(only_main=False):
        if f.entry is None or f.name in out:
            continue
        if f.unit.types[f.d["ret"]]["s"] == "void" and any(c.get("fn") in FREE for c in f.calls()):
            out.add(f.name)
    return out


def _reach(f, b0):
    seen, st = set(), [b0]
    while st:
        b = st.pop()
        if b in seen:
            continue
        seen.add(b)
        st.extend(s for s in f.blocks[b]["s"] if s is not None)
    return seen


def run(chk, P, units, rule="R-ERRCLEAN"):
    rel = _releasers(P)
    n = 0
    for u in units:
        for f in P.unit(u).funcs(only_main=True):
            if f.entry is None:
                continue
            lab_block = {}
            for b, blk in f.blocks.items():
                lab = blk.get("lab")
                if lab is not None and f.nodes.get(lab, {}).get("k") == "Label":
                    lab_block[f.nodes[lab].get("label")] = b
            if not lab_block:
                continue
            clean = {}
            region = set()
            for name, b in lab_block.items():
                calls = []
                R = _reach(f, b)
                for bb in R:
                    for e in f.blocks[bb]["e"]:
                        c = f.nodes[e]
                        if c["k"] == "Call" and c.get("fn") in rel:
                            calls.append((c["fn"], tuple(src(strip(a)) for a in args(c))))
                if calls:
                    clean[name] = set(calls)
                    region |= R
            if not clean:
                continue
            preds = {}
            for b, blk in f.blocks.items():
                for s in blk["s"]:
                    if s is not None:
                        preds.setdefault(s, set()).add(b)
            owed = {}     # return node id -> set of (fn, args) owed, with the goto that created the debt
            for g in f.walk():
                if g["k"] != "Goto" or g.get("label") not in clean:
                    continue
                gblk = [b for b, blk in f.blocks.items() if blk.get("t") == g["id"] or g["id"] in blk["e"]]
                if not gblk:
                    continue
                R = set()
                for pb in preds.get(gblk[0], ()):
                    R |= _reach(f, pb)
                for b in R - region:
                    for e in f.blocks[b]["e"]:
                        r = f.nodes[e]
                        if r["k"] == "Return" and r.get("c") and r["c"][0] is not None:
                            v = cval(r["c"][0])
                            if v is not None and v < 0:
                                o = owed.setdefault(r["id"], {})
                                for c in clean[g["label"]]:
                                    o.setdefault(c, (g["label"], g.get("l")))
            if not owed:
                continue
            m = must.Must(f).run()
            for rid, o in sorted(owed.items()):
                r = f.nodes[rid]
                st = m.before.get(rid, frozenset())
                done = set((x[1], tuple(x[2])) for x in st if x[0] == "call")
                missing = sorted(c for c in o if c not in done)
                n += 1
                chk.inst(rule, f, "return#%d" % n if False else "return@%s" % "+".join(sorted(set(o[c][0] for c in o))) + "#%d" % sum(1 for x in owed if x <= rid), not missing,
                         "a failing return after the function started to jump to its cleanup label has made the label's releases itself%s"
                         % ("" if not missing else " -- but this one returns without %s (owed since `goto %s` at line %s): what was built so far leaks"
                            % (", ".join("%s(%s)" % (c[0], ", ".join(c[1])) for c in missing), o[missing[0]][0], o[missing[0]][1])), loc=f.loc(r))
    return n
