"""R-PAIR: save/restore pairing on every path."""
from prog import *
import must, paths


def run_c10(chk, P, E, rule="R-PAIR"):
    # look_procs: after a successful get_cpubind(orig), every path to a function exit passes set_cpubind(orig)
    f = P.need_func("look_procs", "topology-x86.c")
    m = must.Must(f)
    m.run()
    # find the save call: get_cpubind(topology, orig_cpuset, ...) through a local function pointer
    saves = []
    restores = []
    for c in f.calls():
        ce = strip(c["c"][0])
        if c.get("fn") is None and ce["k"] == "Ref":
            if ce["n"] == "get_cpubind":
                saves.append(c)
            elif ce["n"] == "set_cpubind":
                restores.append(c)
    if not chk.need(saves and restores, "R-PAIR: look_procs no longer calls get_cpubind/set_cpubind through its parameters"):
        return
    saved = lv(args(saves[0])[1])
    rest = [c for c in restores if lv(args(c)[1]) == saved]
    chk.inst(rule, f, "restore-call", bool(rest), "a set_cpubind(topology, %s, ...) call restoring the saved binding exists" % saved)
    if not rest:
        return
    # path property on the CFG: from the block after the save succeeded (bitmap non-NULL) every path to exit
    # passes a restore, unless the save failed.  Decide by graph search: remove restore blocks; exit must not be
    # reachable from any *binding-changing* call (set_cpubind with another set).
    changing = [c for c in restores if lv(args(c)[1]) != saved]
    chk.inst(rule, f, "binding-change-sites", len(changing) >= 1, "%d call(s) change the binding during per-PU probing" % len(changing), nontrivial=False)
    rblocks = set(f.elem_block[c["id"]][0] for c in rest if c["id"] in f.elem_block)
    for i, c in enumerate(changing):
        if c["id"] not in f.elem_block:
            continue
        b0 = f.elem_block[c["id"]][0]
        assume = paths.stable_assumptions(f, m.before.get(c["id"], frozenset()))
        w = paths.reach(f, b0, lambda b: b == f.exit, avoid=rblocks, assume=assume)
        chk.inst(rule, f, "restore-after-change#%d" % (i + 1), w is None,
                 "every feasible path from the binding change at %s to the function exit passes set_cpubind(%s)%s" % (
                     f.loc(c), saved, "" if w is None else " -- escaping path through blocks %s" % w), loc=f.loc(c))
    # the restore must use the thread-level saved set obtained by get_cpubind in this function (not another set)
    src_ok = any(lv(args(s)[1]) == saved for s in saves)
    chk.inst(rule, f, "restore-uses-own-save", src_ok, "the restored set %s is the one filled by this function's own get_cpubind call" % saved)
    # and the saved bitmap must be written by nothing else in this function
    writers = []
    for c in f.calls():
        if c in saves:
            continue
        fn = c.get("fn")
        if fn and fn.startswith("hwloc_bitmap_") and args(c) and lv(args(c)[0]) == saved and fn not in ("hwloc_bitmap_free", "hwloc_bitmap_alloc"):
            writers.append(fn)
    for n in f.walk():
        a = assigned(n)
        if a and lv(a[0]) == saved and a[2] is not None:
            r = strip(a[2])
            if not (r["k"] == "Call" and r.get("fn") in ("hwloc_bitmap_alloc",)) and cval(r) != 0:
                writers.append("= " + src(r))
    chk.inst(rule, f, "saved-set-untouched", not writers, "the saved binding %s is produced only by get_cpubind (other writers: %s)" % (saved, writers))
    # who-may-call: within discovery, binding-changing calls only via look_procs
    disc = E.reach("hwloc_discover") if "hwloc_discover" in E.sum else set()
    setters = set()
    for name in disc:
        S = E.sum.get(name)
        if S is None:
            continue
        fn = E.funcs.get(name)
        if fn is None:
            continue
        for c in fn.calls():
            ce = strip(c["c"][0])
            if c.get("fn") in ("sched_setaffinity", "pthread_setaffinity_np", "hwloc_set_cpubind", "hwloc_set_thread_cpubind", "hwloc_set_proc_cpubind",
                               "hwloc_set_membind", "hwloc_set_area_membind", "hwloc_set_proc_membind"):
                setters.add((name, c.get("fn")))
            if c.get("fn") is None and ce["k"] == "Member" and ce.get("rec") == "hwloc_binding_hooks" and ce["f"].startswith("set_"):
                setters.add((name, "hook " + ce["f"]))
    # binding hook implementations themselves and public binding API are reachable only through hook slots; accept
    # functions that *are* hooks (stored in a hwloc_binding_hooks slot) and the public bind.c entry points
    hookimpl = set()
    for (rec, fld), fns in E.slots.items():
        if rec == "hwloc_binding_hooks":
            hookimpl |= fns
    bad = sorted(s for s in setters if s[0] not in hookimpl and not s[0].startswith("hwloc_set_") and s[0] != "look_procs" and E.funcs[s[0]].unit.path.endswith("bind.c") is False)
    chk.inst(rule, "hwloc_discover", "only-look_procs-changes-binding", not bad,
             "binding-changing calls reachable from discovery outside look_procs / hook implementations: %s" % bad[:5])
