"""R-UAF: no use of a pointer after it was released (may-dataflow on local pointer variables and their fields).

free(x) / hwloc_bitmap_free(x) / hwloc_free_unlinked_object(x) ... put the lvalue key x into the 'released' set; assigning x
removes it (typically `x = NULL`), and so does a change of a variable x's key mentions (a[i] after i++).  Any later read of x
-- passing it to a call (including a second release), dereferencing it, copying it -- is a violation, unless no feasible path
leads from the release to the use (correlated stable conditions, as in R-LINKFREE).  Comparisons of the pointer value itself
(x == NULL) are not uses."""
from prog import *
import must, paths

RELEASE = {"free": 0, "hwloc_bitmap_free": 0, "hwloc_free_unlinked_object": 0, "hwloc_free_object_siblings_and_children": 0, "hwloc_internal_distances_free": 0,
           "hwloc__free_infos": None, "closedir": 0, "fclose": 0}


def _idents(k):
    import re
    return set(re.findall(r"[A-Za-z_][A-Za-z_0-9]*", k))


class _Rel(Flow):
    def __init__(self, f, keys):
        Flow.__init__(self, f)
        self.keys = keys
        self.uses = []      # (node, key, release node id)

    def init(self):
        return frozenset()

    def join(self, a, b):
        return a | b

    def _kill(self, st, key):
        if not st:
            return st
        base = key
        return frozenset(x for x in st if not (x[0] == key or x[0].startswith(key + "->") or x[0].startswith(key + ".") or x[0].startswith(key + "[")
                                               or (key.isidentifier() and key in _idents(x[0]) and x[0] != key)))

    def elem(self, st, n):
        k = n["k"]
        f = self.f
        if k == "Call":
            fn = n.get("fn")
            # uses: released key handed to any call (checked before this call's own release takes effect)
            if st and self.recording:
                for a in args(n):
                    ak = lv(a)
                    if ak is not None:
                        for (rk, rid) in st:
                            if ak == rk:
                                self.uses.append((n, rk, rid, "passed to %s()" % (fn or "a function pointer")))
            idx = RELEASE.get(fn, -1)
            if idx is not None and idx >= 0 and len(args(n)) > idx:
                ak = lv(args(n)[idx])
                if ak is not None and not ak.startswith("(*"):
                    t = f.type_of(strip(args(n)[idx]))
                    if t and t.get("ptr"):
                        return st | {(ak, n["id"])}
            # address-of: the callee may re-assign
            for a in args(n):
                a2 = strip(a)
                if a2 is not None and a2["k"] == "Unary" and a2["op"] == "&":
                    kk = lv(a2["c"][0])
                    if kk:
                        st = self._kill(st, kk)
            return st
        if k == "DeclStmt":
            for v in n["c"]:
                st = self._kill(st, v["n"])
            return st
        a = assigned(n)
        if a:
            kk = lv(a[0])
            if kk:
                st = self._kill(st, kk)
            return st
        # dereference of a released key:  x->f, *x, x[i]
        if st and self.recording and k in ("Member", "Unary", "Sub"):
            base = None
            if k == "Member" and n.get("arrow"):
                base = lv(n["c"][0])
            elif k == "Unary" and n["op"] == "*":
                base = lv(n["c"][0])
            elif k == "Sub":
                base = lv(n["c"][0])
            if base is not None:
                for (rk, rid) in st:
                    if base == rk:
                        self.uses.append((n, rk, rid, "dereferenced (%s)" % src(n)[:40]))
        return st


def const_zero_fields(P):
    """(record, field) pairs that the built program only ever assigns the constant 0 (and never takes the address of):
    a branch on such a field is never taken -- e.g. lstopo's needs_topology_refresh, set only by graphical back ends that
    are not part of this build"""
    vals = {}
    bad = set()
    for f in P.all_funcs(only_main=False) if hasattr(P, "all_funcs") else []:
        for n in f.walk():
            a = assigned(n)
            if a:
                t = strip(a[0])
                if t["k"] == "Member" and t.get("rec"):
                    key = (t["rec"], t["f"])
                    v = cval(strip(a[2])) if (a[1] == "=" and a[2] is not None) else None
                    if v == 0:
                        vals.setdefault(key, 0)
                    else:
                        bad.add(key)
            if n["k"] == "Unary" and n["op"] == "&":
                t = strip(n["c"][0])
                if t is not None and t["k"] == "Member" and t.get("rec"):
                    bad.add((t["rec"], t["f"]))
    return set(k for k in vals if k not in bad)


def run(chk, P, units=None, rule="R-UAF"):
    n_rel = 0
    czf = None
    for f in P.all_funcs():
        if units is not None and os.path.basename(f.file) not in units:
            continue
        if f.entry is None:
            continue
        rel = [c for c in f.calls(tuple(RELEASE)) if RELEASE.get(c["fn"]) is not None and lv(args(c)[RELEASE[c["fn"]]]) is not None]
        if not rel:
            continue
        n_rel += len(rel)
        fl = _Rel(f, None).run()
        m = None
        seen = set()
        for (node, rk, rid, how) in fl.uses:
            key = (rk, rid, node["id"])
            if key in seen:
                continue
            seen.add(key)
            relnode = f.nodes[rid]
            # path-sensitive second opinion
            if m is None:
                m = must.Must(f).run()
            stc = m.before.get(rid, frozenset())
            after = paths.assigned_after(f, relnode)
            assume = [(x[1], x[0] == "T") for x in stc if x[0] in ("T", "F") and not any((a == nm or a.startswith(nm + "->") or a.startswith(nm + ".")) for a in after for nm in x[-1])]
            x = node["id"]
            while x is not None and x not in f.elem_block:
                x = f.parent.get(x)
            b_from = f.elem_block.get(rid, (None,))[0]
            b_to = f.elem_block.get(x, (None,))[0] if x is not None else None
            feasible = True
            # branches on fields that the built program never sets to a non-zero value are never taken
            if czf is None:
                czf = const_zero_fields(P)
            zero_keys = set()
            for y in f.walk():
                if y["k"] == "Member" and (y.get("rec"), y["f"]) in czf and lv(y):
                    zero_keys.add(lv(y))
            if zero_keys:
                assume = assume + [(zk, False) for zk in zero_keys]
                after = set(after) - zero_keys
            same_block_later = (b_from == b_to and x is not None and f.elem_block[x][1] > f.elem_block[rid][1])
            if b_from is not None and b_to is not None and not same_block_later:
                kill = set(b for b, blk in f.blocks.items() for e in blk["e"] if assigned(f.nodes[e]) and lv(assigned(f.nodes[e])[0]) == rk)
                feasible = paths.reach(f, b_from, lambda b: b == b_to, avoid=kill, assume=assume, akeys=after, forced=zero_keys) is not None
            if not feasible:
                continue
            chk.inst(rule, f, "use-after-release:%s@%s" % (rk, (node.get("fn") or node["k"])), False,
                     "`%s` is %s after it was released by %s() at line %s, with no re-assignment in between on some feasible path" % (rk, how, relnode.get("fn"), relnode.get("l")), loc=f.loc(node))
        for c in rel:
            rk = lv(args(c)[RELEASE[c["fn"]]])
            k = sum(1 for c2 in rel if (c2.get("l", 0), c2["id"]) <= (c.get("l", 0), c["id"]) and lv(args(c2)[RELEASE[c2["fn"]]]) == rk)
            bad = any(u[2] == c["id"] for u in fl.uses if (u[1], u[2], u[0]["id"]) in seen) and False
            chk.inst(rule, f, "release:%s#%d" % (rk, k), True, "no use of `%s` reaches after this release without a re-assignment (or only on infeasible paths)" % rk, loc=f.loc(c), nontrivial=True)
    return n_rel
