"""R-UNIONLEVEL: a helper that reads a type-specific attribute of every object of level `i` is called with the level whose type was tested.

Some helpers take a level index and read `topology->levels[i][j]->attr-><member>` without looking at the objects' type (the caller
is trusted to pass a level of the right type; all objects of a level have the same type).  They are DISCOVERED: a function with an
integer parameter p used as `topology->levels[p][..]`, a union-member access below it, and no read of `->type`.  At every call
G(topology, e) the caller must hold, on every path, the fact `V == <type of the member>` for a variable V that was last assigned
`O->type` with O last assigned `topology->levels[e'][0]` and e' the SAME expression as the argument e (must-facts; named
temporaries followed).  `type1 == GROUP && helper(topology, i)` with type1 read from level i-1 reads the group attributes of whatever
level i holds and ignores the flag when level i is the Group level."""
from prog import *
import must
import union as _union


def helpers(P, unit):
    out = {}
    for f in P.unit(unit).funcs(only_main=True):
        if f.entry is None:
            continue
        T = f.unit.types
        ints = [p["n"] for p in f.params if "w" in T[p["t"]] and not T[p["t"]].get("ptr")]
        if not ints:
            continue
        if any(x["k"] == "Member" and x["f"] == "type" and x.get("rec") == "hwloc_obj" for x in f.walk()):
            continue
        for x in f.walk():
            if x["k"] == "Member" and x["f"] in _union.VALID and x.get("rec", "").startswith("hwloc_obj_attr"):
                # below: ...->levels[p][j]->attr-><member>
                for y in subnodes(x):
                    if y["k"] == "Sub":
                        b = strip(y["c"][0])
                        i = strip(y["c"][1])
                        if b is not None and b["k"] == "Member" and b["f"] == "levels" and i is not None and i["k"] == "Ref" and i["n"] in ints:
                            out[f.name] = ([k for k, p in enumerate(f.params) if p["n"] == i["n"]][0], x["f"])
    return out


def run(chk, P, unit="topology.c", rule="R-UNIONLEVEL"):
    H = helpers(P, unit)
    n = 0
    for f in P.unit(unit).funcs(only_main=True):
        calls = [c for c in f.calls(tuple(H)) if c.get("fn") in H]
        if not calls or f.entry is None:
            continue
        m = must.Must(f).run()
        k = 0
        for c in calls:
            idx, member = H[c["fn"]]
            if idx >= len(args(c)):
                continue
            st = m.before.get(c["id"])
            if st is None:
                continue
            k += 1
            n += 1
            want = src(strip(args(c)[idx]))
            asg = {fc[1]: fc[2] for fc in st if fc[0] == "asg"}
            ok = False
            seen = []
            for fc in st:
                if fc[0] not in ("T", "R"):
                    continue
                for ty in _union.VALID[member]:
                    for pat in ("%s == " + ty, ty + " == %s"):
                        for V, rhs in asg.items():
                            if fc[1] == pat % V and rhs.endswith("->type"):
                                O = rhs[:-len("->type")]
                                lev = asg.get(O, O)
                                seen.append("%s from %s" % (V, lev))
                                if ("levels[%s][" % want) in lev.replace(" ", "") or ("levels[%s][" % want.replace(" ", "")) in lev.replace(" ", ""):
                                    ok = True
            chk.inst(rule, f, "%s(%s)#%d" % (c["fn"], want, k), ok,
                     "%s() reads attr->%s of every object of level `%s` without looking at their type: the caller has tested, on every path, the type of the first object of that same level%s"
                     % (c["fn"], member, want, "" if ok else " -- but the type tests that hold here concern %s" % (", ".join(sorted(set(seen))) or "no level at all")), loc=f.loc(c))
    return n, H
