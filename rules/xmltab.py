"""Writer <-> reader tables of the XML code (C05): R-XMLTAB, R-SUPPORT, R-ESC, R-XMLFMT, R-XMLSLOTS."""
from prog import *
import re

# element tag -> import function(s) that read its attributes (confirmed by reading hwloc_look_xml / hwloc__xml_import_object)
IMPORTERS = {
    "object": ["hwloc__xml_import_object_attr", "hwloc__xml_import_object"], "info": ["hwloc___xml_import_info"], "page_type": ["hwloc__xml_import_pagetype"],
    "userdata": ["hwloc__xml_import_userdata"], "distances2": ["hwloc__xml_import_distances"], "distances2hetero": ["hwloc__xml_import_distances"],
    "indexes": ["hwloc__xml_import_distances"], "u64values": ["hwloc__xml_import_distances"], "support": ["hwloc__xml_import_support"],
    "memattr": ["hwloc__xml_import_memattr"], "memattr_value": ["hwloc__xml_import_memattr_value"], "cpukind": ["hwloc__xml_import_cpukind"],
    "diff": ["hwloc__xml_import_diff_one"],
}
# export helper functions that receive the element's state from their caller: (function, state variable) -> tag
PARAM_STATE = {("hwloc__xml_export_object_contents", "state"): "object"}
DISPATCHERS = ["hwloc_look_xml", "hwloc__xml_import_object", "hwloc__xml_import_distances", "hwloc__xml_import_memattr", "hwloc__xml_import_cpukind", "hwloc__xml_import_diff"]


def _statekey(a):
    a = strip(a)
    if a["k"] == "Unary" and a["op"] == "&":
        return lv(a["c"][0])
    return lv(a)


def strset(f, e, depth=0):
    """the set of string literals an expression may evaluate to (literal, ?: of literals, local variable all of whose
    assignments resolve); None if unknown"""
    e = strip(e)
    if e is None or depth > 4:
        return None
    if e["k"] == "Str":
        return {e["s"]}
    if e["k"] == "Cond":
        a, b = strset(f, e["c"][1], depth + 1), strset(f, e["c"][2], depth + 1)
        return None if a is None or b is None else a | b
    if e["k"] == "Ref" and e.get("dk") in ("local", "slocal"):
        out = set()
        seen = False
        for n in f.walk():
            rhs = None
            if n["k"] == "Var" and n["n"] == e["n"] and n.get("c") and n["c"][0] is not None:
                rhs = n["c"][0]
            else:
                a = assigned(n)
                if a and lv(a[0]) == e["n"]:
                    if a[1] != "=" or a[2] is None:
                        return None
                    rhs = a[2]
            if rhs is not None:
                seen = True
                r = strset(f, rhs, depth + 1)
                if r is None:
                    return None
                out |= r
        return out if seen else None
    return None


def _local_states(f, tags):
    st2tag = {}
    for c in f.calls():
        if c.get("fn") is not None:
            continue
        ce = strip(c["c"][0])
        if ce["k"] != "Member":
            continue
        a = args(c)
        if ce["f"] == "new_child" and len(a) >= 3:
            for t in sorted(strset(f, a[2]) or ()):
                st2tag.setdefault(_statekey(a[1]), set()).add(t)
                tags.setdefault(t, (f.name, f.loc(c)))
    return st2tag


def param_states(u, local):
    """(function, state parameter) -> element tags, propagated from the call sites: a helper that receives the element's
    state from its caller writes attributes of the caller's element"""
    ptag = {k: {v} for k, v in PARAM_STATE.items()}
    funcs = {f.name: f for f in u.funcs(only_main=True)}
    changed = True
    rounds = 0
    while changed and rounds < 10:
        changed = False
        rounds += 1
        for f in funcs.values():
            for c in f.calls():
                g = funcs.get(c.get("fn"))
                if g is None:
                    continue
                for i, a in enumerate(args(c)):
                    if i >= len(g.params):
                        break
                    sk = _statekey(a)
                    if sk is None:
                        continue
                    ts = local[f.name].get(sk) or ptag.get((f.name, sk))
                    if not ts:
                        continue
                    tp = g.unit.types[g.params[i]["t"]]
                    if "hwloc__xml_export_state" not in tp.get("s", "") and tp.get("prec") != "hwloc__xml_export_state_s":
                        continue
                    key = (g.name, g.params[i]["n"])
                    if not ts <= ptag.get(key, set()):
                        ptag.setdefault(key, set()).update(ts)
                        changed = True
    return ptag


def export_table(u):
    """-> {tag: {attr name: (function, loc)}}, {child tag: (function, loc)}"""
    W = {}
    tags = {}
    local = {f.name: _local_states(f, tags) for f in u.funcs(only_main=True)}
    # a helper that opens the child element on a state it RECEIVES (state->new_child(state, vstate, "tag") with vstate a
    # parameter) establishes that element for the caller's state too: the caller goes on writing attributes of "tag"
    funcs = {f.name: f for f in u.funcs(only_main=True)}
    for _ in range(3):
        for f in funcs.values():
            for c in f.calls():
                g = funcs.get(c.get("fn"))
                if g is None:
                    continue
                pn = [q["n"] for q in g.params]
                for i, a in enumerate(args(c)):
                    if i < len(pn) and pn[i] in local[g.name]:
                        sk = _statekey(a)
                        if sk is not None:
                            local[f.name].setdefault(sk, set()).update(local[g.name][pn[i]])
    ptag = param_states(u, local)
    for f in u.funcs(only_main=True):
        st2tag = local[f.name]
        for c in f.calls():
            if c.get("fn") is not None:
                continue
            ce = strip(c["c"][0])
            if ce["k"] == "Member" and ce["f"] == "new_prop":
                a = args(c)
                names = strset(f, a[1])
                if not names:
                    continue
                sk = _statekey(a[0])
                ts = st2tag.get(sk) or ptag.get((f.name, sk))
                if not ts:
                    ts = ["?" + f.name]
                for t in ts:
                    for nm in sorted(names):
                        W.setdefault(t, {}).setdefault(nm, (f.name, f.loc(c)))
    return W, tags


_NAMEVARS = {}


def name_vars(u):
    """per function: the variables that hold an attribute name (2nd argument of the next_attr callback) or a child tag (3rd
    argument of find_child), including parameters that receive one at some call site (fixpoint over direct calls)"""
    if id(u) in _NAMEVARS:
        return _NAMEVARS[id(u)]
    funcs = {f.name: f for f in u.funcs(only_main=True)}
    av = {n: set() for n in funcs}
    tv = {n: set() for n in funcs}
    for f in funcs.values():
        for c in f.calls():
            if c.get("fn") is not None:
                continue
            ce = strip(c["c"][0])
            if ce["k"] != "Member":
                continue
            a = args(c)
            if ce["f"] == "next_attr" and len(a) >= 2:
                k = _statekey(a[1])
                if k:
                    av[f.name].add(k)
            if ce["f"] == "find_child" and len(a) >= 3:
                k = _statekey(a[2])
                if k:
                    tv[f.name].add(k)
    changed = True
    rounds = 0
    while changed and rounds < 10:
        changed = False
        rounds += 1
        for f in funcs.values():
            for c in f.calls():
                g = funcs.get(c.get("fn"))
                if g is None:
                    continue
                for i, a in enumerate(args(c)):
                    if i >= len(g.params):
                        break
                    k = lv(a)
                    if k is None:
                        continue
                    for src_, dst in ((av, av), (tv, tv)):
                        if k in src_[f.name] and g.params[i]["n"] not in dst[g.name]:
                            dst[g.name].add(g.params[i]["n"])
                            changed = True
    _NAMEVARS[id(u)] = (av, tv)
    return av, tv


def import_names(u, fname):
    f = u.func(fname)
    if f is None:
        return None, None
    av, tv = name_vars(u)
    attrs, tags = set(), set()
    for c in f.calls("strcmp"):
        a = args(c)
        for x, y in ((a[0], a[1]), (a[1], a[0])):
            if strip(y)["k"] == "Str" and lv(x) is not None:
                if lv(x) in av[f.name]:
                    attrs.add(strip(y)["s"])
                elif lv(x) in tv[f.name]:
                    tags.add(strip(y)["s"])
    return attrs, tags


def xmltab(chk, P, rule="R-XMLTAB"):
    u = P.unit("topology-xml.c")
    W, wtags = export_table(u)
    n = 0
    anchor = P.need_func("hwloc__xml_export_object_contents", "topology-xml.c")
    for tag in sorted(W):
        if tag.startswith("?"):
            chk.broke("%s: properties are written in %s on a state whose element cannot be attributed (analysis limitation, not a violation)" % (rule, tag[1:]))
            continue
        imps = IMPORTERS.get(tag)
        if imps is None:
            chk.inst(rule, W[tag][sorted(W[tag])[0]][0], "element:" + tag, False, "exported element <%s> has no importer in the rule table" % tag)
            continue
        R = set()
        for fn in imps:
            a, t = import_names(u, fn)
            if a is None:
                chk.broke("%s: import function %s vanished" % (rule, fn))
                continue
            R |= a
        for name, (fn, loc) in sorted(W[tag].items()):
            n += 1
            chk.inst(rule, fn, "%s@%s" % (tag, name), name in R, "attribute %s of <%s> written by %s is %s by the import side (%s)" % (name, tag, fn, "read" if name in R else "NOT read", ", ".join(imps)), loc=loc)
    # child tags dispatched
    alltags = set()
    for fn in DISPATCHERS:
        a, t = import_names(u, fn)
        if t is None:
            chk.broke("%s: dispatcher %s vanished" % (rule, fn))
            continue
        alltags |= t
    for tag, (fn, loc) in sorted(wtags.items()):
        n += 1
        chk.inst(rule, fn, "tag:" + tag, tag in alltags, "element <%s> created by %s is %s on import" % (tag, fn, "dispatched" if tag in alltags else "NOT dispatched"), loc=loc)
    return n


def support(chk, P, rule="R-SUPPORT"):
    """every field of the three support structs is exported, imported and reported by hwloc_set_binding_hooks' DO lists"""
    u = P.unit("topology-xml.c")
    ex = P.need_func("hwloc__xml_v2export_support", "topology-xml.c")
    im = P.need_func("hwloc__xml_import_support", "topology-xml.c")
    def fields_in(f):
        out = set()
        for x in f.walk():
            if x["k"] == "Member" and x.get("rec", "").startswith("hwloc_topology_") and x.get("rec", "").endswith("_support") and x.get("rec") != "hwloc_topology_support":
                out.add((x["rec"], x["f"]))
        return out
    def lits(f):
        return set(x["s"] for x in f.walk() if x["k"] == "Str" and "." in x.get("s", "") and re.match(r"^[a-z]+\.[a-z_]+$", x["s"]))
    fe, fi = fields_in(ex), fields_in(im)
    le, li = lits(ex), lits(im)
    n = 0
    for rn in ("hwloc_topology_discovery_support", "hwloc_topology_cpubind_support", "hwloc_topology_membind_support", "hwloc_topology_misc_support"):
        rec = u.records.get(rn)
        if rec is None:
            chk.broke("%s: record %s not found" % (rule, rn))
            continue
        cat = rn[len("hwloc_topology_"):-len("_support")]
        for fld in rec["fields"]:
            n += 1
            key = "%s.%s" % (cat, fld["n"])
            ok = (rn, fld["n"]) in fe and (rn, fld["n"]) in fi and key in le and key in li
            if key == "misc.imported_support":
                chk.inst(rule, ex, "bit:" + key, (rn, fld["n"]) in fi, "set by the importer itself to say that support bits were imported; by design not exported", nontrivial=False)
                continue
            chk.inst(rule, ex, "bit:" + key, ok, "support bit %s: exported field %s / name %s, imported field %s / name %s" % (key, (rn, fld["n"]) in fe, key in le, (rn, fld["n"]) in fi, key in li))
    return n


def escapes(chk, P, rule="R-ESC"):
    """built-in backend: the escape table of the writer and the unescape table of the reader are inverse"""
    ex = P.need_func("hwloc__nolibxml_export_escape_string", "topology-xml-nolibxml.c")
    im = P.need_func("hwloc__nolibxml_import_next_attr", "topology-xml-nolibxml.c")
    enc = {}
    # the writer's table: a switch on the character, in the escaping function or in a helper extracted from it, whose cases mention
    # the entity literal ("&lt;") -- copied with strcpy, returned, or assigned -- and possibly a constant length for it (replen = N);
    # a length that is computed (strlen of the entity) needs no check
    for wf in P.unit("topology-xml-nolibxml.c").funcs(only_main=True):
        for sw in [x for x in wf.walk() if x["k"] == "Switch"]:
            body = sw["c"][1]
            cur = []
            for stn in (body.get("c") or []):
                if stn is None:
                    continue
                nodes_ = [stn]
                # unwrap nested case labels:  case 'a': case 'b': stmt
                while nodes_[-1]["k"] in ("Case", "Default"):
                    lab = nodes_[-1]
                    if lab["k"] == "Case":
                        cur.append(cval(lab["c"][0]))
                    else:
                        cur = []
                    nodes_.append(lab["c"][-1])
                st_ = nodes_[-1]
                for y in subnodes(st_):
                    if y["k"] == "Str" and y.get("s", "").startswith("&") and y["s"].endswith(";"):
                        for ch in cur:
                            enc[ch] = (y["s"], enc.get(ch, (None, None))[1])
                    a = assigned(y)
                    if a and lv(a[0]) and a[1] == "=" and a[2] is not None and cval(a[2]) is not None and strip(a[0])["k"] == "Ref" \
                            and wf.type_of(strip(a[0])) and not wf.type_of(strip(a[0])).get("ptr"):
                        for ch in cur:
                            if ch in enc:
                                enc[ch] = (enc[ch][0], cval(a[2]))
                if st_["k"] in ("Break", "Return"):
                    cur = []
    if not enc:
        chk.broke("%s: the escape table of the built-in XML writer was not found (no switch on the character with entity literals in topology-xml-nolibxml.c)" % rule)
        return 0
    dec = {}
    # the reader's entity table may sit in hwloc__nolibxml_import_next_attr itself or in a helper extracted from it: every
    # strncmp(p, "ent;", n) of the unit whose guarded block yields a constant character (stored through a subscript or a pointer)
    # and advances by a constant (escaped += k, or returns k to a caller that adds it)
    for rf in P.unit("topology-xml-nolibxml.c").funcs(only_main=True):
        for c in rf.calls("strncmp"):
            a = args(c)
            if len(a) < 3:
                continue
            s = strip(a[1])
            if s["k"] != "Str" or not s["s"].endswith(";"):
                continue
            par = rf.par(c)
            while par is not None and par["k"] != "If":
                par = rf.par(par)
            chv = None
            adv = None
            if par is not None:
                for y in subnodes(par["c"][1]):
                    aa = assigned(y)
                    if aa and aa[1] == "=" and aa[2] is not None and cval(aa[2]) is not None:
                        t9 = strip(aa[0])
                        if t9["k"] == "Sub" or (t9["k"] == "Unary" and t9["op"] == "*"):
                            chv = cval(aa[2])
                    if aa and aa[1] == "+=" and aa[2] is not None and cval(aa[2]) is not None:
                        adv = cval(aa[2])
                    if y["k"] == "Return" and y.get("c") and y["c"][0] is not None and cval(y["c"][0]) is not None and cval(y["c"][0]) > 0:
                        adv = cval(y["c"][0])
            if chv is not None:
                dec[s["s"]] = (chv, cval(a[2]), adv)
    n = 0
    for ch, (lit, rep) in sorted(enc.items()):
        n += 1
        ent = lit[1:] if lit.startswith("&") else lit
        d = dec.get(ent)
        ok = (rep is None or rep == len(lit)) and d is not None and d[0] == ch and d[1] == len(ent) and d[2] == len(ent)
        chk.inst(rule, ex, "escape:%d" % ch, ok, "char %r -> %r (replen %s): reader maps %r back to %s comparing %s and skipping %s characters" % (chr(ch), lit, rep, ent, d[0] if d else None, d[1] if d else None, d[2] if d else None))
    # charset of strcspn == set of cases
    for c in ex.calls("strcspn"):
        s = strip(args(c)[1])
        if s["k"] == "Str":
            n += 1
            chk.inst(rule, ex, "charset#%d" % n, set(ord(x) for x in s["s"]) == set(enc), "strcspn stops exactly at the escaped characters (%r vs cases %s)" % (s["s"], sorted(chr(c2) for c2 in enc)), loc=ex.loc(c))
    # allocation factor
    mx = max([len(l) for l, _ in enc.values()] or [0])
    for c in ex.calls("malloc"):
        v = src(args(c)[0])
        m = re.search(r"(\d+) \* ", v) or re.search(r" \* (\d+)", v)
        n += 1
        chk.inst(rule, ex, "alloc-factor", bool(m) and int(m.group(1)) >= mx, "escaped buffer is allocated %s: factor must be >= the longest replacement (%d)" % (v, mx), loc=ex.loc(c))
    return n


def fmt_width(chk, P, rule="R-XMLFMT"):
    """import conversions are never narrower than what the export can emit: for a field of more than 16 bits a width-limited
    sscanf conversion (%04x) truncates values the exporter prints in full"""
    u = P.unit("topology-xml.c")
    n = 0
    for f in u.funcs(only_main=True):
        if "import" not in f.name:
            continue
        for c in f.calls("sscanf"):
            a = args(c)
            fmt = strip(a[1])
            if fmt["k"] != "Str":
                continue
            convs = re.findall(r"%(\d*)(l{0,2})([xud])", fmt["s"])
            outs = a[2:]
            for i, (w, ll, cv) in enumerate(convs):
                if i >= len(outs):
                    break
                o = strip(outs[i])
                var = lv(o["c"][0]) if o["k"] == "Unary" and o["op"] == "&" else None
                if var is None:
                    continue
                # fields this variable is stored into
                widths = []
                for x in f.walk():
                    aa = assigned(x)
                    if aa and aa[2] is not None and lv(strip(aa[2])) == var:
                        t = f.type_of(strip(aa[0]))
                        if t and "w" in t:
                            widths.append((t["w"], lv(aa[0])))
                for W, fld in widths:
                    n += 1
                    if not w:
                        chk.inst(rule, f, "conv:%s" % fld, True, "%%%s%s into %s: no width limit" % (ll, cv, fld), loc=f.loc(c))
                        continue
                    digits = int(w)
                    cap = digits * 4 if cv == "x" else digits * 3
                    ok = W <= 16 or cap >= W
                    chk.inst(rule, f, "conv:%s" % fld, ok, "%%%s%s%s into the %d-bit field %s reads at most %d digits (%d bits)" % (w, ll, cv, W, fld, digits, cap), loc=f.loc(c))
    return n


def slots(chk, P, rule="R-XMLSLOTS"):
    """both backends implement the whole interface: every slot of the callback/state records is assigned by each backend"""
    n = 0
    recs = {"hwloc_xml_callbacks": ["topology-xml-nolibxml.c", "topology-xml-libxml.c"]}
    for rn, units in recs.items():
        for un in units:
            u = P.unit(un)
            rec = u.records.get(rn)
            if rec is None:
                chk.broke("%s: %s not visible in %s" % (rule, rn, un))
                continue
            inits = [g for g in u.d["globals"] if u.types[g["t"]].get("rec") == rn and g.get("init")]
            for g in inits:
                vals = g["init"]["c"]
                for i, fld in enumerate(rec["fields"]):
                    n += 1
                    v = strip(vals[i]) if i < len(vals) and vals[i] is not None else None
                    ok = v is not None and v["k"] == "Ref" and v.get("dk") == "func"
                    chk.inst(rule, g["n"], "slot:" + fld["n"], ok, "%s.%s in %s is %s" % (g["n"], fld["n"], un, v["n"] if ok else "not set"))
    # import/export state callbacks: every function that assigns one of them assigns all of them
    IMP = ("next_attr", "find_child", "close_tag", "close_child", "get_content", "close_content")
    BK = ("look_init", "look_done", "backend_exit")
    for un, rn, group in (("topology-xml-nolibxml.c", "hwloc_xml_backend_data_s", IMP), ("topology-xml-libxml.c", "hwloc_xml_backend_data_s", IMP),
                          ("topology-xml-nolibxml.c", "hwloc_xml_backend_data_s", BK), ("topology-xml-libxml.c", "hwloc_xml_backend_data_s", BK),
                          ("topology-xml-nolibxml.c", "hwloc__xml_export_state_s", ("new_child", "new_prop", "add_content", "end_object")),
                          ("topology-xml-libxml.c", "hwloc__xml_export_state_s", ("new_child", "new_prop", "add_content", "end_object"))):
        u = P.unit(un)
        rec = u.records.get(rn)
        if rec is None:
            continue
        fps = [fl["n"] for fl in rec["fields"] if u.types[fl["t"]].get("fp")]
        if group:
            fps = [x for x in fps if x in group]
        for f in u.funcs(only_main=True):
            got = set()
            for x in f.walk():
                aa = assigned(x)
                if aa:
                    t = strip(aa[0])
                    if t["k"] == "Member" and t.get("rec") == rn and t["f"] in fps:
                        got.add(t["f"])
            if got and len(got) >= 2:
                n += 1
                miss = [x for x in fps if x not in got]
                chk.inst(rule, f, "all-slots:%s:%s" % (rn, fps[0]), not miss, "%s assigns %d of the %d function-pointer slots of %s%s" % (f.name, len(got), len(fps), rn, "" if not miss else " -- missing %s" % miss))
    return n
