"""R-TRUNCTEST: the test that decides whether a length-returning producer truncated treats "length == size" as truncated.

snprintf-like producers (snprintf, vsnprintf and every function of the program with an adjacent writable (char *, size) parameter
pair that returns an int: hwloc_topology_export_synthetic, hwloc_bitmap_snprintf, hwloc_obj_type_snprintf ...) write at most
size-1 characters and return the length they would have written: the output is complete iff result < size.  For every comparison
in the calling function that relates the result of such a call (directly, or through the local it was assigned to) to the size
that was handed over, the comparison is evaluated with result = size-1, size and size+1 (size bound to the constant it folds to,
or to 100): its truth value must change between size-1 and size and not between size and size+1 -- `>` for `>=` (or `<=` for `<`)
accepts a result that lost its last character.  How the comparison is written (casts, `res + 1 > size`, operands swapped) does
not matter."""
from prog import *
import peval, bufsize


def run(chk, P, units=None, rule="R-TRUNCTEST", funcs=None):
    n = 0
    pcache = {}
    api = P.public_api() if hasattr(P, "public_api") else set()
    for f in (funcs if funcs is not None else P.all_funcs()):
        if units is not None and os.path.basename(f.file) not in units:
            continue
        if f.entry is None:
            continue
        # result variable -> (size expression node, call)
        res = {}
        for x in f.walk():
            tgt = rhs = None
            a = assigned(x)
            if a and a[1] == "=" and a[2] is not None and strip(a[0])["k"] == "Ref":
                tgt, rhs = strip(a[0])["n"], strip(a[2])
            elif x["k"] == "Var" and x.get("c") and x["c"][0] is not None:
                tgt, rhs = x["n"], strip(x["c"][0])
            if not tgt or rhs is None or rhs["k"] != "Call" or not rhs.get("fn"):
                continue
            fn = rhs["fn"]
            if fn in bufsize.LIBC_PAIRS:
                pr = [bufsize.LIBC_PAIRS[fn]] if bufsize.LIBC_PAIRS[fn] else []
            else:
                # only producers whose documented contract is snprintf's: public API functions (an internal helper may return the
                # needed SIZE, terminator included, like hwloc___nolibxml_prepare_export -- `res > size` is then the right test)
                g = P.func(fn)
                if g is None or fn not in api:
                    continue
                if fn not in pcache:
                    rt = g.unit.types[g.d["ret"]]
                    pcache[fn] = bufsize.pairs_of(g) if ("w" in rt and not rt.get("ptr")) else []
                pr = pcache[fn]
            for (bi, si) in pr:
                if si < len(args(rhs)):
                    res.setdefault(tgt, []).append((args(rhs)[si], rhs))
        if not res:
            continue
        # a result variable assigned by several producer calls with different sizes is judged against each
        k = 0
        done = set()
        for x in f.walk():
            if x["k"] != "Binary" or x["op"] not in ("<", "<=", ">", ">=", "==", "!="):
                continue
            names = refs(x)
            for rv, lst in res.items():
                if rv not in names:
                    continue
                for (sz, call) in lst:
                    szt = src(strip(sz))
                    other = [c for c in x["c"] if rv not in refs(c)]
                    if not other:
                        continue
                    # the other side must be the size handed over (same expression after dropping casts, or folding to the same constant)
                    ov, sv = cval(strip(other[0])), cval(strip(sz))
                    same = src(strip(other[0])) == szt or (ov is not None and ov == sv)
                    if not same:
                        continue
                    S = sv if sv is not None else 100
                    env0 = {}
                    if sv is None:
                        for nm in refs(sz):
                            env0[nm] = S
                        if lv(strip(sz)):
                            env0[lv(strip(sz))] = S
                    truth = []
                    for v in (S - 1, S, S + 1):
                        e = dict(env0)
                        e[rv] = v
                        truth.append(peval.Evaluator(f, e).ev(x))
                    if None in truth or (x["id"], szt) in done:
                        continue
                    done.add((x["id"], szt))
                    k += 1
                    n += 1
                    ok = truth[0] != truth[1] and truth[1] == truth[2]
                    chk.inst(rule, f, "%s~%s#%d" % (rv, szt.replace(" ", ""), k), ok,
                             "`%s` relates the length returned by %s() to the size it was given: evaluated with the length at size-1, size, size+1 it yields %s; a result equal to the size is a truncated one%s"
                             % (src(x), call["fn"], truth, "" if ok else " -- but this test puts the boundary elsewhere: an output that lost its last character is taken for complete (or a complete one for truncated)"), loc=f.loc(x))
    return n
