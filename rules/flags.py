"""R-FLAGS / R-VALIDATE-FIRST / R-ERRNO(EINVAL): for every public entry point with a bit-mask (or enum)
argument, decide for EVERY word of the finite domain (all combinations of the declared bits of its
family, every undeclared bit alone and on top of a valid word) whether the function can get past
its validation: seeded constant propagation over the CFG (lib/peval.py).

  invalid word  -> every feasible path must fail (negative / NULL) with errno == EINVAL *before any
                   side effect* (write to non-local memory, call of a non-pure function)
  valid word    -> some path must get past validation (the word is not rejected by a flags-only test)

Declared bits are read from the public enum in the current headers, so a flag added to the enum but
not to the validation mask (or the reverse) shows up as a disagreement.
"""
from prog import *
import peval


def _bits(E, names):
    return [E[n] for n in names]


class Spec(object):
    def __init__(self, func, param, enum=None, names=None, prefix=None, valid=None, unit=None, exclude=(), extra_env=None, props=(), note="",
                 pre_errnos=(peval.EPERM,), consumed_args=()):
        pre_errnos = tuple(pre_errnos) + (peval.ENOMEM,)
        self.func, self.param, self.enum, self.names, self.prefix = func, param, enum, names, prefix
        self.valid, self.unit, self.exclude, self.extra_env, self.props, self.note = valid, unit, exclude, extra_env or {}, props, note
        self.pre_errnos = set(pre_errnos)      # errnos of precondition failures that may precede flag validation
        self.consumed_args = set(consumed_args)  # arguments documented to be released on failure (handles)


def one_hot_or_zero(f, mask):
    x = f & mask
    return x == 0 or (x & (x - 1)) == 0


def popcount(x):
    return bin(x).count("1")


CPUBIND = dict(enum="hwloc_cpubind_flags_t")
MEMBIND = dict(enum="hwloc_membind_flags_t")

SPECS = [
    # ---- binding (C10)
    *[Spec(fn, "flags", unit="bind.c", props=("C10",), **CPUBIND) for fn in
      ("hwloc_set_cpubind", "hwloc_get_cpubind", "hwloc_set_proc_cpubind", "hwloc_get_proc_cpubind",
       "hwloc_set_thread_cpubind", "hwloc_get_thread_cpubind", "hwloc_get_last_cpu_location",
       "hwloc_get_proc_last_cpu_location")],
    *[Spec(fn, "flags", unit="bind.c", props=("C10",), **MEMBIND) for fn in
      ("hwloc_set_membind", "hwloc_get_membind", "hwloc_set_proc_membind", "hwloc_get_proc_membind",
       "hwloc_set_area_membind", "hwloc_get_area_membind", "hwloc_get_area_memlocation")],
    Spec("hwloc_alloc_membind", "flags", unit="bind.c", props=("C10",), enum="hwloc_membind_flags_t",
         valid=lambda f, E: not ((f & E["HWLOC_MEMBIND_MIGRATE"]) and (f & E["HWLOC_MEMBIND_STRICT"])),
         note="MIGRATE is meaningless for an allocation: EINVAL, reported only under STRICT (header comment)"),
    # ---- topology modification (C08, C02)
    Spec("hwloc_topology_restrict", "flags", enum="hwloc_restrict_flags_e", unit="topology.c", props=("C08", "C02"),
         valid=lambda f, E: not ((f & E["HWLOC_RESTRICT_FLAG_BYNODESET"]) and (f & E["HWLOC_RESTRICT_FLAG_REMOVE_CPULESS"]))
         and not (not (f & E["HWLOC_RESTRICT_FLAG_BYNODESET"]) and (f & E["HWLOC_RESTRICT_FLAG_REMOVE_MEMLESS"]))),
    Spec("hwloc_topology_allow", "flags", enum="hwloc_allow_flags_e", unit="topology.c", props=("C02", "C19"),
         valid=lambda f, E: popcount(f) == 1),
    Spec("hwloc_topology_set_flags", "flags", enum="hwloc_topology_flags_e", unit="topology.c", props=("C01",),
         pre_errnos=(peval.EBUSY,),
         valid=lambda f, E: not ((f & (E["HWLOC_TOPOLOGY_FLAG_RESTRICT_TO_CPUBINDING"] | E["HWLOC_TOPOLOGY_FLAG_RESTRICT_TO_MEMBINDING"]))
                                 and not (f & E["HWLOC_TOPOLOGY_FLAG_IS_THISSYSTEM"]))),
    # ---- distances (C13)
    Spec("hwloc_distances_add_create", "kind", enum="hwloc_distances_kind_e", unit="distances.c", props=("C13",),
         valid=lambda f, E: popcount(f & (E["HWLOC_DISTANCES_KIND_FROM_OS"] | E["HWLOC_DISTANCES_KIND_FROM_USER"])) <= 1
         and popcount(f & (E["HWLOC_DISTANCES_KIND_VALUE_LATENCY"] | E["HWLOC_DISTANCES_KIND_VALUE_BANDWIDTH"] | E["HWLOC_DISTANCES_KIND_VALUE_HOPS"])) <= 1,
         note="HETEROGENEOUS_TYPES is normally set by hwloc itself; passing it is accepted (part of KIND_ALL)"),
    Spec("hwloc_distances_add_create", "flags", names=[], unit="distances.c", props=("C13",)),
    Spec("hwloc_distances_add_values", "flags", names=[], unit="distances.c", props=("C13",), consumed_args=(1,)),
    Spec("hwloc_distances_add_commit", "flags", enum="hwloc_distances_add_flag_e", unit="distances.c", props=("C13", "C02"), consumed_args=(1,)),
    Spec("hwloc_distances_get", "flags", names=[], unit="distances.c", props=("C13",)),
    Spec("hwloc_distances_get_by_depth", "flags", names=[], unit="distances.c", props=("C13",)),
    Spec("hwloc_distances_get_by_type", "flags", names=[], unit="distances.c", props=("C13",)),
    Spec("hwloc_distances_get_by_name", "flags", names=[], unit="distances.c", props=("C13",)),
    Spec("hwloc_distances_transform", "flags", names=[], unit="distances.c", props=("C13",)),
    # ---- memattrs (C14)
    Spec("hwloc_memattr_register", "flags", enum="hwloc_memattr_flag_e", unit="memattrs.c", props=("C14",),
         valid=lambda f, E: popcount(f & (E["HWLOC_MEMATTR_FLAG_HIGHER_FIRST"] | E["HWLOC_MEMATTR_FLAG_LOWER_FIRST"])) == 1),
    Spec("hwloc_get_local_numanode_objs", "flags", enum="hwloc_local_numanode_flag_e", unit="memattrs.c", props=("C14",)),
    *[Spec(fn, "flags", names=[], unit="memattrs.c", props=("C14",)) for fn in
      ("hwloc_memattr_get_value", "hwloc_memattr_get_best_target", "hwloc_memattr_get_best_initiator",
       "hwloc_memattr_get_targets", "hwloc_memattr_get_initiators", "hwloc_memattr_set_value",
       "hwloc_topology_get_default_nodeset")],
    # ---- cpukinds (C15)
    *[Spec(fn, "flags", names=[], unit="cpukinds.c", props=("C15",)) for fn in
      ("hwloc_cpukinds_get_nr", "hwloc_cpukinds_get_by_cpuset", "hwloc_cpukinds_get_info", "hwloc_cpukinds_register")],
    # ---- diff (C16)
    Spec("hwloc_topology_diff_build", "flags", names=[], unit="diff.c", props=("C16",)),
    Spec("hwloc_topology_diff_apply", "flags", enum="hwloc_topology_diff_apply_flags_e", unit="diff.c", props=("C16",)),
    # ---- export (C05, C07)
    Spec("hwloc_topology_export_xml", "flags", enum="hwloc_topology_export_xml_flags_e", unit="topology-xml.c", props=("C05",)),
    Spec("hwloc_topology_export_xmlbuffer", "flags", enum="hwloc_topology_export_xml_flags_e", unit="topology-xml.c", props=("C05",)),
    Spec("hwloc_topology_export_synthetic", "flags", enum="hwloc_topology_export_synthetic_flags_e", unit="topology-synthetic.c", props=("C07",)),
    # ---- shmem (C19)
    *[Spec(fn, "flags", names=[], unit="shmem.c", props=("C19",)) for fn in
      ("hwloc_shmem_topology_get_length", "hwloc_shmem_topology_write", "hwloc_shmem_topology_adopt")],
]


def domain(declared, width, valid):
    """all 2^n words over the declared bits; each undeclared bit alone and OR-ed with a valid word"""
    n = len(declared)
    words = []
    for m in range(1 << n):
        w = 0
        for i in range(n):
            if m >> i & 1:
                w |= declared[i]
        words.append(w)
    words = sorted(set(words))
    allmask = 0
    for b in declared:
        allmask |= b
    rep = next((w for w in words if valid(w)), 0)
    extra = []
    for b in range(width):
        bit = 1 << b
        if bit & allmask:
            continue
        extra.append(bit)
        extra.append(bit | rep)
    return words, sorted(set(extra)), allmask


def observable(E, ignore_args=()):
    """effect predicate for PathEval: does this store/call write memory that outlives the call
    (reachable from a parameter or global), free such memory, or reach an external call with an effect
    outside the process memory?  Fresh allocations, locals, errno and lazily initialised static
    flags (C17's business) do not count."""
    def pred(f, n, env):
        S = E.node_effects(f, n)
        for r in list(S.mod) + list(S.free):
            if r[0] in ("glob", "unknown") or (r[0] == "arg" and (f.name, r[1]) not in ignore_args):
                return True
        if S.ext or S.unresolved:
            return True
        return False
    return pred


def run(chk, program, prop, rule="R-FLAGS", effects=None):
    """run every Spec that serves `prop`; returns number of (function, word) evaluations"""
    nspec = nwords = 0
    memo = {}
    
    for sp in SPECS:
        if prop not in sp.props:
            continue
        f = program.need_func(sp.func, sp.unit)
        u = f.unit
        pidx = [i for i, p in enumerate(f.params) if p["n"] == sp.param]
        if not pidx:
            chk.broke("%s: %s has no parameter %s any more" % (rule, sp.func, sp.param))
            continue
        ptype = u.types[f.params[pidx[0]]["t"]]
        width = ptype.get("w", 64)
        signed = not ptype.get("u", True)
        E = u.enum_consts
        if sp.enum is not None:
            en = u.enums.get(sp.enum)
            if en is None:
                chk.broke("%s: enum %s not found for %s" % (rule, sp.enum, sp.func))
                continue
            names = [n for n, v in en["items"] if n not in sp.exclude]
        else:
            names = list(sp.names)
        declared = []
        for n in names:
            v = E.get(n)
            if v is None:
                chk.broke("%s: enumerator %s vanished" % (rule, n))
                continue
            if v != 0 and (v & (v - 1)) == 0:
                declared.append(v)
            elif v != 0:
                # composite value (mask of several bits): its bits are declared
                for b in range(64):
                    if v >> b & 1 and (1 << b) not in declared:
                        declared.append(1 << b)
        declared = sorted(set(declared))
        if len(declared) > 10:
            chk.broke("%s: %d declared bits for %s: domain too large" % (rule, len(declared), sp.func))
            continue
        extra_valid = sp.valid or (lambda w, E: True)
        allm = 0
        for b in declared:
            allm |= b
        valid = lambda w: (w & ~allm) == 0 and bool(extra_valid(w, E))
        words, undeclared, allmask = domain(declared, width, valid)
        nspec += 1
        is_effect = observable(effects, set((sp.func, k) for k in sp.consumed_args)) if effects is not None else None
        bad = []
        samples = []
        for w in words + undeclared:
            wv = w
            if signed and w >= (1 << (width - 1)):
                wv = w - (1 << width)
            env = {sp.param: wv}
            env.update(sp.extra_env)
            pe = peval.PathEval(program, f, env, is_effect=is_effect, memo=memo)
            out = pe.run()
            nwords += 1
            exp_valid = valid(w)
            if exp_valid and not out.accept:
                bad.append("valid word 0x%x is rejected by a test that depends on %s only" % (w, sp.param))
            elif not exp_valid:
                if out.accept:
                    t = out.first_accept()
                    bad.append("invalid word 0x%x is not rejected before %s at %s" % (w, "a side effect" if t[0] == "effect" else "a non-failure return", t[3]))
                else:
                    errs = set()
                    for e in out.fail_errnos():
                        if isinstance(e, (frozenset, tuple)):
                            errs |= set(str(x) for x in e)
                        else:
                            errs.add(str(e))
                    okset = set(str(x) for x in sp.pre_errnos) | {str(peval.EINVAL)}
                    if str(peval.EINVAL) not in errs or not errs <= okset:
                        bad.append("invalid word 0x%x fails with errno in %s instead of EINVAL" % (w, sorted(errs)))
            if len(samples) < 3:
                samples.append("0x%x->%s" % (w, "accept" if out.accept else "reject"))
        c = "%s:%s" % (sp.param, sp.enum or "ZERO")
        chk.inst(rule, f, c, not bad,
                 ("; ".join(bad[:4]) + (" (+%d more)" % (len(bad) - 4) if len(bad) > 4 else "")) if bad else
                 "%d words over %d declared bits + %d undeclared-bit words all agree with the specification (%s)" % (len(words), len(declared), len(undeclared), ", ".join(samples)))
    return nspec, nwords
