"""R-ORPHAN: an object taken out of the tree is released only after each of its four child lists was handed on.

hwloc_free_unlinked_object() frees the object alone.  In the functions that dismantle tree objects (they mention all four child
lists of the object they release: discovered) every list that is non-empty must, on every path to the release, have been consumed:
passed to a call (append/prepend/insert_siblings_list, the recursive release) or copied somewhere (parent->first_child =
child->first_child; pchild = &obj->first_child).  A NULL test alone consumes nothing; a path cut by an assertion that the list is
empty does not reach the release.

Decided by evaluation: per release site and per list the function is explored with that list head seeded non-NULL; the release
must not be reachable on a path without a consumption since the object was (re)bound."""
from prog import *
import peval

LISTS = ("first_child", "memory_first_child", "io_first_child", "misc_first_child")
RELEASER = "hwloc_free_unlinked_object"
# frozen exceptions, one per line, reason read in the code
EXC = {
    ("hwloc_filter_levels_keep_structure", "parent", "first_child"): "the levels are identical in structure: the parent's only normal child is the object that takes its place in the grand-parent",
}


def run(chk, P, units, rule="R-ORPHAN"):
    n = 0
    for u in units:
        for f in P.unit(u).funcs(only_main=True):
            if f.entry is None:
                continue
            for c in f.calls(RELEASER):
                X = lv(args(c)[0])
                if X is None or strip(args(c)[0])["k"] != "Ref":
                    continue
                mentioned = set(m["f"] for m in f.walk() if m["k"] == "Member" and m["f"] in LISTS and lv(m["c"][0]) == X)
                if len(mentioned) < len(LISTS):
                    continue      # a fresh or already emptied object: not a function that dismantles tree objects
                for F in LISTS:
                    n += 1
                    exc = EXC.get((f.name, X, F))
                    if exc:
                        chk.inst(rule, f, "%s->%s" % (X, F), True, "frozen exception: " + exc, nontrivial=False, loc=f.loc(c))
                        continue
                    key = "%s->%s" % (X, F)
                    def mentions(e):
                        return any(m["k"] == "Member" and m["f"] == F and lv(m["c"][0]) == X for m in subnodes(e))
                    bad = []
                    def obs(nd, env, c=c, X=X, key=key, bad=bad, mentions=mentions):
                        k = nd["k"]
                        if k == "DeclStmt":
                            for v in nd["c"]:
                                if v["n"] == X:
                                    # X names another object from here on: the scenario (its list is non-empty) starts afresh
                                    env.pop("#c", None)
                                    env[key] = 1
                                if v.get("c") and v["c"][0] is not None and mentions(v["c"][0]):
                                    env["#c"] = 1
                            return
                        a = assigned(nd)
                        if a:
                            if lv(a[0]) == X:
                                env.pop("#c", None)
                                env[key] = 1
                            if a[2] is not None and mentions(a[2]):
                                env["#c"] = 1
                            return
                        if k == "Call":
                            if nd["id"] == c["id"]:
                                if not env.get("#c") and not bad:
                                    bad.append(1)
                                return
                            if any(mentions(x) for x in args(nd)):
                                env["#c"] = 1
                    try:
                        peval.PathEval(P, f, {key: 1}, is_effect=lambda *z: False, through_effects=True, observe=obs, track={key}, maxstates=100000).run()
                    except AnalysisBroken as ex:
                        chk.broke("%s: %s not evaluable (%s)" % (rule, f.name, ex))
                        continue
                    chk.inst(rule, f, "%s->%s" % (X, F), not bad, "with %s non-empty, %s(%s) is reached only after the list was handed on%s"
                             % (key, RELEASER, X, "" if not bad else " -- but a path reaches the release at line %s without consuming it: the children are orphaned" % c.get("l")), loc=f.loc(c))
    return n
