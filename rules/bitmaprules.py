"""Bitmap rules (C03/C04): alias effect-order, history independence, define-before-accumulate, word-store bounds."""
from prog import *
import must


def _bm_params(f):
    T = f.unit.types
    dst, ops = [], []
    for p in f.params:
        t = T[p["t"]]
        if t.get("prec") == "hwloc_bitmap_s":
            (ops if t.get("pconst") else dst).append(p["n"])
    return dst, ops


class AliasFlow(Flow):
    """may-flags: has res->infinite (res->ulongs_count) possibly been changed on this path?"""
    def __init__(self, f, dst, ops):
        Flow.__init__(self, f)
        self.dst, self.ops = dst, ops
        self.bad = {}

    def init(self):
        return (False, False)

    def join(self, a, b):
        return (a[0] or b[0], a[1] or b[1])

    def elem(self, st, n):
        wi, wc = st
        f = self.f
        a = assigned(n)
        if a:
            k = lv(a[0])
            if k in ("%s->infinite" % d for d in self.dst):
                wi = True
            if k in ("%s->ulongs_count" % d for d in self.dst):
                wc = True
        if n["k"] == "Call" and n.get("fn") in ("hwloc_bitmap_reset_by_ulongs", "hwloc_bitmap_enlarge_by_ulongs", "hwloc_bitmap_realloc_by_ulongs",
                                               "hwloc_bitmap_reset_by_cpu_index", "hwloc_bitmap_realloc_by_cpu_index") and args(n) and lv(args(n)[0]) in self.dst:
            wc = True
        if n["k"] == "Member" and n.get("rec") == "hwloc_bitmap_s":
            base = lv(n["c"][0])
            if base in self.ops and self.recording:
                par = f.par(n)
                is_write = par is not None and assigned(par) is not None and strip(assigned(par)[0]) is n
                if not is_write:
                    if n["f"] == "infinite" and wi:
                        self.bad.setdefault("read:%s->infinite" % base, f.loc(n))
                    if n["f"] == "ulongs_count" and wc:
                        self.bad.setdefault("read:%s->ulongs_count" % base, f.loc(n))
        return (wi, wc)


ALIAS_EXC = {("hwloc_bitmap_copy", "ulongs_count"): "the destination is resized to the operand's own count: if they alias, the resize is the identity and the later read sees the same value"}


def alias_order(chk, P, rule="R-ALIAS"):
    """combinators with a destination: an operand's `infinite` flag is never read after the destination's was written, and an
    operand's `ulongs_count` never after the destination may have been resized (the destination may alias the operand)"""
    u = P.unit("bitmap.c")
    n = 0
    for f in u.funcs(only_main=True):
        dst, ops = _bm_params(f)
        if not dst or not ops or f.entry is None:
            continue
        fl = AliasFlow(f, dst, ops).run()
        n += 1
        for which in ("infinite", "ulongs_count"):
            bad = [(k, loc) for k, loc in fl.bad.items() if k.endswith(which)]
            if bad and (f.name, which) in ALIAS_EXC:
                chk.inst(rule, f, "operand-%s-before-dest" % which, True, "frozen exception: %s" % ALIAS_EXC[(f.name, which)], nontrivial=False)
                continue
            chk.inst(rule, f, "operand-%s-before-dest" % which, not bad,
                     "every read of an operand's %s precedes the first possible change of the destination's" % which + (": %s at %s comes after it" % bad[0] if bad else ""))
    return n


def history_independence(chk, P, rule="R-HISTORY"):
    """results do not depend on how a bitmap was built: the allocation size is read only by the allocator helpers, and every
    public function with a bitmap operand consults its `infinite` flag (directly or through a callee)"""
    u = P.unit("bitmap.c")
    OWN = {"hwloc_bitmap_tma_alloc", "hwloc_bitmap_enlarge_by_ulongs", "hwloc_bitmap_realloc_by_ulongs", "hwloc_bitmap_tma_dup", "hwloc_bitmap_alloc", "hwloc_bitmap_alloc_full",
           "hwloc_bitmap_reset_by_ulongs"}
    n = 0
    for f in u.funcs(only_main=True):
        k = 0
        for x in f.walk():
            if x["k"] == "Member" and x.get("rec") == "hwloc_bitmap_s" and x["f"] == "ulongs_allocated":
                if x.get("mo") == "HWLOC__BITMAP_CHECK":
                    continue
                k += 1
                n += 1
                chk.inst(rule, f, "ulongs_allocated#%d" % k, f.name in OWN, "ulongs_allocated is touched in %s" % ("allocator helper " + f.name if f.name in OWN else f.name + ", which is not an allocator helper: results would depend on allocation history"), loc=f.loc(x))
    # infinite consulted
    reads = {}
    for f in u.funcs(only_main=True):
        reads[f.name] = set()
        for x in f.walk():
            if x["k"] == "Member" and x.get("rec") == "hwloc_bitmap_s" and x["f"] == "infinite":
                b = lv(x["c"][0])
                if b:
                    reads[f.name].add(b)
    api = P.public_api()
    EXC = {"hwloc_bitmap_to_ulong": "word 0 is always materialised", "hwloc_bitmap_to_ith_ulong": "uses HWLOC_SUBBITMAP_READULONG which consults infinite",
           "hwloc_bitmap_free": "releases", "hwloc_bitmap_isset": "uses HWLOC_SUBBITMAP_READULONG", "hwloc_bitmap_to_ulongs": "uses HWLOC_SUBBITMAP_READULONG"}
    for f in u.funcs(only_main=True):
        if f.name not in api:
            continue
        dst, ops = _bm_params(f)
        for o in ops:
            n += 1
            direct = o in reads[f.name]
            via = any(c.get("fn") in reads and any(lv(a) == o for a in args(c)) for c in f.calls())
            ok = direct or via
            if not ok and f.name in EXC:
                chk.inst(rule, f, "infinite:" + o, True, "frozen exception: %s" % EXC[f.name], nontrivial=False)
            else:
                chk.inst(rule, f, "infinite:" + o, ok, "operand %s's `infinite` flag is consulted (%s)" % (o, "directly" if direct else ("through a callee" if via else "NOT consulted")))
    return n


DEFINERS = ("hwloc_bitmap_zero", "hwloc_bitmap_fill", "hwloc_bitmap_copy", "hwloc_bitmap_reset_by_ulongs")   # not realloc_by_ulongs: it only grows, stale upper words survive
ACCUM = ("hwloc_bitmap_set", "hwloc_bitmap_set_range", "hwloc_bitmap_clr", "hwloc_bitmap_clr_range", "hwloc_bitmap_set_ith_ulong", "hwloc_bitmap_or", "hwloc_bitmap_and")


def define_before_accumulate(chk, P, funcs, rule="R-DEFINE"):
    """functions that DEFINE their destination (parsers, from_*, only, allbut): every read-modify-write of the destination is
    dominated by a call/stores that define the whole set, so the result does not depend on the previous contents"""
    n = 0
    for fname in funcs:
        f = P.need_func(fname, "bitmap.c")
        dst, ops = _bm_params(f)
        if not dst:
            chk.broke("%s: %s has no destination bitmap" % (rule, fname))
            continue
        d = dst[0]
        D = ("D", d, frozenset())
        canon = [(lambda fct, d=d: fct[0] == "call" and fct[1] in DEFINERS and fct[2] and fct[2][0] == d, D)]
        m = must.Must(f, canon=canon).run()
        k = 0
        for c in f.calls(ACCUM):
            if lv(args(c)[0]) != d:
                continue
            st = m.before.get(c["id"])
            if st is None:
                continue
            k += 1
            n += 1
            chk.inst(rule, f, "%s#%d" % (c["fn"], k), D in st, "%s(%s, ...) accumulates into the destination: it must be preceded on every path by a call that defines the whole set (%s)" % (c["fn"], d, "/".join(x.replace("hwloc_bitmap_", "") for x in DEFINERS[:3])), loc=f.loc(c))
        # direct word stores also need the set to have been sized
        for x in f.walk():
            a = assigned(x)
            if a:
                t = strip(a[0])
                if t["k"] == "Sub" and lv(t["c"][0]) == "%s->ulongs" % d and a[1] in ("|=", "&=", "^="):
                    st = m.before.get(x["id"])
                    if st is None:
                        continue
                    k += 1
                    n += 1
                    chk.inst(rule, f, "word-rmw#%d" % k, D in st, "read-modify-write of a destination word must follow a call that defines the set", loc=f.loc(x))
                elif t["k"] == "Sub" and lv(t["c"][0]) == "%s->ulongs" % d and a[1] == "=":
                    # a plain word store defines that word only: the EXTENT of the set must have been defined exactly before
                    # (reset_by_ulongs / zero / fill / copy; realloc_by_ulongs only grows and keeps stale upper words)
                    st = m.before.get(x["id"])
                    if st is None:
                        continue
                    k += 1
                    n += 1
                    chk.inst(rule, f, "word-store#%d" % k, D in st, "a word store into the destination must follow a call that defines the set's extent exactly "
                             "(reset_by_ulongs/zero/fill/copy, not realloc_by_ulongs which keeps stale upper words)", loc=f.loc(x))
        # failure path re-zeroes (documented: returns -1 with the set zeroed)
    return n


def early_minus_one(chk, P, rule="R-MINUS1"):
    """documented -1 conventions: weight/last/... test `infinite` before anything else"""
    n = 0
    for fname, want in (("hwloc_bitmap_weight", "T"), ("hwloc_bitmap_last", "T"), ("hwloc_bitmap_last_unset", "F"), ("hwloc_bitmap_nr_ulongs", "T")):
        f = P.need_func(fname, "bitmap.c")
        ok = False
        for r in returns(f):
            if r.get("c") and cval(r["c"][0]) == -1:
                m = must.Must(f).run()
                st = m.before.get(r["id"], frozenset())
                if any(x[0] == want and x[1].endswith("->infinite") for x in st):
                    ok = True
        n += 1
        chk.inst(rule, f, "infinite-gives-minus-one", ok, "a `return -1` is taken exactly under the %s edge of the infinite test" % ("true" if want == "T" else "false"))
    return n


STRFN = {"strchr": 0, "strrchr": 0, "strncmp": None, "strcmp": None, "strtoul": 0, "strtoull": 0, "strtol": 0, "strlen": 0, "strspn": 0, "strcspn": 0,
         "hwloc_strncasecmp": None, "strncasecmp": None, "atoi": 0, "sscanf": 0, "hwloc_type_sscanf": 0, "hwloc__type_match": 0}


def _prev_match_by_eval(P, f, call, x, ch=None):
    """second opinion by evaluation: on every path reaching `call`, x is the non-NULL result of the last strchr/strrchr search for a
    non-NUL character (the same character `ch` when given) -- whatever the loop form:  for (x = strchr(s, c); x; x = strchr(x+1, c))"""
    import peval
    seen = []
    def mark(env, rhs):
        r = strip(rhs) if rhs is not None else None
        if r is not None and r["k"] == "Call" and r.get("fn") in ("strchr", "strrchr") and len(args(r)) == 2 and cval(args(r)[1]):
            env["#pm"] = cval(args(r)[1])
        else:
            env.pop("#pm", None)
    def obs(n, env):
        if n["k"] == "DeclStmt":
            for v in n["c"]:
                if v["n"] == x:
                    mark(env, v["c"][0] if v.get("c") else None)
            return
        a = assigned(n)
        if a and lv(a[0]) == x:
            mark(env, a[2] if a[1] == "=" else None)
            return
        if n["id"] == call["id"]:
            pm = env.get("#pm")
            seen.append(env.get(x) == 1 and pm is not None and (ch is None or pm == ch))
    try:
        peval.PathEval(P, f, {}, is_effect=lambda *z: False, through_effects=True, observe=obs, split={x: (0, 1)}, track={x}, maxstates=50000).run()
    except AnalysisBroken:
        return False
    return bool(seen) and all(seen)


def nul_discipline(chk, P, unit, funcs, rule="R-NUL"):
    """scanners of NUL-terminated text: `p + k` (k >= 1) is handed to a string function only where p[0..k-1] are known to be
    non-NUL on every path: *p was tested, p is the non-NULL result of strchr for a non-NUL character, or a literal of
    length >= k was matched at p by strncmp"""
    n = 0
    for fname in funcs:
        f = P.need_func(fname, unit)

        def nz_matcher(fct):
            return None
        canon = []
        # candidate pointer variables: any local/param of char* type used as `X + k`
        sites = []
        for c in f.calls():
            fn = c.get("fn")
            if fn not in STRFN:
                continue
            for i, a in enumerate(args(c)):
                a2 = strip(a)
                if a2 is not None and a2["k"] == "Binary" and a2["op"] == "+" and cval(a2["c"][1]) is not None and cval(a2["c"][1]) >= 1:
                    x = lv(a2["c"][0])
                    t = f.type_of(strip(a2["c"][0]))
                    if x and t and t.get("ptr") and "char" in t["s"]:
                        sites.append((c, x, cval(a2["c"][1])))
        if not sites:
            continue
        vars_ = set(x for _, x, _ in sites)
        for x in vars_:
            NZ = ("NZ", x, frozenset())
            def mk(x=x):
                def m(fct):
                    if fct[0] == "T" and fct[1] in ("*%s" % x, "%s[0]" % x):
                        return True
                    if fct[0] == "T" and (fct[1].startswith("%s = strchr(" % x) or fct[1].startswith("%s = strrchr(" % x)):
                        return True
                    if fct[0] == "R" and (fct[1].startswith("*%s == " % x) or fct[1].startswith("%s[0] == " % x)) and not fct[1].endswith("== 0") and not fct[1].endswith("== '\\0'"):
                        return True
                    if fct[0] == "R" and (fct[1].startswith("*%s >= " % x) or fct[1].startswith("*%s > " % x)):
                        return True
                    if fct[0] == "F" and re.match(r"(hwloc_)?strn(case)?cmp\((\"[^\"]+\", %s|%s, \"[^\"]+\"), \d+\)$" % (re.escape(x), re.escape(x)), fct[1]):
                        return True
                    return False
                return m
            canon.append((mk(), NZ))

        class NoKillNZ(must.Must):
            pass
        m = must.Must(f, canon=canon).run()
        k = 0
        for c, x, off in sites:
            st = m.before.get(c["id"])
            if st is None:
                continue
            k += 1
            n += 1
            ok = ("NZ", x, frozenset()) in st
            if not ok and off == 1:
                ok = _prev_match_by_eval(P, f, c, x)
            if not ok and off >= 2:
                ok = any(fct[0] == "F" and "cmp(" in fct[1] and x in fct[1] and int(re.findall(r", (\d+)\)$", fct[1])[0]) >= off for fct in st if re.findall(r", (\d+)\)$", fct[1]))
            chk.inst(rule, f, "%s(%s+%d)#%d" % (c["fn"], x, off, k), ok,
                     "%s(%s + %d, ...): %s[0..%d] must be known non-NUL here on every path (otherwise the call starts past the terminator)" % (c["fn"], x, off, x, off - 1), loc=f.loc(c))
            # a search for character ch from x+1 misses an occurrence at x[0]: x[0] must be accounted for on every path --
            # x is the position just found by the same search (x[0] == ch) or x[0] was compared with ch
            if c["fn"] in ("strchr", "strrchr") and off == 1 and len(args(c)) == 2 and cval(args(c)[1]) is not None:
                ch = cval(args(c)[1])
                acc = False
                for fct in st:
                    if fct[0] == "T" and (fct[1].startswith("%s = strchr(" % x) or fct[1].startswith("%s = strrchr(" % x)):
                        acc = True      # loop-carried: x is the previous match (facts on x are killed when x is re-assigned)
                    if fct[0] in ("R", "T", "F") and re.match(r"(\*%s|%s\[0\]) (==|!=) (%d|'.')$" % (re.escape(x), re.escape(x), ch), fct[1]):
                        acc = True
                if not acc:
                    acc = _prev_match_by_eval(P, f, c, x, ch)
                n += 1
                chk.inst(rule, f, "%s(%s+1)#%d:skip" % (c["fn"], x, k), acc,
                         "%s(%s + 1, %s): an occurrence of the searched character at %s[0] is skipped unless %s is the previous match or %s[0] was compared with it on every path "
                         "(a count obtained this way disagrees with a scan that starts at %s[0])" % (c["fn"], x, repr(chr(ch)) if 32 <= ch < 127 else ch, x, x, x, x), loc=f.loc(c))
    return n


import re


# --------------------------------------------------------------------------------------------------------------------------
# R-DEFFLAG: a function that defines its destination defines the destination's `infinite` flag too
# --------------------------------------------------------------------------------------------------------------------------
def _flag_must_written(P, f, summaries):
    """-> {bitmap parameter name: True/False}: on every non-failing exit of f, has <param>->infinite been stored
    (directly, or by a callee that stores it on all of its own non-failing exits)?"""
    T = f.unit.types
    params = [p["n"] for p in f.params if T[p["t"]].get("prec") == "hwloc_bitmap_s" and not T[p["t"]].get("pconst")]
    if not params or f.entry is None:
        return {}
    canon = []
    for d in params:
        I = ("D", "infinite-defined:" + d, frozenset())
        def m_asg(fct, d=d):
            return fct[0] == "asg" and fct[1] == "%s->infinite" % d
        def m_call(fct, d=d):
            if fct[0] != "call":
                return False
            s = summaries.get(fct[1])
            return bool(s) and any(i < len(fct[2]) and fct[2][i] == d for i in s)
        canon.append((m_asg, I))
        canon.append((m_call, I))
    m = must.Must(f, canon=canon).run()
    out = {}
    rets = list(returns(f))
    for d in params:
        I = ("D", "infinite-defined:" + d, frozenset())
        ok = True
        seen = False
        for r in rets:
            v = cval(r["c"][0]) if r.get("c") else None
            if v is not None and v < 0:
                continue          # failing exit: the documented contract of a failed definition is not judged here
            st = m.before.get(r["id"])
            if st is None:
                continue          # unreachable
            seen = True
            ok = ok and I in st
        if f.exit in m.inb and not rets:
            seen = True
            ok = ok and I in m.inb[f.exit]
        out[d] = ok and seen
    return out


def flag_defined(chk, P, funcs, rule="R-DEFFLAG"):
    """every function of `funcs` (they define their destination from their other arguments only) stores the destination's
    `infinite` flag on every non-failing path, itself or through helpers that do so on all of their non-failing paths:
    otherwise the result depends on what the destination held before (history dependence)"""
    u = P.unit("bitmap.c")
    fs = [f for f in u.funcs(only_main=True) if f.entry is not None]
    summaries = {}
    # least fixpoint from below would miss mutual helpers; bitmap.c has no recursion among writers: iterate to stability
    for _ in range(6):
        changed = False
        for f in fs:
            res = _flag_must_written(P, f, summaries)
            idx = set(i for i, p in enumerate(f.params) if res.get(p["n"]))
            if summaries.get(f.name, set()) != idx:
                summaries[f.name] = idx
                changed = True
        if not changed:
            break
    n = 0
    for fname in funcs:
        f = P.need_func(fname, "bitmap.c")
        dst, ops = _bm_params(f)
        if not dst:
            chk.broke("%s: %s has no destination bitmap" % (rule, fname))
            continue
        d = dst[0]
        i = [k for k, p in enumerate(f.params) if p["n"] == d][0]
        n += 1
        ok = i in summaries.get(fname, set())
        chk.inst(rule, f, "infinite:" + d, ok, "%s defines %s from its other arguments: every non-failing exit is reached after %s->infinite was stored, directly or by a helper that stores it on all of its non-failing exits%s"
                 % (fname, d, d, "" if ok else " -- but some non-failing path leaves the flag as it was: the result depends on the destination's previous contents"))
    return n, summaries


# --------------------------------------------------------------------------------------------------------------------------
# R-GROWFIRST: the word count of a set is raised only after the allocation that makes room for it has succeeded
# --------------------------------------------------------------------------------------------------------------------------
def growers(P, u):
    """internal helpers of bitmap.c that can fail because an allocation failed: int functions with a `return -1`, a non-const
    bitmap parameter, that call realloc/malloc or another grower on that parameter; the public API is not a grower"""
    import peval
    api = P.public_api()
    G = {}
    canfail = {}
    fs = [f for f in u.funcs(only_main=True) if f.entry is not None and f.name not in api]
    for _ in range(4):
        for f in fs:
            if f.name in G:
                continue
            dst, _ops = _bm_params(f)
            if not dst or f.unit.types[f.d["ret"]]["s"] != "int":
                continue
            if f.name not in canfail:
                try:
                    o = peval.PathEval(P, f, {}, is_effect=lambda *z: False, through_effects=True, maxstates=20000, track=set()).run()
                    canfail[f.name] = any(t[0] == "return" and t[4] for t in o.terminals)
                except AnalysisBroken:
                    canfail[f.name] = False
            if not canfail[f.name]:
                continue
            idx = None
            for c in f.calls():
                if c.get("fn") in ("realloc", "malloc", "calloc"):
                    idx = [i for i, p in enumerate(f.params) if p["n"] == dst[0]][0]
                elif c.get("fn") in G and len(args(c)) > G[c["fn"]] and lv(args(c)[G[c["fn"]]]) in dst:
                    idx = [i for i, p in enumerate(f.params) if p["n"] == lv(args(c)[G[c["fn"]]])][0]
            if idx is not None:
                G[f.name] = idx
    return G


def grow_first(chk, P, rule="R-GROWFIRST"):
    """explored with <set>->ulongs_count seeded (7) and the scalar parameters bound to other constants; every call of a grower is
    forked into failed / succeeded; an exit reached with every grower call on the set having failed must still see the seeded
    count: a count stored before the allocation is known to have succeeded leaves ulongs_count > ulongs_allocated behind"""
    import peval
    u = P.unit("bitmap.c")
    G = growers(P, u)
    C0 = 7
    n = 0
    for f in u.funcs(only_main=True):
        if f.entry is None:
            continue
        dst, _ops = _bm_params(f)
        sites = {}
        for c in f.calls():
            if c.get("fn") in G and len(args(c)) > G[c["fn"]] and lv(args(c)[G[c["fn"]]]) in dst:
                sites[c["id"]] = lv(args(c)[G[c["fn"]]])
        # realloc of the word array in the function itself counts as a grow step of that function
        direct = []       # locals that receive the result of a realloc of the word array made by the function itself
        for x in f.walk():
            a = assigned(x)
            tgt = rhs = None
            if a and a[1] == "=" and a[2] is not None and strip(a[0])["k"] == "Ref":
                tgt, rhs = strip(a[0])["n"], strip(a[2])
            elif x["k"] == "Var" and x.get("c") and x["c"][0] is not None:
                tgt, rhs = x["n"], strip(x["c"][0])
            if tgt and rhs is not None and rhs["k"] == "Call" and rhs.get("fn") == "realloc":
                direct.append(tgt)
        if not sites and not (direct and dst):
            continue
        T = f.unit.types
        env = {}
        k = 11
        for p in f.params:
            t = T[p["t"]]
            if not t.get("ptr") and "w" in t:
                env[p["n"]] = k
                k += 6
        keys = set(sites.values()) | (set(dst[:1]) if direct else set())
        for d in keys:
            env["%s->ulongs_count" % d] = C0
            env["%s->ulongs_allocated" % d] = 8
        bad = {}
        reached = {}
        def hook(c, kind, upd, e, sites=sites):
            d = sites.get(c["id"])
            if d is None:
                return
            if kind == "fail":
                upd["#gf:" + d] = 1
            elif kind == "ok":
                upd["#gok:" + d] = 1
        def obs(nd, e, direct=direct, dst=dst):
            # a direct realloc: the forked value @id tells whether it failed
            pass
        def obx(kind, nd, e, keys=keys, f=f, bad=bad, reached=reached, direct=direct):
            for d in keys:
                failed = e.get("#gf:" + d) and not e.get("#gok:" + d)
                for x in direct:
                    if e.get(x) == 0:
                        failed = True
                    elif e.get(x) == 1:
                        failed = False
                if failed:
                    reached[d] = True
                    v = e.get("%s->ulongs_count" % d)
                    if v != C0:
                        bad.setdefault(d, (f.loc(nd) if nd is not None else f.name, v))
                    if direct and e.get("%s->ulongs_allocated" % d) != 8:
                        bad.setdefault(d, (f.loc(nd) if nd is not None else f.name, "kept, but ulongs_allocated was raised before the reallocation succeeded"))
        flsl = lambda c, a: (a[0].bit_length() if a and a[0] is not None and a[0] >= 0 else None)
        try:
            peval.PathEval(P, f, env, is_effect=lambda *z: False, through_effects=True, fork_hook=hook, observe_exit=obx, maxstates=100000,
                           call_values={"hwloc_flsl": flsl}, track=set(env) | set(direct)).run()
        except AnalysisBroken as ex:
            chk.broke("%s: %s not evaluable (%s)" % (rule, f.name, ex))
            continue
        for d in sorted(keys):
            if not reached.get(d):
                continue      # no exit with a failed grow (the failure is not propagated as a path here)
            n += 1
            hit = bad.get(d)
            chk.inst(rule, f, "count-after-grow:" + d, hit is None,
                     "every exit reached after the allocation for %s failed still sees the word count the set had on entry%s"
                     % (d, "" if hit is None else " -- but the exit at %s is reached with ulongs_count %s: the count was raised before the allocation was known to have succeeded, "
                        "so the set is left with more words counted than allocated" % (hit[0], "changed" if hit[1] is None else "== %s" % hit[1])))
    return n, G
