"""R-FSROOT: in topology-linux.c raw file-system calls only from the wrapper/owner set."""
from prog import *

RAW = ("open", "fopen", "opendir", "stat", "lstat", "access", "readlink", "openat", "fstatat", "readlinkat", "faccessat", "fdopen", "fdopendir")
OWNERS = {
    "hwloc_openat": "wrapper", "hwloc_fopenat": "wrapper", "hwloc_accessat": "wrapper", "hwloc_fstatat": "wrapper", "hwloc_opendirat": "wrapper", "hwloc_readlinkat": "wrapper",
    "hwloc_open": "wrapper", "hwloc_fopen": "wrapper", "hwloc_access": "wrapper", "hwloc_stat": "wrapper", "hwloc_lstat": "wrapper", "hwloc_opendir": "wrapper", "hwloc_readlink": "wrapper",
    "hwloc_checkat": "wrapper helper", "hwloc_linux_component_instantiate": "opens the HWLOC_FSROOT directory itself",
    "hwloc_linux_foreach_proc_tid": "walks the real /proc/<pid>/task of a live process (binding only, never discovery)",
    "hwloc_linux_get_proc_tids": "reads the real task list of a live process (binding only)",
    "hwloc_set_linuxfs_hooks": "probes weighted-interleave support of the running kernel (binding hooks)",
    "hwloc_linux_get_allowed_resources_hook": "opens the HWLOC_FSROOT directory itself (second opener, used outside discovery)",
    "hwloc_gather_system_info": "HWLOC_DUMP_NOFILE_INFO writer: creates the user-named dump file, reads nothing",
}


def run(chk, P, rule="R-FSROOT"):
    u = P.unit("topology-linux.c")
    n = 0
    outside = 0
    for f in u.funcs(only_main=True):
        k = 0
        for c in f.calls(RAW):
            k += 1
            n += 1
            own = OWNERS.get(f.name)
            ok = own is not None
            if not ok:
                outside += 1
            chk.inst(rule, f, "%s#%d" % (c["fn"], k), ok, "raw %s() in %s" % (c["fn"], ("owner %s (%s)" % (f.name, own)) if ok else f.name + ", which is not a wrapper/owner: the snapshot root would be bypassed"), loc=f.loc(c))
    return n
