"""R-OUTDEF: the set a binding getter hands back is defined before anything is accumulated into it.

hwloc_get_cpubind(), hwloc_get_proc_cpubind(), hwloc_get_last_cpu_location(), hwloc_get_area_memlocation() ... return "the current
binding": the result may not depend on what the caller's bitmap held before the call.  In the OS backend the result is built
by accumulating (hwloc_bitmap_set / _or / _set_ith_ulong into the output); every such accumulation must be preceded, on every path,
by an operation that DEFINES the output (zero, fill, copy, only, from_ulong, ...).  The per-thread callbacks define it on their
first invocation only (`if (!idx) hwloc_bitmap_zero(cpuset)`), so the functions are explored by seeded evaluation with their
integer parameters bound to 0 (first invocation): a defining call must have been executed on the same lvalue before the
accumulating call is reached.

Scope (discovered): the functions stored into the get_* slots of struct hwloc_binding_hooks by the unit, everything they reach
through direct calls and through functions passed as arguments (callbacks), and in them the accumulating calls whose destination
is an OUTPUT: a bitmap parameter, or a local initialised from a field of a record (the callback's data block) -- not a bitmap
the function allocated itself."""
from prog import *
import peval

DEFINERS = {"hwloc_bitmap_zero", "hwloc_bitmap_fill", "hwloc_bitmap_copy", "hwloc_bitmap_only", "hwloc_bitmap_allbut", "hwloc_bitmap_from_ulong",
            "hwloc_bitmap_from_ith_ulong", "hwloc_bitmap_from_ulongs", "hwloc_bitmap_sscanf", "hwloc_bitmap_list_sscanf", "hwloc_bitmap_taskset_sscanf",
            "hwloc_bitmap_not"}
# accumulating operations: destination index, operand indexes that make it a read-modify-write when equal to the destination (() = always)
ACC = {"hwloc_bitmap_or": (1, 2), "hwloc_bitmap_and": (1, 2), "hwloc_bitmap_xor": (1, 2), "hwloc_bitmap_andnot": (1,), "hwloc_bitmap_set": (),
       "hwloc_bitmap_set_range": (), "hwloc_bitmap_clr": (), "hwloc_bitmap_clr_range": (), "hwloc_bitmap_set_ith_ulong": ()}


def getter_closure(P, unit):
    u = P.unit(unit)
    roots = set()
    for f in u.funcs(only_main=True):
        for x in f.walk():
            a = assigned(x)
            if a and a[1] == "=" and a[2] is not None:
                t = strip(a[0])
                r = strip(a[2])
                if t["k"] == "Member" and t["f"].startswith("get_") and t.get("rec") == "hwloc_binding_hooks" and r is not None and r["k"] == "Ref" and u.func(r["n"]) is not None:
                    roots.add(r["n"])
    seen = set()
    work = sorted(roots)
    while work:
        fn = work.pop()
        if fn in seen:
            continue
        seen.add(fn)
        f = u.func(fn)
        if f is None or f.entry is None:
            continue
        for c in f.calls():
            if c.get("fn") and u.func(c["fn"]) is not None:
                work.append(c["fn"])
            for a in args(c):
                a2 = strip(a)
                if a2 is not None and a2["k"] == "Ref" and u.func(a2["n"]) is not None and a2.get("dk") not in ("local", "param"):
                    work.append(a2["n"])
    return roots, seen


def run(chk, P, unit="topology-linux.c", rule="R-OUTDEF"):
    u = P.unit(unit)
    roots, reach = getter_closure(P, unit)
    n = 0
    for fn in sorted(reach):
        f = u.func(fn)
        if f is None or f.entry is None:
            continue
        T = f.unit.types
        params = set(p["n"] for p in f.params)
        # locals that alias an output: initialised from a field of a record (the callback data block)
        from_field = set()
        for x in f.walk():
            if x["k"] == "Var" and x.get("c") and x["c"][0] is not None:
                r = strip(x["c"][0])
                if r is not None and r["k"] == "Member":
                    t = T[x["t"]] if "t" in x else None
                    if t and t.get("prec") == "hwloc_bitmap_s":
                        from_field.add(x["n"])
        sites = []
        for c in f.calls(tuple(ACC)):
            a = args(c)
            d = lv(a[0])
            if d is None:
                continue
            ops = ACC[c["fn"]]
            if ops and not any(i < len(a) and lv(a[i]) == d for i in ops):
                continue        # dst = x OP y with dst not an operand defines dst
            base = strip(a[0])
            if base["k"] != "Ref":
                continue        # a field of some object (discovery code), not a getter's output
            if not ((base["n"] in params and T[[p for p in f.params if p["n"] == base["n"]][0]["t"]].get("prec") == "hwloc_bitmap_s") or base["n"] in from_field):
                continue
            sites.append((c, d))
        if not sites:
            continue
        env = {}
        for p in f.params:
            t = T[p["t"]]
            if not t.get("ptr") and "w" in t:
                env[p["n"]] = 0
        bad = {}
        seen_site = set()
        def obs(nd, e, sites=sites, bad=bad, seen_site=seen_site, f=f):
            if nd["k"] != "Call":
                return
            if nd.get("fn") in DEFINERS and args(nd):
                k = lv(args(nd)[0])
                if k:
                    e["#def:" + k] = 1
                return
            for c, d in sites:
                if nd["id"] == c["id"]:
                    seen_site.add(c["id"])
                    if not e.get("#def:" + d):
                        bad.setdefault(c["id"], True)
        try:
            peval.PathEval(P, f, env, is_effect=lambda *z: False, through_effects=True, observe=obs, maxstates=100000,
                           track=set(env) | set(v9["n"] for v9 in f.walk() if v9["k"] == "Var" and "w" in (T[v9["t"]] if "t" in v9 else {})  # `int first = !idx;`
                                                and not T[v9["t"]].get("ptr"))).run()
        except AnalysisBroken as ex:
            chk.broke("%s: %s not evaluable (%s)" % (rule, f.name, ex))
            continue
        ordn = {}
        for c, d in sites:
            if c["id"] not in seen_site:
                continue
            n += 1
            ordn[(c["fn"], d)] = ordn.get((c["fn"], d), 0) + 1
            ok = c["id"] not in bad
            chk.inst(rule, f, "%s(%s)#%d" % (c["fn"].replace("hwloc_bitmap_", ""), d, ordn[(c["fn"], d)]), ok,
                     "%s accumulates into the output `%s` of a binding getter: on every path (explored as the first invocation, integer parameters 0) a defining operation on `%s` comes first%s"
                     % (c["fn"], d, d, "" if ok else " -- but a path reaches it with the output as the caller left it: the reported binding includes whatever the bitmap held before"), loc=f.loc(c))
    return n, roots
