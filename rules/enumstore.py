"""R-ENUMSTORE: a number converted from untrusted text is stored into an enum-typed field only after it was checked to be one
of the enumerators.

Consumers of such fields (printers, exporters, hwloc_topology_check) switch or assert on the enumerators; a value outside the
enumeration makes a successfully loaded topology abort later.  Decided by evaluation: the converted variable is forked over the
enumerators plus out-of-range representatives where it is produced (strtoul/strtol/atoi/sscanf), the function is explored and the
store must be unreachable for every out-of-range value.  Flag enumerations (all enumerators powers of two) are out of scope:
unknown bits are ignored by their consumers."""
from prog import *
import peval

CONVERTERS = ("strtoul", "strtoull", "strtol", "strtoll", "atoi", "atol", "sscanf")


def enum_values(u, en):
    e = u.enums.get(en)
    if e is None:
        return None
    return sorted(set(v for n, v in e["items"]))


def run(chk, P, unit, funcs=None, rule="R-ENUMSTORE"):
    n = 0
    u = P.unit(unit)
    for f in u.funcs(only_main=True):
        if funcs is not None and f.name not in funcs:
            continue
        if f.entry is None:
            continue
        # locals produced by a numeric conversion
        conv = set()
        for x in f.walk():
            if x["k"] == "Var" and x.get("c") and x["c"][0] is not None:
                r = strip(x["c"][0])
                if r["k"] == "Call" and r.get("fn") in CONVERTERS:
                    conv.add(x["n"])
            a = assigned(x)
            if a and a[1] == "=" and a[2] is not None and strip(a[2])["k"] == "Call" and strip(a[2]).get("fn") in CONVERTERS and lv(a[0]):
                conv.add(lv(a[0]))
            if x["k"] == "Call" and x.get("fn") == "sscanf":
                for z in args(x)[2:]:
                    z2 = strip(z)
                    if z2["k"] == "Unary" and z2["op"] == "&" and lv(z2["c"][0]):
                        conv.add(lv(z2["c"][0]))
        if not conv:
            continue
        stores = []
        for x in f.walk():
            a = assigned(x)
            if not a or a[1] != "=" or a[2] is None:
                continue
            tt = f.type_of(strip(a[0])) or {}
            en = tt.get("en")
            if not en:
                continue
            # scope: fields of the object attribute union (consumers assert/switch on them); other enum-typed stores
            # (diff entries) are consumed by switches with a default and are left alone
            y, in_attr = strip(a[0]), False
            while y is not None and y["k"] in ("Member", "Sub"):
                if y["k"] == "Member" and y.get("rec") == "hwloc_obj_attr_u":
                    in_attr = True
                y = strip(y["c"][0])
            if not in_attr:
                continue
            r = strip(a[2])
            k = lv(r)
            if k in conv:
                vals = enum_values(u, en)
                if not vals:
                    continue
                if all(v > 0 and (v & (v - 1)) == 0 for v in vals if v) and len([v for v in vals if v]) >= 3:
                    chk.inst(rule, f, "store:%s" % lv(a[0]), True, "flag enumeration %s: unknown bits are ignored by consumers (out of scope)" % en, loc=f.loc(x), nontrivial=False, info=True)
                    continue
                stores.append((x, k, en, vals))
        if not stores:
            continue
        split = {}
        for x, k, en, vals in stores:
            bad = [max(vals) + 1, max(vals) + 6, 0x7fffffff]
            split[k] = sorted(set(vals) | set(bad))
        ids = {x["id"]: (k, en, vals) for x, k, en, vals in stores}
        seen = {}
        def obs(nd, env, ids=ids, seen=seen):
            if nd["id"] in ids:
                seen.setdefault(nd["id"], set()).add(env.get(ids[nd["id"]][0]))
        try:
            peval.PathEval(P, f, {}, is_effect=lambda *a: False, through_effects=True, observe=obs, split=split, track=set(split), maxstates=200000).run()
        except AnalysisBroken as e:
            chk.broke("%s: %s not evaluable (%s)" % (rule, f.name, e))
            continue
        for x, k, en, vals in stores:
            n += 1
            got = seen.get(x["id"], set())
            bad = sorted(str(v) if v is not None else "<unchecked>" for v in got if v not in vals)
            chk.inst(rule, f, "store:%s" % lv(assigned(x)[0]), bool(got) and not bad,
                     "`%s` (converted from text) is stored into the %s field %s" % (k, en, "only when it equals an enumerator %s" % vals if got and not bad else
                                                                                 ("with out-of-range value(s) %s: consumers assert/switch on the enumerators" % ", ".join(bad[:4]) if got else "on no explored path (store not reached)")), loc=f.loc(x))
    return n
