"""R-BUFSIZE: a heap buffer handed to an snprintf-like producer is handed over with exactly its allocated size.

For every `B = malloc(E)` (calloc/realloc) in a function and every later call P(..., B, S, ...) where (B, S) fill an adjacent
(char *buffer, integer size) parameter pair of P (snprintf, vsnprintf and every function of the program with such a pair):
S and E are the same expression (named temporaries resolved).  A larger S overflows the buffer; a smaller one truncates
output that was sized exactly (the length query of the asprintf idiom)."""
from prog import *
import extent

LIBC_PAIRS = {"snprintf": (0, 1), "vsnprintf": (0, 1), "strncpy": None, "memcpy": None}


def norm(e, defs, depth=0):
    e = strip(e)
    if e is None:
        return "?"
    if depth < 3 and e["k"] == "Ref" and e["n"] in defs:
        return norm(defs[e["n"]], defs, depth + 1)
    if e["k"] == "Binary" and e["op"] in ("+", "*"):
        a, b = norm(e["c"][0], defs, depth), norm(e["c"][1], defs, depth)
        return "(%s%s%s)" % tuple([sorted([a, b])[0], e["op"], sorted([a, b])[1]])
    if e["k"] == "Binary":
        return "(%s%s%s)" % (norm(e["c"][0], defs, depth), e["op"], norm(e["c"][1], defs, depth))
    v = cval(e)
    if v is not None:
        return "#%d" % v
    return lv(e) or src(e)


def pairs_of(g):
    out = []
    ps = g.params
    T = g.unit.types
    for i in range(len(ps) - 1):
        a, b = T[ps[i]["t"]], T[ps[i + 1]["t"]]
        sa = a.get("s", "").replace("restrict", "").replace("__", "").replace(" ", "")
        if sa == "char*" and not a.get("pconst") and "w" in b and not b.get("ptr") and b.get("w", 0) >= 32:      # a buffer that is written
            out.append((i, i + 1))
    return out


def run(chk, P, units=None, rule="R-BUFSIZE"):
    n = 0
    pcache = {}
    for f in P.all_funcs():
        if units is not None and os.path.basename(f.file) not in units:
            continue
        if f.entry is None:
            continue
        allocs = {}       # buffer key -> [(size expr, line)]
        for x in f.walk():
            tgt = rhs = None
            a = assigned(x)
            if a and a[1] == "=" and a[2] is not None:
                tgt, rhs = lv(a[0]), strip(a[2])
            elif x["k"] == "Var" and x.get("c") and x["c"][0] is not None:
                tgt, rhs = x["n"], strip(x["c"][0])
            if tgt and rhs is not None and rhs["k"] == "Call" and rhs.get("fn") in ("malloc", "realloc", "calloc"):
                ar = args(rhs)
                e = ar[0] if rhs["fn"] == "malloc" else (ar[1] if rhs["fn"] == "realloc" else None)
                if e is not None:
                    allocs.setdefault(tgt, []).append((e, rhs.get("l", 0)))
        # B = tmp after tmp = realloc(B, E): the buffer now has E bytes
        for x in f.walk():
            a = assigned(x)
            if a and a[1] == "=" and a[2] is not None:
                tk, rk = lv(a[0]), lv(a[2])
                if tk and rk and rk in allocs and tk != rk and cval(a[2]) is None:
                    for (e, l) in list(allocs[rk]):
                        allocs.setdefault(tk, []).append((e, max(l, x.get("l", 0))))
        if not allocs:
            continue
        defs = extent.single_defs(f)
        # the sized variable itself may be re-assigned by the producer's result (length = P(buf, length+1)): do not resolve it
        k = 0
        for c in f.calls():
            fn = c.get("fn")
            if fn in LIBC_PAIRS:
                prs = [LIBC_PAIRS[fn]] if LIBC_PAIRS[fn] else []
            else:
                g = P.func(fn) if fn else None
                if g is None:
                    continue
                if fn not in pcache:
                    pcache[fn] = pairs_of(g)
                prs = pcache[fn]
            for (bi, si) in prs:
                if si >= len(args(c)):
                    continue
                bk = lv(args(c)[bi])
                if bk not in allocs:
                    continue
                cand = [(e, l) for (e, l) in allocs[bk] if l <= c.get("l", 0)]
                if not cand:
                    continue
                e, l = max(cand, key=lambda t: t[1])
                k += 1
                n += 1
                se, ss = norm(e, defs), norm(args(c)[si], defs)
                chk.inst(rule, f, "%s(%s)#%d" % (fn, bk, k), se == ss,
                         "`%s` was allocated with %s bytes at line %s and is handed to %s() with size %s%s" % (bk, src(strip(e)), l, fn, src(strip(args(c)[si])),
                                                                                                              "" if se == ss else ": the two differ"), loc=f.loc(c))
    return n
