"""R-UNINIT: the value of a fallible reader is not used when the reader failed.

A local scalar declared WITHOUT an initialiser whose address is handed to a reader that stores through that parameter on its
successful paths only (hwloc_read_path_as_uint(path, &v, fd): `*value = ...` after the failure return) holds an indeterminate
value when the reader failed.  Every read of such a local must be unreachable on the paths where the reader failed and nothing
else assigned it.

Decided by evaluation, nothing is matched: readers are DISCOVERED by exploring every function that stores through a pointer
parameter (all exits on which the parameter was not stored are failure returns, and a successful exit exists); each function with
such a local is explored by seeded constant propagation, forking at each call into "callee failed" / "callee succeeded" with the
callee's own return values, so `if (read(..) < 0) continue;`, `err = read(..); if (!err)`, `if (read(..) == 0 && v > 3)`, flag
variables and early returns are all followed.  Locals with an initialiser or assigned before the call keep their value on failure:
not judged.  A reader that cannot be evaluated at a call site is taken to have stored (no alarm)."""
from prog import *
import peval

_SUM = {}


def _scalar(t):
    return not t.get("arr") and not t.get("rec") and t.get("s") not in ("void",) and not str(t.get("s", "")).startswith(("struct ", "union "))


def _input_dependent_failure(g):
    """does some failing return of g sit under a condition that consults a call result (a file read, a string comparison, a
    conversion)?  A function that fails only on tests of its arguments and of the topology state (id >= nr, flags != 0) fails on a
    violated precondition, which callers commonly exclude by construction: such failures are not taken to be feasible here."""
    fromcall = set()
    for n in g.walk():
        a = assigned(n)
        if a and a[2] is not None and lv(a[0]) and any(s["k"] == "Call" for s in subnodes(a[2])):
            fromcall.add(lv(a[0]))
        elif n["k"] == "Var" and n.get("c") and n["c"][0] is not None and any(s["k"] == "Call" for s in subnodes(n["c"][0])):
            fromcall.add(n["n"])
    def consults(cond):
        return cond is not None and any(s["k"] == "Call" or (s["k"] == "Ref" and s["n"] in fromcall) for s in subnodes(cond))
    for r in g.walk():
        if r["k"] != "Return" or not r.get("c") or r["c"][0] is None:
            continue
        v = cval(r["c"][0])
        if v is None or v >= 0:
            continue
        for anc in g.ancestors(r):
            if anc["k"] in ("If", "While", "For", "Do", "Switch", "Cond") and anc.get("c"):
                conds = [anc["c"][0]] if anc["k"] != "For" else [anc["c"][1]]
                if any(consults(c) for c in conds):
                    return True
    # failure reached through a label:  if (read(..) < 0) goto out;  ...  out: return -1;
    for n in g.walk():
        if n["k"] == "Goto":
            for anc in g.ancestors(n):
                if anc["k"] == "If" and consults(anc["c"][0]):
                    return True
    return False


def reader_params(P, g):
    """indices of pointer parameters that g stores through on its successful paths only"""
    if g.name in _SUM:
        return _SUM[g.name]
    _SUM[g.name] = ()     # recursion guard
    T = g.unit.types
    cands = {}
    for i, p in enumerate(g.params):
        t = T[p["t"]]
        if t.get("ptr") and not t.get("pconst"):
            cands[p["n"]] = i
    if not cands or g.entry is None or T[g.d["ret"]].get("ptr") or T[g.d["ret"]]["s"] == "void":
        return ()
    def through(k, pn):
        return k is not None and (k in ("(*%s)" % pn, "%s[0]" % pn) or k.startswith(pn + "->") or k.startswith("(*%s)." % pn))
    stored_somewhere = set()
    for n in g.walk():
        a = assigned(n)
        if a:
            k = lv(a[0])
            for pn in cands:
                if through(k, pn):
                    stored_somewhere.add(pn)
    if not stored_somewhere:
        return ()
    exits = {pn: [] for pn in stored_somewhere}
    def obs(n, env):
        a = assigned(n)
        if a:
            k = lv(a[0])
            for pn in stored_somewhere:
                if through(k, pn):
                    env["?" + pn] = 0
                elif k == pn:
                    env["?" + pn] = 2      # the parameter itself is re-pointed: unknown
    def obx(kind, n, env):
        v = None
        if kind == "return" and n.get("c") and n["c"][0] is not None:
            v = peval.Evaluator(g, env).ev(n["c"][0])
        for pn in stored_somewhere:
            exits[pn].append((v, env.get("?" + pn)))
    try:
        peval.PathEval(P, g, {("?" + pn): 1 for pn in stored_somewhere}, is_effect=lambda *z: False, through_effects=True, observe=obs, observe_exit=obx, maxstates=20000).run()
    except AnalysisBroken:
        return ()
    out = []
    for pn in sorted(stored_somewhere):
        ex = exits[pn]
        if any(d == 2 for v, d in ex):
            continue
        # the claim made for callers concerns the FAILED outcome only: some failing exit has stored nothing through the parameter
        # (scalar or record) -- after a failed call the caller's variable MAY be as it was -- and the function does store on some
        # successful exit
        failing = [d for v, d in ex if v is not None and v < 0]
        stored_ok = [v for v, d in ex if d == 0 and v is not None and v >= 0]
        if failing and stored_ok and any(d == 1 for d in failing) and _input_dependent_failure(g):
            out.append(cands[pn])
    _SUM[g.name] = tuple(out)
    return _SUM[g.name]


def run(chk, P, units, rule="R-UNINIT", maxstates=150000):
    readers = {}
    nsites = 0
    for u in units:
        for f in P.unit(u).funcs(only_main=True):
            if f.entry is None:
                continue
            T = f.unit.types
            bare = set()
            nullp = set()      # pointer locals initialised to NULL: a failed reader leaves them NULL
            for n in f.walk():
                if n["k"] == "Var" and not (n.get("c") and n["c"][0] is not None) and (_scalar(T[n["t"]]) or (T[n["t"]].get("rec") and not T[n["t"]].get("arr"))) and not n.get("static"):
                    bare.add(n["n"])      # scalars, and struct/union locals (read field by field)
                elif n["k"] == "Var" and n.get("c") and n["c"][0] is not None and T[n["t"]].get("ptr") and cval(n["c"][0]) == 0 and not n.get("static"):
                    nullp.add(n["n"])
            nullp -= bare
            bare |= nullp
            sites = []
            if not bare:
                continue
            for c in f.calls():
                # readers are discovered on demand: the callee of every call that receives the address of a bare local
                for i, a in enumerate(args(c)):
                    a = strip(a)
                    if a is not None and a["k"] == "Unary" and a["op"] == "&" and lv(a["c"][0]) in bare and c.get("fn"):
                        g = P.func(c["fn"])
                        if g is not None and g.entry is not None and i in reader_params(P, g):
                            readers[g.name] = reader_params(P, g)
                            sites.append((c["id"], lv(a["c"][0])))
            if not sites:
                continue
            byc = {}
            for cid, v in sites:
                byc.setdefault(cid, []).append(v)
            bad = {}
            vars_ = set()
            def obs(n, env, f=f, vars_=vars_, byc=byc, bad=bad, nullp=nullp):
                k = n["k"]
                if k == "DeclStmt":
                    for v in n["c"]:
                        if v["n"] in vars_:
                            if v.get("c") and v["c"][0] is not None:
                                env["?" + v["n"]] = 3 if (v["n"] in nullp and cval(v["c"][0]) == 0) else 0
                            else:
                                env["?" + v["n"]] = 1
                            env.pop("?@" + v["n"], None)
                    return
                a = assigned(n)
                if a and lv(a[0]) in vars_ and a[1] == "=":
                    env["?" + lv(a[0])] = 3 if (lv(a[0]) in nullp and a[2] is not None and cval(a[2]) == 0) else 0
                    return
                if a and a[1] == "=" and lv(a[0]) and lv(a[0]).split(".")[0] in vars_ and "->" not in lv(a[0]):
                    env["?" + lv(a[0]).split(".")[0]] = 0      # a field of a record local is stored: taken to be defined from here on
                    return
                if k == "Call" and n["id"] not in byc:
                    # address handed to anything else: taken to be stored
                    for x in n["c"][1:]:
                        x2 = strip(x)
                        if x2 is not None and x2["k"] == "Unary" and x2["op"] == "&" and lv(x2["c"][0]) in vars_:
                            env["?" + lv(x2["c"][0])] = 0
                    return
                if k in ("Member", "Unary", "Sub"):
                    base = None
                    if k == "Member" and n.get("arrow"):
                        base = lv(n["c"][0])
                    elif k == "Unary" and n["op"] == "*":
                        base = lv(n["c"][0])
                    elif k == "Sub":
                        base = lv(n["c"][0])
                    if base in vars_ and env.get("?" + base) == 3 and env.get("?@" + base) is not None and env.get(base) == 0:
                        bad.setdefault((base, env["?@" + base]), f.loc(n))
                    return
                if k == "Ref" and n["n"] in vars_ and env.get("?" + n["n"]) == 1 and env.get("?@" + n["n"]) is not None:
                    top = n
                    par = f.par(n)
                    while par is not None and (par["k"] == "Cast" or (par["k"] == "Member" and not par.get("arrow") and strip(par["c"][0]) is top)):
                        top = par
                        par = f.par(par)
                    if par is not None and ((par["k"] == "Unary" and par["op"] == "&") or par["k"] == "SizeOf" or (par["k"] == "Binary" and par["op"] == "=" and strip(par["c"][0]) is strip(top))):
                        return
                    bad.setdefault((n["n"], env["?@" + n["n"]]), f.loc(n))
            def hook(c, kind, upd, env, byc=byc, vars_=vars_):
                vs = byc.get(c["id"])
                if not vs:
                    return
                for v in vs:
                    if v not in vars_:
                        continue
                    if kind in ("ok", "none"):
                        upd["?" + v] = 0
                    elif env.get("?" + v) == 1:
                        upd["?@" + v] = c.get("l") or 0
                    elif env.get("?" + v) == 3:
                        upd["?@" + v] = c.get("l") or 0
                        upd[v] = 0          # still NULL: tests of the pointer are evaluated
            # constants are kept only for status/flag locals: every assignment is a constant or the result of a call
            flagv = {}
            for n in f.walk():
                tgt = rhs = None
                a = assigned(n)
                if a and lv(a[0]) and strip(a[0])["k"] == "Ref":
                    tgt, rhs = lv(a[0]), (a[2] if a[1] == "=" else False)
                elif n["k"] == "Var" and n.get("c") and n["c"][0] is not None:
                    tgt, rhs = n["n"], n["c"][0]
                if tgt is None:
                    continue
                good = rhs is not False and rhs is not None and (cval(rhs) is not None or strip(rhs)["k"] == "Call")
                flagv[tgt] = flagv.get(tgt, True) and good
            track = set(k for k, v in flagv.items() if v)
            broken = False
            for one in sorted(set(v for _, v in sites)):
                # one exploration per local: the states of different locals do not multiply.  First with constants kept only for
                # the locals that receive the reader's result (more paths than feasible: a pass is sound); a report is re-examined
                # with every status/flag local kept (fewer infeasible paths) and only that verdict counts
                vars_.clear()
                vars_.add(one)
                errv = set()
                for cid, v in sites:
                    if v == one:
                        par = f.par(f.nodes[cid])
                        while par is not None and par["k"] == "Cast":
                            par = f.par(par)
                        if par is not None:
                            a = assigned(par)
                            if a and lv(a[0]):
                                errv.add(lv(a[0]))
                            elif par["k"] == "Var":
                                errv.add(par["n"])
                for tr in (errv | {one}, track | {one}):
                    for k0 in [k for k in bad if k[0] == one]:
                        del bad[k0]
                    try:
                        peval.PathEval(P, f, {}, is_effect=lambda *z: False, through_effects=True, observe=obs, fork_hook=hook, maxstates=maxstates, track=set(tr)).run()
                    except AnalysisBroken as ex:
                        chk.broke("%s: %s not evaluable for `%s` (%s)" % (rule, f.name, one, ex))
                        broken = True
                        break
                    if not any(k[0] == one for k in bad):
                        break
            if broken:
                continue
            ordn = {}
            for cid, v in sites:
                nsites += 1
                c = f.nodes[cid]
                hit = bad.get((v, c.get("l") or 0))
                ordn[(v, c["fn"])] = ordn.get((v, c["fn"]), 0) + 1
                chk.inst(rule, f, "%s@%s#%d" % (v, c["fn"], ordn[(v, c["fn"])]), hit is None,
                         ("`%s` is NULL until %s() fills it, on success only: it is not dereferenced on a path where that call failed%s" if v in nullp else
                          "`%s` is declared without a value and filled by %s() on success only: it is not read on a path where that call failed%s")
                         % (v, c["fn"], "" if hit is None else " -- but it is %s at %s after the call at line %s failed" % ("dereferenced" if v in nullp else "read", hit, c.get("l"))), loc=f.loc(c))
    return nsites, len(readers)


RULE_TEXT = ("a local declared without a value and filled by a fallible reader (a function that stores through the parameter on its successful paths only; "
             "discovered from the callees that receive the local's address) is never read on a path where that reader failed: each function is explored "
             "with callee outcomes forked into failed / succeeded")


def wire(chk, P, units, floor_sites, floor_readers=1):
    chk.rule("R-UNINIT", RULE_TEXT)
    units = [u for u in units if u in P.units]
    n, r = run(chk, P, units)
    chk.floor("R-UNINIT", "reader call sites on bare locals", n, floor_sites)
    chk.floor("R-UNINIT", "fallible readers discovered", r, floor_readers)
    return n
