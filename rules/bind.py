"""R-BIND: binding dispatch discipline in hwloc/bind.c (C10)."""
from prog import *
import must, peval

FIXERS = ("hwloc_fix_cpubind", "hwloc_fix_membind", "hwloc_fix_membind_cpuset")


def hook_calls(f):
    for c in f.calls():
        if c.get("fn") is not None:
            continue
        ce = strip(c["c"][0])
        if ce["k"] == "Member" and ce.get("rec") == "hwloc_binding_hooks":
            yield c, ce


def run(chk, P, E, rule="R-BIND"):
    u = P.unit("bind.c")
    n_hook = 0
    entry = [f for f in u.funcs(only_main=True)]
    # ---- (1)(3)(4): every hook call guarded by a test of its own slot; set/alloc hooks get a fixed, checked set;
    #      membind set/alloc hooks are preceded by the policy check
    for f in entry:
        calls = list(hook_calls(f))
        if not calls:
            continue
        m = must.Must(f).run()
        ordn = {}
        for c, ce in calls:
            slot = ce["f"]
            ordn[slot] = ordn.get(slot, 0) + 1
            cons = "%s#%d" % (slot, ordn[slot])
            st = m.before.get(c["id"])
            if st is None:
                continue    # unreachable
            n_hook += 1
            ctext = src(ce)
            chk.inst(rule, f, "guard:" + cons, must.nonnull(st, ctext),
                     "indirect call %s(...) must be dominated by a non-NULL test of the same slot" % ctext, loc=f.loc(c))
            if slot.startswith("set_") or slot == "alloc_membind":
                # the bitmap argument
                barg = None
                for a in args(c):
                    t = f.type_of(strip(a))
                    if t and t.get("prec") == "hwloc_bitmap_s":
                        barg = strip(a)
                ok = False
                why = "no bitmap argument found"
                if barg is not None:
                    key = lv(barg)
                    why = "set argument %s is not the checked result of hwloc_fix_cpubind/hwloc_fix_membind on every path" % src(barg)
                    for fct in st:
                        if fct[0] == "asg" and fct[1] == key and any(fct[2].startswith(fx + "(") for fx in FIXERS[:2]):
                            if must.nonnull(st, key):
                                ok = True
                chk.inst(rule, f, "fixed-set:" + cons, ok, "ok" if ok else why, loc=f.loc(c))
                if "membind" in slot:
                    okp = must.has(st, "F", "hwloc__check_membind_policy(policy) < 0")
                    chk.inst(rule, f, "policy:" + cons, okp, "membind set/alloc hook must be dominated by a passed hwloc__check_membind_policy(policy)", loc=f.loc(c))
    # ---- (6) the three fixers: emptiness and inclusion tests precede every success return
    for name in FIXERS:
        f = P.need_func(name, "bind.c")
        arg = f.params[1]["n"] if name != "hwloc_fix_membind_cpuset" else f.params[2]["n"]

        class NoKill(must.Must):
            def kill(self, st, key):
                if key == arg:
                    # facts about the argument value stay: they are about what the caller passed
                    return st
                return must.Must.kill(self, st, key)
        m = NoKill(f).run()
        rn = 0
        for r in returns(f):
            st = m.before.get(r["id"])
            if st is None:
                continue
            e = r["c"][0] if r.get("c") else None
            v = cval(e)
            is_fail = (v == 0) if name != "hwloc_fix_membind_cpuset" else (v is not None and v != 0)
            if is_fail:
                # failure must set errno = EINVAL: checked by R-ERRNO below
                continue
            rn += 1
            ok1 = must.has(st, "F", "hwloc_bitmap_iszero(%s)" % arg)
            ok2 = False
            for fct in st:
                if fct[0] == "T" and fct[1].startswith("hwloc_bitmap_isincluded(%s, " % arg):
                    second = fct[1][len("hwloc_bitmap_isincluded(%s, " % arg):-1]
                    if "get_complete_" in second:
                        ok2 = True
                    for g in st:
                        if g[0] == "asg" and g[1] == second and "get_complete_" in g[2]:
                            ok2 = True
            chk.inst(rule, f, "nonempty-before-return#%d" % rn, ok1, "success return must be dominated by the failed test hwloc_bitmap_iszero(%s)" % arg, loc=f.loc(r))
            chk.inst(rule, f, "included-before-return#%d" % rn, ok2, "success return must be dominated by hwloc_bitmap_isincluded(%s, <complete set>) having held" % arg, loc=f.loc(r))
        # the replacement "covers topology set => complete set"
        found = False
        for n in f.walk():
            if n["k"] == "Call" and n.get("fn") == "hwloc_bitmap_isincluded":
                a = args(n)
                if lv(a[1]) == arg:
                    found = True
        chk.inst(rule, f, "covering-replacement", found, "test 'topology set included in %s' (replacement by the complete set) present" % arg)
    # ---- (5) R-ERRNO: every failure return of a public binding entry point has errno set
    api = P.public_api()
    pub = [f for f in entry if not f.d["static"] and f.name in api and (f.name.startswith("hwloc_set_") or f.name.startswith("hwloc_get_") or f.name.startswith("hwloc_alloc_membind"))]
    pub += [P.need_func(n, "bind.c") for n in FIXERS]
    for f in pub:
        out = peval.PathEval(P, f, {}, is_effect=lambda ff, n, env: False, through_effects=True).run()
        bad = [t for t in out.terminals if t[0] == "return" and t[4] and (t[2] is None or (isinstance(t[2], frozenset) and "None" in t[2]))]
        chk.inst("R-ERRNO", f, "failure-sets-errno", not bad,
                 "failure return at %s reachable without errno being set" % bad[0][3] if bad else
                 "%d failure returns all have errno set (directly or by the failing callee)" % len([t for t in out.terminals if t[0] == "return" and t[4]]))
    # ---- (7) dummy hooks
    rec = u.records.get("hwloc_binding_hooks")
    if rec is None:
        chk.broke("struct hwloc_binding_hooks not found")
        return n_hook
    dummy = P.need_func("hwloc_set_dummy_hooks", "bind.c")
    assigned_slots = {}
    for n in dummy.walk():
        a = assigned(n)
        if a and strip(a[0])["k"] == "Member" and strip(a[0]).get("rec") == "hwloc_binding_hooks":
            r = strip(a[2])
            assigned_slots[strip(a[0])["f"]] = r["n"] if r["k"] == "Ref" else None
    EXC = {"get_allowed_resources": "discovery helper, not a binding query",
           "get_thread_last_cpu_location": "slot exists only with hwloc_thread_t; left NULL (ENOSYS) - TODO in source",
           "alloc": "plain allocation falls back to hwloc_alloc_heap",
           "set_thread_cpubind": "only with hwloc_thread_t", "get_thread_cpubind": "only with hwloc_thread_t"}
    for fld in rec["fields"]:
        nm = fld["n"]
        if nm in assigned_slots:
            tgt = assigned_slots[nm]
            chk.inst(rule, dummy, "dummy-slot:" + nm, tgt is not None, "slot %s = %s" % (nm, tgt))
            if tgt is None:
                continue
            S = E.sum.get(tgt)
            g = P.func(tgt, "bind.c")
            if S is None or g is None:
                chk.inst(rule, dummy, "dummy-target:" + nm, False, "dummy hook %s not found" % tgt)
                continue
            if nm.startswith("set_") or nm in ("free_membind",):
                eff = [r for r in list(S.mod) + list(S.free) if r[0] in ("arg", "glob", "unknown", "static")] + list(S.ext)
                if nm == "free_membind":
                    # releasing the buffer handed out by the dummy allocator is the hook's purpose
                    eff = [r for r in eff if not (isinstance(r, tuple) and r[0] == "arg" and r[1] == 1 and r in S.free and r not in S.mod)]
                rets = [cval(r["c"][0]) for r in returns(g)]
                chk.inst(rule, g, "dontset-no-effect", not eff and rets and all(v == 0 for v in rets),
                         "set-hook of a foreign topology must have no effect and return 0 (effects: %s, returns: %s)" % (eff[:3], rets))
            elif nm.startswith("get_"):
                # writes only its set/policy arguments, no OS call, and copies the complete set
                bad = [r for r in list(S.mod) + list(S.free) if r[0] in ("glob", "unknown")] + [e for e in S.ext]
                reach = E.reach(tgt)
                cp = "hwloc_bitmap_copy" in reach and ("hwloc_topology_get_complete_cpuset" in reach or "hwloc_topology_get_complete_nodeset" in reach)
                chk.inst(rule, g, "dontget-complete", not bad and cp,
                         "get-hook of a foreign topology reports the complete set without any system call (effects %s, copies complete set: %s)" % (bad[:3], cp))
        elif nm in EXC:
            chk.inst(rule, dummy, "dummy-slot:" + nm, True, "frozen exception: " + EXC[nm], nontrivial=False)
        else:
            chk.inst(rule, dummy, "dummy-slot:" + nm, False, "slot %s of struct hwloc_binding_hooks is not given a dummy hook" % nm)
    # ---- (8) dummy hooks chosen exactly on the !IS_THISSYSTEM branch
    sb = P.need_func("hwloc_set_binding_hooks", "bind.c")
    m = must.Must(sb).run()
    for c in sb.calls(("hwloc_set_dummy_hooks", "hwloc_set_native_binding_hooks")):
        st = m.before.get(c["id"], frozenset())
        txt = [f2[1] for f2 in st if f2[0] in ("T", "F") and "IS_THISSYSTEM" in f2[1]]
        want = "F" if c["fn"] == "hwloc_set_dummy_hooks" else "T"
        ok = any(f2[0] == want and "IS_THISSYSTEM" in f2[1] and "topology->state" in f2[1] for f2 in st)
        chk.inst(rule, sb, "select:" + c["fn"], ok, "%s must be selected on the %s edge of the IS_THISSYSTEM test of topology->state" % (c["fn"], "false" if want == "F" else "true"), loc=sb.loc(c))
    return n_hook


def dispatch_exclusive(chk, P, unit="bind.c", rule="R-BIND"):
    """an explicit target is honoured: in every dispatching function that can call both a *thisproc* and a *thisthread* hook, with the
    flags word seeded to the function's own ..._PROCESS constant no thisthread hook is reachable, and with ..._THREAD no thisproc hook
    (seeded constant propagation; how the dispatch is written -- else-if chain, early returns, switch -- does not matter).  Without
    either bit the documented fallback order is not judged here."""
    import peval
    n = 0
    for f in P.unit(unit).funcs(only_main=True):
        if f.entry is None:
            continue
        hooks = []
        for c in f.calls():
            if c.get("fn") is not None:
                continue
            ce = strip(c["c"][0])
            if ce is not None and ce["k"] == "Member" and ("thisproc" in ce["f"] or "thisthread" in ce["f"]):
                hooks.append((c, "proc" if "thisproc" in ce["f"] else "thread", ce["f"]))
        if not (any(k == "proc" for _, k, _ in hooks) and any(k == "thread" for _, k, _ in hooks)):
            continue
        fl = [p["n"] for p in f.params if p["n"] == "flags"]
        consts = {}
        for r in f.walk():
            if r["k"] == "Ref" and r.get("dk") == "enum" and r.get("n", "").endswith(("_PROCESS", "_THREAD")) and r.get("v") is not None:
                consts[r["n"]] = r["v"]
        if not fl or len(consts) < 2:
            continue
        for cname, cv in sorted(consts.items()):
            want = "proc" if cname.endswith("_PROCESS") else "thread"
            seen = []
            ids = {c["id"]: (k, nm) for c, k, nm in hooks}
            def obs(nd, env, seen=seen, ids=ids):
                if nd["id"] in ids:
                    seen.append(ids[nd["id"]])
            try:
                peval.PathEval(P, f, {fl[0]: cv}, is_effect=lambda *z: False, through_effects=True, observe=obs, track={fl[0]}, maxstates=50000).run()
            except AnalysisBroken as ex:
                chk.broke("%s: %s not evaluable (%s)" % (rule, f.name, ex))
                continue
            n += 1
            wrong = sorted(set(nm for k, nm in seen if k != want))
            right = sorted(set(nm for k, nm in seen if k == want))
            chk.inst(rule, f, "explicit-target:%s" % cname, bool(right) and not wrong,
                     "with flags == %s only %s hooks are reachable (%s)%s" % (cname, "process" if want == "proc" else "thread", ", ".join(right) or "none",
                                                                            "" if not wrong else " -- but %s is reachable too: an explicit request falls through to the other target" % ", ".join(wrong)))
    return n
