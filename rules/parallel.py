"""R-PARALLEL: arrays that run in parallel are compacted together.

The array fields of one record that share a count field N as their extent (discovered from the bulk operations and allocations of
the whole library: R-EXTENT's signatures -- objs / indexes / different_types / values of a distances structure all have extent
nbobjs) describe the same N elements.  A function that LOWERS the count of a record (X->N -= d, X->N--) has dropped elements: on
every path to that statement, each parallel array of X must have had elements written (directly, through an alias, or by a callee:
whole-program may-write summaries resolve what a call writes through its arguments).  An array left out keeps its old layout and no
longer lines up with the others (the per-object types of a heterogeneous distances matrix after a restrict).

Must-dataflow (intersection at joins) of "array fields of X written so far"."""
from prog import *
import extent


def groups(P):
    ops = extent.collect(P, list(P.units))
    g = {}
    for (rec, fld), lst in ops.items():
        cnt = {}
        for sig, fn, loc, op in lst:
            cnt[sig] = cnt.get(sig, 0) + 1
        major = max(cnt.items(), key=lambda kv: kv[1])[0]
        roots = set(major)
        if len(roots) == 1:
            g.setdefault((rec, list(roots)[0]), set()).add(fld)
    return {k: v for k, v in g.items() if len(v) >= 2}


class _W(Flow):
    def __init__(self, f, E, root, prefix, fields):
        Flow.__init__(self, f)
        self.E, self.root, self.prefix, self.fields = E, root, prefix, fields
        self.min_extra = 1      # 1: only element writes count; 0: (re)assigning the array field itself counts too (count set with `=`)
        self.at = {}

    def init(self):
        return frozenset()

    def join(self, a, b):
        return a & b

    def elem(self, st, n):
        if self.recording:
            self.at[n["id"]] = st
        if n["k"] == "Call" or assigned(n):
            S = self.E.node_effects(self.f, n)
            add = set()
            for r in S.mod:
                if r[:2] == self.root and len(r[2]) > len(self.prefix) + self.min_extra and tuple(r[2][:len(self.prefix)]) == self.prefix and r[2][len(self.prefix)] in self.fields:
                    add.add(r[2][len(self.prefix)])
            if add:
                return st | add
        return st


def run(chk, P, E, units, rule="R-PARALLEL"):
    G = groups(P)
    n = 0
    for u in units:
        for f in P.unit(u).funcs(only_main=True):
            if f.entry is None:
                continue
            for s in f.walk():
                a = assigned(s)
                if not a or a[1] not in ("-=", "--", "="):
                    continue
                t = strip(a[0])
                if t["k"] != "Member" or (t.get("rec"), t["f"]) not in G:
                    continue
                fields = G[(t.get("rec"), t["f"])]
                if a[1] == "=":
                    # a count that is SET: judged only in functions that do not (re)build the arrays themselves (constructors assign
                    # the array fields; a function that only sets the count has resized what is there)
                    if any(assigned(z) and strip(assigned(z)[0])["k"] == "Member" and strip(assigned(z)[0]).get("rec") == t.get("rec") and strip(assigned(z)[0])["f"] in fields for z in f.walk()):
                        continue
                regs = [r for r in E.node_effects(f, s).mod if r[2] and r[2][-1] == t["f"]]
                if len(regs) != 1:
                    continue      # a record this function has just allocated: not a resize
                root, prefix = regs[0][:2], tuple(regs[0][2][:-1])
                fl = _W(f, E, root, prefix, fields).run()
                st = fl.at.get(s["id"])
                if st is None:
                    continue
                n += 1
                missing = sorted(fields - st)
                chk.inst(rule, f, "lower:%s.%s" % (t.get("rec"), t["f"]), not missing,
                         "%s is lowered only after every array of extent %s (%s) had elements written on every path%s"
                         % (src(t), t["f"], ", ".join(sorted(fields)), "" if not missing else " -- but %s is not touched on some path: it keeps the layout of the dropped elements" % ", ".join(missing)), loc=f.loc(s))
    return n, G
