"""R-UNION: the type-specific attribute union of an object is accessed only under the matching object type.

obj->attr is a union (cache / numanode / group / pcidev / bridge / osdev) discriminated by obj->type.  For every function
that accesses a member of the union through an object PARAMETER that it does not re-assign, the function is explored by seeded
constant propagation once per object type t (obj->type = t; re-forked over all types where the function itself overwrites
the type, e.g. the XML importer): an access of member m reached under a type for which m is not the active member is a
violation (type confusion: cache.depth overlays numanode.page_types_len, ...).  Guards are evaluated, not pattern-matched:
switch cases, comparisons and the hwloc__obj_type_is_*() predicates are all decided by evaluation on the constant type.
The valid (member, type) table is the documentation of union hwloc_obj_attr_u."""
from prog import *
import peval

CACHE_TYPES = ["HWLOC_OBJ_L1CACHE", "HWLOC_OBJ_L2CACHE", "HWLOC_OBJ_L3CACHE", "HWLOC_OBJ_L4CACHE", "HWLOC_OBJ_L5CACHE",
               "HWLOC_OBJ_L1ICACHE", "HWLOC_OBJ_L2ICACHE", "HWLOC_OBJ_L3ICACHE", "HWLOC_OBJ_MEMCACHE"]
# (function, object parameter) pairs that rely on their callers' contract although they look at the type (read, frozen with the reason)
EXCEPTIONS = {
    ("hwloc_pci_compare_busids", "a"): "PCI tree helper: called only on PCI_DEVICE/BRIDGE objects built by the PCI discovery; the type is read only to assert the bridge's upstream type",
    ("hwloc_pci_compare_busids", "b"): "same as parameter a",
    ("hwloc_pci_add_object", "new"): "PCI tree helper: inserts PCI_DEVICE/BRIDGE objects only; the type is read only to tell bridges from devices",
}
VALID = {"cache": CACHE_TYPES, "numanode": ["HWLOC_OBJ_NUMANODE"], "group": ["HWLOC_OBJ_GROUP"],
         # struct hwloc_bridge_attr_s starts with the upstream PCI attributes: pcidev is also the view of a bridge's upstream side
         "pcidev": ["HWLOC_OBJ_PCI_DEVICE", "HWLOC_OBJ_BRIDGE"], "bridge": ["HWLOC_OBJ_BRIDGE"], "osdev": ["HWLOC_OBJ_OS_DEVICE"]}


def obj_types(u):
    e = u.enums.get("hwloc_obj_type_t")
    if e is None:
        raise AnalysisBroken("enum hwloc_obj_type_t not found")
    names, hi = {}, None
    for n, v in e["items"]:
        if n == "HWLOC_OBJ_TYPE_MAX":
            hi = v
        else:
            names.setdefault(v, n)
    if hi is None:
        raise AnalysisBroken("HWLOC_OBJ_TYPE_MAX not found")
    return names, hi


def accesses(f):
    """{param name: [(node, member)]} for union accesses through a stable object parameter whose type the function itself
    reads (it discriminates; functions that rely on their callers' contract are out of scope)"""
    T = f.unit.types
    params = [p["n"] for p in f.params if T[p["t"]].get("prec") == "hwloc_obj"]
    if not params:
        return {}
    reassigned = set()
    reads_type = set()
    for n in f.walk():
        a = assigned(n)
        if a and lv(a[0]) in params:
            reassigned.add(lv(a[0]))
        if n["k"] == "Member" and n["f"] == "type" and n.get("rec") == "hwloc_obj":
            k = lv(n)
            if k and k[:-len("->type")] in params:
                reads_type.add(k[:-len("->type")])
    out = {}
    for n in f.walk():
        if n["k"] == "Member" and n.get("rec") == "hwloc_obj_attr_u":
            k = lv(n)
            if not k:
                continue
            for p in params:
                if p not in reassigned and p in reads_type and k.startswith(p + "->attr->"):
                    out.setdefault(p, []).append((n, n["f"]))
    return out


def run(chk, P, units=None, funcs=None, rule="R-UNION", maxstates=100000, exceptions=None):
    exceptions = EXCEPTIONS if exceptions is None else exceptions
    n_inst = 0
    n_funcs = 0
    for f in P.all_funcs():
        if units is not None and os.path.basename(f.file) not in units:
            continue
        if funcs is not None and f.name not in funcs:
            continue
        if f.entry is None:
            continue
        acc = accesses(f)
        if not acc:
            continue
        names, tmax = obj_types(f.unit)
        dom = sorted(names) + [tmax]          # HWLOC_OBJ_TYPE_MAX: the "not yet known" placeholder of the XML importer
        n_funcs += 1
        plist = sorted(acc)
        keys = [p + "->type" for p in plist]
        ids = {}
        for p in plist:
            for n, m in acc[p]:
                ids[n["id"]] = (p, m)
        seen = {}      # node id -> set of type values of ITS object (None = unknown)
        def obs(n, env, ids=ids, seen=seen):
            if n["id"] in ids:
                seen.setdefault(n["id"], set()).add(env.get(ids[n["id"]][0] + "->type"))
        broken = None
        # all objects of the function are seeded together (product of the domains when there are two): guards that relate
        # the types of two objects (obj1->type != obj2->type -> bail out) are then decided by evaluation
        import itertools
        # a function that overwrites the type itself (XML import: type parsed from an attribute) is explored once, the type
        # being forked over the whole domain at the overwrite; the others once per entry type
        writes = set()
        for n in f.walk():
            a = assigned(n)
            if a and lv(a[0]) in keys:
                writes.add(lv(a[0]))
            if n["k"] == "Unary" and n["op"] == "&" and lv(n["c"][0]) in keys:
                writes.add(lv(n["c"][0]))
        split = {k: dom for k in keys if k in writes}
        # constants are kept only for the type keys and for locals computed from them (derived flags); everything else is
        # unknown: both outcomes of unrelated tests are explored, which over-approximates the reachable (access, type) pairs
        track = set(keys)
        for _ in range(3):
            for n in f.walk():
                tgt = rhs = None
                a = assigned(n)
                if a and a[2] is not None:
                    tgt, rhs = lv(a[0]), a[2]
                elif n["k"] == "Var" and n.get("c") and n["c"][0] is not None:
                    tgt, rhs = n["n"], n["c"][0]
                if tgt and rhs is not None and tgt not in track:
                    if any(lv(x) in track for x in subnodes(rhs) if x["k"] in ("Ref", "Member")):
                        track.add(tgt)
        combos = list(itertools.product(dom, repeat=len(keys)) if len(keys) <= 2 else ((t,) * len(keys) for t in dom))
        envs = [dict(zip(keys, combo)) for combo in combos]
        try:
            peval.PathEval(P, f, envs[0], is_effect=lambda *a: False, through_effects=True, observe=obs,
                           split=split, maxstates=maxstates, starts=envs[1:], track=track).run()
        except AnalysisBroken as e:
            broken = e
        if broken is not None:
            # too many paths for the state budget: out of scope (reported, counted), unless the caller named it as an anchor
            if funcs is not None and f.name in funcs:
                chk.broke("%s: %s not evaluable (%s)" % (rule, f.name, broken))
            else:
                chk.notes.append("%s: %s is out of scope (%s)" % (rule, f.name, broken))
                chk.inst(rule, f, "out-of-scope", True, "not evaluable within the state budget: %d union accesses not judged" % sum(len(v) for v in acc.values()), nontrivial=False, info=True)
            n_funcs -= 1
            continue
        for p in plist:
            for node, m in acc[p]:
                n_inst += 1
                got = seen.get(node["id"], set())
                valid = set(f.unit.enum_consts[x] for x in VALID.get(m, []) if x in f.unit.enum_consts)
                bad = sorted(names.get(t, "TYPE_MAX" if t == tmax else str(t)) if t is not None else "<unknown>" for t in got if t not in valid)
                nth = sum(1 for n2, m2 in acc[p] if m2 == m and (n2.get("l", 0), n2["id"]) <= (node.get("l", 0), node["id"]))
                cons = "%s->attr->%s#%d" % (p, m, nth)
                exc = exceptions.get((f.name, p))
                if bad and exc:
                    chk.inst(rule, f, cons, True, "frozen exception: %s" % exc, loc=f.loc(node), nontrivial=False)
                    continue
                chk.inst(rule, f, cons, not bad,
                         "%s->attr->%s is reached %s" % (p, m, ("only under its own object types (%d of %d types reach it)" % (len(got), len(dom))) if not bad else
                                                        "with %s->type in {%s}: the union then holds another member" % (p, ", ".join(bad[:6]))), loc=f.loc(node))
    return n_inst, n_funcs
