"""R-SENTINELSCAN: an unbounded scan that stops at a zero field needs its sentinel planted first.

A loop without a bound on its index -- for(i=0; ; i++) -- that leaves on `!X->A[i].f` walks the array A until it meets an
element whose field f is zero.  It is only as safe as that sentinel: every call of a function containing such a scan must be
preceded, on every path in the caller, by a store of 0 into field f of an element of the same array (or the scan's own function
plants it first).  Otherwise the scan reads elements that were never written (uninitialised heap) and may leave the array."""
from prog import *
import must


def scans(f):
    """[(array key, field, loop node)] for unbounded loops exiting on a zero field of the indexed element"""
    out = []
    for n in f.walk():
        if n["k"] != "For":
            continue
        cond = n["c"][1]
        if cond is not None:
            continue          # bounded (or at least conditioned) loop
        body = n["c"][3] if len(n["c"]) > 3 else None
        if body is None:
            continue
        for x in subnodes(body):
            if x["k"] != "If":
                continue
            c = strip(x["c"][0])
            neg = False
            while c is not None and c["k"] == "Unary" and c["op"] == "!":
                neg = not neg
                c = strip(c["c"][0])
            if not neg or c is None or c["k"] != "Member":
                continue
            e = strip(c["c"][0])
            if e is None or e["k"] != "Sub":
                continue
            # the then-branch must leave the loop
            if not any(y["k"] in ("Break", "Return", "Goto") for y in subnodes(x["c"][1])):
                continue
            ak = lv(e["c"][0])
            if ak:
                out.append((ak, c["f"], n))
    return out


def run(chk, P, unit, rule="R-SENTINELSCAN"):
    u = P.unit(unit)
    scanners = {}
    for f in u.funcs(only_main=True):
        s = scans(f)
        if s:
            scanners[f.name] = s
    n = 0
    for g in u.funcs(only_main=True):
        if g.entry is None:
            continue
        calls = [c for c in g.calls(tuple(scanners))]
        if not calls:
            continue
        m = must.Must(g).run()
        k = 0
        for c in calls:
            for (ak, fld, loop) in scanners[c["fn"]]:
                k += 1
                n += 1
                st = m.before.get(c["id"], frozenset())
                # a dominating  <something>[..].fld = 0  on the same array field name
                arr = ak.split("->")[-1].split(".")[-1]
                planted = [x for x in st if x[0] == "asg" and x[2] in ("0",) and x[1].endswith("." + fld) and ("%s[" % arr) in x[1]]
                chk.inst(rule, g, "%s@%s.%s#%d" % (c["fn"], arr, fld, k), bool(planted),
                         "%s() scans %s[] without an index bound until an element with %s == 0: %s" % (c["fn"], arr, fld,
                            "the sentinel is planted before the call on every path (%s)" % planted[0][1] if planted else
                            "no store of 0 into %s[..].%s dominates this call: the scan reads elements that were never written" % (arr, fld)), loc=g.loc(c))
    return n, len(scanners)
