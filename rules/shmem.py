"""Rules for adopted shared-memory topologies (C19)."""
from prog import *
import peval, effects, must

REFRESHERS = ("hwloc_internal_distances_refresh", "hwloc_internal_memattrs_refresh", "hwloc__imattr_refresh", "hwloc__imtg_refresh",
              "hwloc_internal_distances_refresh_one")


def priv_fields(P):
    """fields of struct hwloc_topology whose pointee is privately re-allocated by hwloc_shmem_topology_adopt after
    the struct memcpy: new->X = malloc(..) / hwloc__tma_dup_infos(NULL, &new->X, ..)"""
    f = P.need_func("hwloc_shmem_topology_adopt", "shmem.c")
    priv = set()
    for n in f.walk():
        a = assigned(n)
        if a and a[1] == "=" and a[2] is not None:
            r = strip(a[2])
            k = lv(a[0])
            if k and k.startswith("new->") and r["k"] == "Call" and r.get("fn") in ("malloc", "calloc"):
                priv.add(tuple(k[len("new->"):].split(".")))
        if n["k"] == "Call" and n.get("fn") == "hwloc__tma_dup_infos":
            x = strip(args(n)[1])
            if cval(args(n)[0]) == 0 and x["k"] == "Unary" and x["op"] == "&":
                k = lv(x["c"][0])
                if k and k.startswith("new->"):
                    priv.add(tuple(k[len("new->"):].split(".")) + ("array",))
    return priv


def is_private(path, priv):
    if "*" not in path:
        return True          # a field of the (malloc'ed, private) struct hwloc_topology itself
    i = path.index("*")
    return tuple(path[:i]) in priv


def mapping_write_pred(E, f_top, priv):
    """effect predicate for entry point f_top: a store/free into memory that lives in the shared mapping"""
    T = f_top.unit.types
    topo = [i for i, p in enumerate(f_top.params) if T[p["t"]].get("prec") == "hwloc_topology" and not T[p["t"]].get("pconst")]
    objs = [i for i, p in enumerate(f_top.params) if T[p["t"]].get("prec") == "hwloc_obj"]
    def pred(f, n, env):
        S = E.node_effects(f, n)
        for r in list(S.mod) + list(S.free):
            if r[0] != "arg":
                continue
            # node_effects is in terms of f's own params; only meaningful at depth 0 (f is f_top) -- for sub-evaluations
            # the params differ, so be conservative: map only when f is the entry point
            if f is f_top:
                if r[1] in topo and not is_private(r[2], priv):
                    return True
                if r[1] in objs:
                    return True
            else:
                Tf = f.unit.types
                pt = Tf[f.params[r[1]]["t"]] if r[1] < len(f.params) else {}
                if pt.get("prec") == "hwloc_topology" and not is_private(r[2], priv):
                    return True
                if pt.get("prec") == "hwloc_obj":
                    return True
        return False
    return pred, topo


def eperm(chk, P, E, rule="R-EPERM", exceptions=None):
    """every public entry point with a (non-const) topology parameter: with topology->adopted_shmem_addr != 0 no path
    reaches a write into the mapping"""
    exceptions = exceptions or {}
    priv = priv_fields(P)
    chk.notes.append("PRIV (privately re-allocated by adopt): %s" % sorted(".".join(p) for p in priv))
    api = P.public_api()
    n = 0
    for name in sorted(api):
        f = P.func(name)
        if f is None or f.entry is None or f.d.get("inline"):
            continue
        pred, topo = mapping_write_pred(E, f, priv)
        if not topo:
            continue
        S = E.sum.get(name)
        # quick exit: the summary shows no mapping write at all
        cand = [r for r in list(S.mod) + list(S.free) if r[0] == "arg" and ((r[1] in topo and not is_private(r[2], priv)) or
                (r[1] < len(f.params) and f.unit.types[f.params[r[1]]["t"]].get("prec") == "hwloc_obj"))]
        n += 1
        if not cand:
            chk.inst(rule, f, "adopted", True, "no write into mapped memory reachable at all (effect summary)", nontrivial=False)
            continue
        if name in exceptions:
            chk.inst(rule, f, "adopted", True, "frozen exception: %s" % exceptions[name], nontrivial=False)
            continue
        tp = f.params[topo[0]]["n"]
        LOADED, THIS = f.unit.enum_consts.get("HWLOC_TOPOLOGY_STATE_IS_LOADED"), f.unit.enum_consts.get("HWLOC_TOPOLOGY_STATE_IS_THISSYSTEM")
        eff = []
        terms = []
        broken = None
        # an adopted topology is LOADED (asserted by adopt), never INIT/LOADING; THISSYSTEM either way
        for state in (LOADED, LOADED | THIS):
            env = {"%s->adopted_shmem_addr" % tp: 1, "%s->state" % tp: state}
            try:
                out = peval.PathEval(P, f, env, is_effect=pred, maxstates=30000).run()
            except AnalysisBroken as e:
                broken = e
                break
            eff += [t for t in out.terminals if t[0] == "effect"]
            terms += out.terminals
        if broken is not None:
            chk.inst(rule, f, "adopted", False, "inconclusive: %s" % broken)
            continue
        class O(object):
            terminals = terms
        out = O()
        exc = exceptions.get(name)
        if eff and exc:
            chk.inst(rule, f, "adopted", True, "frozen exception: %s (write at %s)" % (exc, eff[0][3]), nontrivial=False)
            continue
        detail = "with adopted_shmem_addr set every path fails (errno %s) or only reads" % sorted(set(str(t[2]) for t in out.terminals if t[0] == "return" and t[4]))
        if eff:
            w = sorted(cand, key=str)[0]
            detail = "on an adopted topology a path reaches a write into the shared mapping at %s without an EPERM guard (e.g. %s via %s)" % (
                eff[0][3], ".".join(w[2]), (S.mod.get(w) or S.free.get(w)))
        chk.inst(rule, f, "adopted", not eff, detail)
    return n


def _priv_allocs(P):
    """(field path tuple, allocator) pairs in adopt"""
    f = P.need_func("hwloc_shmem_topology_adopt", "shmem.c")
    out = []
    for n in f.walk():
        a = assigned(n)
        if a and a[1] == "=" and a[2] is not None:
            r = strip(a[2])
            k = lv(a[0])
            if k and k.startswith("new->") and r["k"] == "Call" and r.get("fn") in ("malloc", "calloc", "hwloc_bitmap_dup", "hwloc_bitmap_alloc", "strdup"):
                out.append((tuple(k[len("new->"):].split(".")), r.get("fn"), f.loc(n)))
        if n["k"] == "Call" and n.get("fn") == "hwloc__tma_dup_infos":
            x = strip(args(n)[1])
            if cval(args(n)[0]) == 0 and x["k"] == "Unary" and x["op"] == "&":
                k = lv(x["c"][0])
                if k and k.startswith("new->"):
                    out.append((tuple(k[len("new->"):].split(".")) + ("array",), "hwloc__tma_dup_infos", f.loc(n)))
    _priv_allocs_helpers(P, f, out)
    return out


def priv_fields(P):
    return set(p for p, fn, loc in _priv_allocs(P))


def _priv_allocs_helpers(P, f, out):
    """allocations made by a helper that receives &new->X (or new): X.<field> = malloc(..) inside the helper"""
    for c in f.calls():
        g = P.func(c.get("fn")) if c.get("fn") else None
        if g is None or g.entry is None or g.unit is not f.unit:
            continue
        for i, a in enumerate(args(c)):
            a2 = strip(a)
            base = None
            if a2 is not None and a2["k"] == "Unary" and a2["op"] == "&":
                k = lv(a2["c"][0])
                if k and k.startswith("new->"):
                    base = tuple(k[len("new->"):].split("."))
            if base is None or i >= len(g.params):
                continue
            pn = g.params[i]["n"]
            for n in g.walk():
                x = assigned(n)
                if x and x[1] == "=" and x[2] is not None:
                    r = strip(x[2])
                    k = lv(x[0])
                    if k and k.startswith(pn + "->") and r["k"] == "Call" and r.get("fn") in ("malloc", "calloc", "hwloc_bitmap_dup", "hwloc_bitmap_alloc", "strdup"):
                        out.append((base + tuple(k[len(pn) + 2:].split(".")), r.get("fn"), g.loc(n)))


def priv_pairing(chk, P, rule="R-PRIV"):
    """each private allocation made by adopt is released by hwloc__topology_disadopt"""
    d = P.need_func("hwloc__topology_disadopt", "shmem.c")
    released = set()
    for c in d.calls(("free", "hwloc_bitmap_free", "hwloc__free_infos")):
        x = strip(args(c)[0])
        if x["k"] == "Unary" and x["op"] == "&":
            x = strip(x["c"][0])
        k = lv(x)
        if k and k.startswith("topology->"):
            released.add(tuple(k[len("topology->"):].split(".")))
    # releases made by a helper of the unit that receives &topology->X (or topology): free(X-><field>) inside the helper
    for c in d.calls():
        g = P.func(c.get("fn")) if c.get("fn") else None
        if g is None or g.entry is None or g.unit is not d.unit:
            continue
        for i, a in enumerate(args(c)):
            a2 = strip(a)
            base = None
            if a2 is not None and a2["k"] == "Unary" and a2["op"] == "&":
                k = lv(a2["c"][0])
                if k and k.startswith("topology->"):
                    base = tuple(k[len("topology->"):].split("."))
            elif a2 is not None and lv(a2) == "topology":
                base = ()
            if base is None or i >= len(g.params):
                continue
            pn = g.params[i]["n"]
            for c2 in g.calls(("free", "hwloc_bitmap_free", "hwloc__free_infos")):
                x = strip(args(c2)[0])
                if x["k"] == "Unary" and x["op"] == "&":
                    x = strip(x["c"][0])
                k = lv(x)
                if k and k.startswith(pn + "->"):
                    released.add(base + tuple(k[len(pn) + 2:].split(".")))
    n = 0
    for p, fn, loc in _priv_allocs(P):
        n += 1
        key = p if p[-1] != "array" else p[:-1]
        chk.inst(rule, d, "release:" + ".".join(p), key in released or p in released,
                 "private allocation new->%s (%s at %s) must be released by hwloc__topology_disadopt" % (".".join(p), fn, loc))
    # munmap of the adopted range and free of the struct
    chk.inst(rule, d, "munmap", any(True for c in d.calls("munmap")), "disadopt unmaps the adopted range")
    return n


def write_refreshes_copy(chk, P, rule="R-ARGID"):
    """hwloc_shmem_topology_write: after the dup into the mapping, distances and memattrs are refreshed on the COPY"""
    f = P.need_func("hwloc_shmem_topology_write", "shmem.c")
    dup = list(f.calls("hwloc__topology_dup"))
    if not chk.need(len(dup) == 1, "R-ARGID: hwloc_shmem_topology_write no longer calls hwloc__topology_dup exactly once"):
        return
    a0 = strip(args(dup[0])[0])
    newvar = lv(a0["c"][0]) if a0["k"] == "Unary" and a0["op"] == "&" else None
    dline = dup[0].get("l", 0)
    for fn in ("hwloc_internal_distances_refresh", "hwloc_internal_memattrs_refresh"):
        after = [c for c in f.calls(fn) if c.get("l", 0) > dline]
        ok = len(after) >= 1 and all(lv(args(c)[0]) == newvar for c in after)
        chk.inst(rule, f, "refresh-copy:" + fn, ok, "%s after the dup must be applied to the copy `%s` (found: %s)" % (fn, newvar, [src(args(c)[0]) for c in after]),
                 loc=f.loc(after[0]) if after else None)


def header_rule(chk, P, rule="R-HDR"):
    u = P.unit("shmem.c")
    rec = u.records.get("hwloc_shmem_header")
    if rec is None:
        chk.broke("struct hwloc_shmem_header vanished")
        return 0
    w = P.need_func("hwloc_shmem_topology_write", "shmem.c")
    a = P.need_func("hwloc_shmem_topology_adopt", "shmem.c")
    # what the writer stores in each header field, as a function of the writer's own arguments: evaluated with every
    # parameter set to A (the writer may fill the header itself or in a helper)
    A = 0x100000
    stored = {}      # field -> value when all arguments are A
    used_params = set()   # names of the writer-side arguments that end up in the header (mmap_address, length)
    for f2 in u.funcs(only_main=True):
        for n in f2.walk():
            x = assigned(n)
            if not x or x[1] != "=" or x[2] is None:
                continue
            t = strip(x[0])
            if t["k"] == "Member" and t.get("rec") == "hwloc_shmem_header":
                import extent
                def base_env(fn_):
                    e_ = {p["n"]: A for p in fn_.params}
                    for k3, d3 in extent.single_defs(fn_).items():      # constant locals (header_length = sizeof(header))
                        if cval(strip(d3)) is not None:
                            e_.setdefault(k3, cval(strip(d3)))
                    return e_
                env = base_env(f2)
                used_params.update(x9["n"] for x9 in subnodes(x[2]) if x9["k"] == "Ref" and x9.get("dk") == "param")
                # a helper that fills the header gets its arguments from its caller: evaluate them there
                for g2 in u.funcs(only_main=True):
                    for c2 in g2.calls(f2.name):
                        cenv2 = base_env(g2)
                        for i2, p2 in enumerate(f2.params):
                            if i2 < len(args(c2)):
                                av = peval.Evaluator(g2, cenv2).ev(args(c2)[i2])
                                if av is not None:
                                    env[p2["n"]] = av
                                used_params.update(x9["n"] for x9 in subnodes(args(c2)[i2]) if x9["k"] == "Ref" and x9.get("dk") == "param")
                v = peval.Evaluator(f2, env).ev(x[2])
                if v is not None:
                    stored.setdefault(t["f"], v)
                else:
                    stored.setdefault(t["f"], None)
    # the adopter, given the SAME arguments: with the header as written, the mapping is attempted; with any single field
    # different, mmap is unreachable and the call fails with EINVAL (decided by seeded evaluation; the comparison may sit in
    # adopt itself or in a helper that receives &header)
    mm_ids = set(c["id"] for c in a.calls("mmap"))
    # where the header is READ: the function that owns a local of the header type -- adopt itself, or a helper it calls with its
    # own arguments (the whole read-and-compare step extracted).  In the second case the helper is evaluated with the header seeded
    # and its parameters bound to adopt's arguments, and adopt is explored with the helper's result forced to what it returned.
    def header_owner():
        for g in [a] + [P.func(c["fn"]) for c in a.calls() if c.get("fn") and u.func(c["fn"]) is not None]:
            if g is None or g.entry is None:
                continue
            for x9 in g.walk():
                if x9["k"] == "Var" and g.unit.types[x9["t"]].get("rec") == "hwloc_shmem_header":
                    return g, x9["n"]
        return None, None
    H, hvar = header_owner()
    def explore(hdr):
        hit = []
        def obs(nd, env):
            if nd["id"] in mm_ids:
                hit.append(1)
        env = {p["n"]: A for p in a.params if p["n"] in used_params}     # the same arguments as given to the writer; the others are unknown
        if H is None:
            raise AnalysisBroken("no function of shmem.c reads a struct hwloc_shmem_header for adopt")
        if H is a:
            for fld, v in hdr.items():
                env["%s.%s" % (hvar, fld)] = v
            out = peval.PathEval(P, a, env, is_effect=lambda *z: False, through_effects=True, observe=obs, maxstates=60000).run()
            rets = set((t[1], str(t[2])) for t in out.terminals if t[0] == "return")
            return bool(hit), rets
        import extent
        cenv = dict(env)
        for k3, d3 in extent.single_defs(a).items():
            if cval(strip(d3)) is not None:
                cenv.setdefault(k3, cval(strip(d3)))
        calls = list(a.calls(H.name))
        genv = {}
        for i2, p2 in enumerate(H.params):
            if calls and i2 < len(args(calls[0])):
                av = peval.Evaluator(a, cenv).ev(args(calls[0])[i2])
                if av is not None:
                    genv[p2["n"]] = av
        for fld, v in hdr.items():
            genv["%s.%s" % (hvar, fld)] = v
        hout = peval.PathEval(P, H, genv, is_effect=lambda *z: False, through_effects=True, maxstates=60000).run()
        hrets = set((t[1], str(t[2])) for t in hout.terminals if t[0] == "return")
        forced = 0 if any(v == 0 for v, e in hrets) else -1
        out = peval.PathEval(P, a, env, is_effect=lambda *z: False, through_effects=True, observe=obs, maxstates=60000, call_values={H.name: forced}).run()
        rets = set((t[1], str(t[2])) for t in out.terminals if t[0] == "return")
        if forced == -1:
            # adopt fails where the helper failed: the errno values are the helper's
            rets = set((v, e) for v, e in rets if v != -1) | hrets
        return bool(hit), rets
    n = 0
    base_ok = None
    if all(v is not None for v in stored.values()) and stored and mm_ids:
        try:
            base_ok, _ = explore(dict(stored))
        except AnalysisBroken as e:
            chk.broke("%s: hwloc_shmem_topology_adopt not evaluable (%s)" % (rule, e))
            return 0
        if not base_ok:
            chk.broke("%s: with the header exactly as the writer stores it (%s) adopt does not reach mmap: the rule's seeding no longer matches the code" % (rule, stored))
            return 0
    for fld in rec["fields"]:
        n += 1
        nm = fld["n"]
        chk.inst(rule, w, "written:" + nm, nm in stored, "header field %s is stored by the writer (value %s when every argument is 0x%x)" % (nm, stored.get(nm), A))
        if nm not in stored or stored[nm] is None or base_ok is None:
            chk.inst(rule, a, "checked:" + nm, False, "header field %s: the writer's stored value is not evaluable" % nm)
            continue
        hdr = dict(stored)
        hdr[nm] = stored[nm] + 1
        reached, rets = explore(hdr)
        ok = (not reached) and bool(rets) and all(v == -1 for v, e in rets) and any(e == str(peval.EINVAL) for v, e in rets)
        chk.inst(rule, a, "checked:" + nm, ok, "with header.%s different from what the writer stores for the same arguments, adopt never reaches mmap and returns -1 with errno EINVAL (returns seen: %s%s)" % (
            nm, sorted(rets), "; mmap reached" if reached else ""))
    m = must.Must(a).run()
    mm = list(a.calls("mmap"))
    # EBUSY when the kernel maps elsewhere, with munmap
    okb = False
    for n2 in a.walk():
        x = assigned(n2)
        if x and peval.is_errno_lv(x[0]) and cval(x[2]) == peval.EBUSY:
            stb = m.before.get(n2["id"], frozenset())
            if must.has(stb, "T", "mmap_res != mmap_address") or must.has(stb, "R", "mmap_res != mmap_address"):
                okb = True
    chk.inst(rule, a, "ebusy", okb, "errno = EBUSY is set exactly under `mmap_res != mmap_address`")
    # the mapping request must be a hint, not MAP_FIXED*: an occupied range then yields another address (-> EBUSY),
    # never a silent replacement (MAP_FIXED) nor a kernel errno (MAP_FIXED_NOREPLACE -> EEXIST)
    FIXED = 0x10 | 0x100000
    okf = False
    why = "no mmap call"
    if mm:
        fa = strip(args(mm[0])[3])
        vals = set()
        v = cval(fa)
        if v is not None:
            vals.add(v)
        elif lv(fa) is not None:
            k = lv(fa)
            for n3 in a.walk():
                x = assigned(n3)
                if x and lv(x[0]) == k and x[2] is not None:
                    vals.add(cval(x[2]))
                if n3["k"] == "Var" and n3["n"] == k and n3.get("c") and n3["c"][0] is not None:
                    vals.add(cval(n3["c"][0]))
        else:
            vals.add(None)
        okf = bool(vals) and None not in vals and not any(v2 & FIXED for v2 in vals)
        why = "mmap flags can take the values %s" % sorted(hex(v2) if v2 is not None else "unknown" for v2 in vals)
    chk.inst(rule, a, "mmap-is-a-hint", okf, "adopt maps with a plain address hint (no MAP_FIXED / MAP_FIXED_NOREPLACE bit), so an unavailable range surfaces as mmap_res != address -> EBUSY; %s" % why)
    # what adopt unmaps on its own failure paths is what it mapped: munmap's address is the variable that received mmap()'s
    # result (or one tested equal to it on every path to the call); the requested address differs from it exactly on the EBUSY path
    resvar = None
    if mm:
        p9 = a.par(mm[0])
        while p9 is not None and p9["k"] == "Cast":
            p9 = a.par(p9)
        if p9 is not None and assigned(p9) and assigned(p9)[1] == "=":
            resvar = lv(assigned(p9)[0])
        elif p9 is not None and p9["k"] == "Var":
            resvar = p9["n"]
    k9 = 0
    for um in a.calls("munmap"):
        k9 += 1
        x9 = lv(args(um)[0])
        st9 = m.before.get(um["id"], frozenset())
        same = x9 is not None and x9 == resvar
        if not same and x9 is not None and resvar is not None:
            eq = ("%s == %s" % (x9, resvar), "%s == %s" % (resvar, x9))
            ne = ("%s != %s" % (x9, resvar), "%s != %s" % (resvar, x9))
            same = any((fc[0] in ("T", "R") and fc[1] in eq) or (fc[0] == "F" and fc[1] in ne) for fc in st9)
        chk.inst(rule, a, "munmap-what-was-mapped#%d" % k9, same, "adopt's failure path unmaps `%s`; mmap()'s result is in `%s`%s" % (
            x9, resvar, "" if same else ": on the EBUSY path the two differ, another mapping of the process is unmapped and adopt's own one leaks"), loc=a.loc(um))
    abi = list(a.calls("hwloc_topology_abi_check"))
    chk.inst(rule, a, "abi-check", len(abi) == 1, "hwloc_topology_abi_check(old) guards the use of the mapped topology")
    return n


def align_rule(chk, P, rule="R-ALIGN"):
    """the length pass and the write pass round every allocation the same way; the header room counted by get_length
    covers the header offset used by write/adopt"""
    g = P.need_func("tma_get_length_malloc", "shmem.c")
    s = P.need_func("tma_shmem_malloc", "shmem.c")
    def incr(f):
        for n in f.walk():
            x = assigned(n)
            if x and x[1] == "+=":
                return x[2]
            if x and x[1] == "=" and x[2] is not None:
                r = strip(x[2])
                if r["k"] == "Binary" and r["op"] == "+" and lv(x[0]) and "data" in lv(x[0]):
                    return r["c"][1]
        return None
    e1, e2 = incr(g), incr(s)
    if not chk.need(e1 is not None and e2 is not None, "R-ALIGN: allocation increments not found in the two tma allocators"):
        return
    bad = []
    for L in list(range(0, 130)) + [255, 256, 257, 4095, 4096, 4097, 65535, 1 << 20, (1 << 20) + 3]:
        v1 = peval.Evaluator(g, {"length": L}).ev(e1)
        v2 = peval.Evaluator(s, {"length": L}).ev(e2)
        if v1 is None or v2 is None:
            chk.broke("R-ALIGN: increment expression not evaluable (%s / %s)" % (src(e1), src(e2)))
            return
        if v1 != v2 or v1 < L:
            bad.append((L, v1, v2))
    chk.inst(rule, g, "same-rounding", not bad, "length pass adds %s, write pass advances by %s: %s" % (src(e1), src(e2), "equal and >= length on the whole grid" if not bad else "differ at %s" % bad[:3]))
    gl = P.need_func("hwloc_shmem_topology_get_length", "shmem.c")
    w = P.need_func("hwloc_shmem_topology_write", "shmem.c")
    ad = P.need_func("hwloc_shmem_topology_adopt", "shmem.c")
    H = None
    for n in gl.walk():
        x = assigned(n)
        if x and lv(x[0]) == "(*lengthp)":
            cenv = {}
            for v in gl.walk():
                if v["k"] == "Var" and v.get("c") and v["c"][0] is not None and cval(v["c"][0]) is not None and v["n"] not in ("length", "pagesize"):
                    cenv[v["n"]] = cval(v["c"][0])
            H = peval.Evaluator(gl, dict(cenv, length=0, pagesize=1)).ev(x[2])
            tot = [(peval.Evaluator(gl, dict(cenv, length=L, pagesize=4096)).ev(x[2]), L) for L in (0, 1, 4071, 4072, 4073, 8000, 100000)]
    hl = {}
    for f in (w, ad):
        for n in f.walk():
            if n["k"] == "Var" and n["n"] == "header_length" and n.get("c") and n["c"][0] is not None:
                hl[f.name] = cval(n["c"][0])
    ok = H is not None and len(hl) == 2 and len(set(hl.values())) == 1 and None not in hl.values() and H >= list(hl.values())[0]
    if ok:
        ok = all(t is not None and t >= list(hl.values())[0] + L and t % 4096 == 0 for t, L in tot)
    chk.inst(rule, gl, "header-room", ok, "get_length reserves %s bytes before the topology; write/adopt place it at offset %s; total covers header+length rounded to a page" % (H, hl))


def destroy_rule(chk, P, rule="R-DESTROY"):
    """hwloc_topology_destroy: the adopted test comes first and the function returns right after disadopt"""
    f = P.need_func("hwloc_topology_destroy", "topology.c")
    m = must.Must(f).run()
    dis = list(f.calls("hwloc__topology_disadopt"))
    ok = len(dis) == 1
    if ok:
        st = m.before.get(dis[0]["id"], frozenset())
        ok = must.nonnull(st, "topology->adopted_shmem_addr")
        # nothing else is called on that path before, and return follows in the same block
        b, i = f.elem_block[dis[0]["id"]]
        rest = [f.nodes[e] for e in f.blocks[b]["e"][i + 1:]]
        ok = ok and any(x["k"] == "Return" for x in rest) and not any(x["k"] == "Call" for x in rest)
        prev_calls = [fct for fct in st if fct[0] == "call"]
        ok = ok and not prev_calls
    chk.inst(rule, f, "adopted-first", ok, "destroy tests adopted_shmem_addr before doing anything else, calls hwloc__topology_disadopt and returns")


def tma_rule(chk, P, rule="R-TMA", owners=None):
    """functions that take a struct hwloc_tma * or touch a ->tma member are on the duplication path: inside them no
    plain allocator may be called (everything must go through the tma, otherwise the length pass and the write pass
    disagree and adopters get pointers outside the mapping).  owners: frozen {function: reason} allowed to."""
    owners = owners or {}
    PLAIN = ("malloc", "calloc", "realloc", "strdup", "hwloc_bitmap_alloc", "hwloc_bitmap_dup", "hwloc_bitmap_alloc_full")
    n = 0
    nf = 0
    for f in P.all_funcs(only_main=False):
        T = f.unit.types
        uses = any(T[p["t"]].get("prec") == "hwloc_tma" for p in f.params) or any(x["k"] == "Member" and x.get("f") == "tma" for x in f.walk())
        if not uses:
            continue
        nf += 1
        calls = list(f.calls(PLAIN))
        if not calls:
            chk.inst(rule, f, "no-plain-allocator", True, "tma-aware function calls no plain allocator")
            n += 1
        for i, c in enumerate(calls):
            n += 1
            if f.name in owners:
                chk.inst(rule, f, "%s#%d" % (c["fn"], i + 1), True, "frozen owner: %s" % owners[f.name], loc=f.loc(c), nontrivial=False)
            else:
                chk.inst(rule, f, "%s#%d" % (c["fn"], i + 1), False, "plain %s() in a function on the tma duplication path" % c["fn"], loc=f.loc(c))
    return nf
