"""R-TRUNCFAIL: a duplication loop that fails at element i leaves the copy's count at the number of elements it built.

Scope (discovered): functions that copy a count field from another instance (`new->nr_f = old->nr_f`) and then walk the elements in
a loop bounded by that count (`for (i = 0; i < old->nr_f; i++)`).  The copy's array was filled by a bulk copy, so its entries beyond
the ones rebuilt so far still hold the SOURCE's pointers; the failure path hands the copy to its destructor, which releases `count`
entries.  Explored with the source count seeded (3), the loop counter computed exactly and every callee / allocation forked into
failed and succeeded: at every failing exit reached from inside the loop the copy's count is i or i+1 (the element being built may
have been completed or cleaned), never the full count."""
from prog import *
import peval

FULL = 3


def run(chk, P, units, rule="R-TRUNCFAIL"):
    n = 0
    for u in units:
        for f in P.unit(u).funcs(only_main=True):
            if f.entry is None:
                continue
            copies = []      # (new count key, old count key)
            for x in f.walk():
                a = assigned(x)
                if a and a[1] == "=" and a[2] is not None:
                    t, r = strip(a[0]), strip(a[2])
                    if t["k"] == "Member" and r is not None and r["k"] == "Member" and t["f"] == r["f"] and t.get("rec") == r.get("rec") and lv(t) and lv(r) and lv(t) != lv(r):
                        tt = f.type_of(t)
                        if tt and "w" in tt and not tt.get("ptr") and (t["f"].startswith("nr_") or t["f"] in ("count", "nbobjs")):
                            copies.append((lv(t), lv(r), x))
            for (nk, ok_, x) in copies:
                # loop counters compared with the source count
                ctrs = set()
                for y in f.walk():
                    if y["k"] == "Binary" and y["op"] in ("<", "!="):
                        l9, r9 = strip(y["c"][0]), strip(y["c"][1])
                        if l9 is not None and l9["k"] == "Ref" and lv(r9) == ok_:
                            ctrs.add(l9["n"])
                if not ctrs:
                    continue
                T = f.unit.types
                rt = T[f.d["ret"]]
                if rt["s"] == "void":
                    continue
                isfail = (lambda v: v == 0) if rt.get("ptr") else (lambda v: v is not None and v < 0)
                bad = []
                seen = [0]
                def obx(kind, nd, e, bad=bad, seen=seen, f=f, nk=nk, ctrs=ctrs):
                    v = None
                    if kind == "return" and nd is not None and nd.get("c") and nd["c"][0] is not None:
                        v = peval.Evaluator(f, e).ev(nd["c"][0])
                    if v is None or not isfail(v):
                        return
                    iv = [e.get(c) for c in ctrs if e.get(c) is not None]
                    if not iv or e.get("#inloop") is None:
                        return
                    i = min(iv)
                    if i >= FULL:
                        return
                    seen[0] += 1
                    cnt = e.get(nk)
                    if cnt is None or cnt not in (i, i + 1):
                        bad.append((f.loc(nd), i, cnt))
                def obs(nd, e, nk=nk, x=x):
                    if nd["id"] == x["id"]:
                        e["#inloop"] = 1
                locals_ = set(v9["n"] for v9 in f.walk() if v9["k"] == "Var" and T[v9["t"]].get("ptr"))
                try:
                    peval.PathEval(P, f, {ok_: FULL}, is_effect=lambda *z: False, through_effects=True, observe=obs, observe_exit=obx, exact_counters=True,
                                   track={nk, ok_} | ctrs | locals_, maxstates=200000).run()
                except AnalysisBroken as ex:
                    chk.broke("%s: %s not evaluable (%s)" % (rule, f.name, ex))
                    continue
                if not seen[0]:
                    continue
                n += 1
                chk.inst(rule, f, "count:" + nk, not bad,
                         "`%s` is copied from `%s` before the elements are rebuilt: every failing exit inside the loop (%d explored, source count %d) leaves it at the number of elements built%s"
                         % (nk, ok_, seen[0], FULL, "" if not bad else " -- but the exit at %s is reached at element %d with the count %s: the destructor releases entries that still hold the source's pointers"
                            % (bad[0][0], bad[0][1], "unknown" if bad[0][2] is None else bad[0][2])), loc=f.loc(x))
    return n
