"""R-SNP: snprintf cursor typestate (see DESIGN.md section 5).

Decides, on every CFG path of every function that threads a (pointer, remaining-size)
cursor through snprintf-like producers:
  * the untruncated result is what is accumulated into the returned length,
  * the cursor is advanced only by an amount proved 0 <= r <= max(size-1, 0) (the clamp),
  * pointer and size are advanced together, and before the next production,
  * direct stores through the cursor are dominated by a sufficient size test,
  * the function returns the accumulated length, a negative error, or a producer's own result.
Companion call-shape rule for the asprintf trio, and the fixed-buffer rule
(R-SNPSIZE: snprintf(arr, n, ...) with n <= sizeof arr).
"""
from prog import *

SEED_PRODUCERS = {"snprintf": (0, 1), "vsnprintf": (0, 1)}


def _is_ptr(f, n):
    t = f.type_of(n)
    return bool(t and t.get("ptr"))


def _is_int(f, n):
    t = f.type_of(n)
    return bool(t and "w" in t)


class St(object):
    __slots__ = ("res", "prod", "halfP", "halfS", "lb", "eq", "acc", "unacc", "shift")

    def __init__(self):
        self.res = {}      # key -> (raw, nonneg, frozenset(bounded-by size keys) | 'ANY', prodloc)
        self.prod = frozenset()    # pairs (P,S) produced and not yet advanced
        self.halfP = {}    # P -> R
        self.halfS = {}    # S -> R
        self.lb = {}       # size key -> proven lower bound
        self.eq = {}       # key -> frozenset of keys known equal (including itself)
        self.acc = frozenset()     # accumulator keys that received a raw result on this path
        self.unacc = {}    # R -> loc of producer whose raw result is not yet accumulated
        self.shift = frozenset()   # pointer keys advanced by ++ whose size was not yet decremented

    def copy(self):
        s = St()
        s.res = dict(self.res); s.prod = self.prod; s.halfP = dict(self.halfP); s.halfS = dict(self.halfS)
        s.lb = dict(self.lb); s.eq = dict(self.eq); s.acc = self.acc; s.unacc = dict(self.unacc); s.shift = self.shift
        return s

    def key(self):
        return (self.res, self.prod, self.halfP, self.halfS, self.lb, self.eq, self.acc, self.unacc, self.shift)

    def __eq__(self, o):
        return self.key() == o.key()

    def __ne__(self, o):
        return not self.__eq__(o)


def _join_res(a, b):
    raw = a[0] and b[0]
    nn = a[1] and b[1]
    if a[2] == "ANY":
        bd = b[2]
    elif b[2] == "ANY":
        bd = a[2]
    else:
        bd = a[2] & b[2]
    return (raw, nn, bd, a[3] if a[3] == b[3] else None)


class SnpFlow(Flow):
    def __init__(self, func, ctx):
        Flow.__init__(self, func)
        self.ctx = ctx          # SnpRule
        self.viol = {}          # (construct) -> detail
        self.sites = {}         # construct -> kind ; every obligation site seen
        self.pairs = set()
        self.acc_keys = set()
        self.adv_pairs = set()      # (P, S) that are advanced together somewhere in the function
        self.prod_sites = []        # (construct, node, P, S)

    # ---- helpers
    def v(self, construct, node, msg):
        if not self.recording:
            return
        self.viol.setdefault(construct, "%s (%s)" % (msg, self.f.loc(node)))

    def site(self, construct, node, kind):
        if not self.recording:
            return
        self.sites.setdefault(construct, (kind, self.f.loc(node)))

    def init(self):
        s = St()
        # entry: an int parameter named like a result in helper functions is a raw unknown result
        for p in self.ctx.res_params.get(self.f.name, ()):
            # non-negative at entry iff every call site of the helper hands over a value it has proved non-negative
            ent = self.ctx.helper_entry.get(self.f.name)
            s.res[p] = (True, bool(ent) and all(ent.values()), frozenset(), None)
        return s

    def join(self, a, b):
        s = St()
        for k in a.res:
            if k in b.res:
                s.res[k] = _join_res(a.res[k], b.res[k])
        s.prod = a.prod | b.prod
        s.halfP = dict(a.halfP); s.halfP.update(b.halfP)
        s.halfS = dict(a.halfS); s.halfS.update(b.halfS)
        for k in a.lb:
            if k in b.lb:
                s.lb[k] = min(a.lb[k], b.lb[k])
        for k in a.eq:
            if k in b.eq:
                c = a.eq[k] & b.eq[k]
                if len(c) > 1:
                    s.eq[k] = c
        s.acc = a.acc | b.acc
        s.unacc = dict(a.unacc); s.unacc.update(b.unacc)
        s.shift = a.shift | b.shift
        return s

    def producer_args(self, call):
        fn = call.get("fn")
        pos = self.ctx.producers.get(fn)
        if pos is None:
            return None
        a = args(call)
        if len(a) <= max(pos):
            return None
        return a[pos[0]], a[pos[1]]

    def _kill_eq(self, st, key):
        cls = st.eq.pop(key, None)
        if cls:
            rest = cls - {key}
            for k in rest:
                if len(rest) > 1:
                    st.eq[k] = rest
                else:
                    st.eq.pop(k, None)

    def _learn_lb(self, st, key, val):
        for k in st.eq.get(key, (key,)):
            if st.lb.get(k, -(1 << 62)) < val:
                st.lb[k] = val

    def cls(self, st, key):
        return st.eq.get(key, frozenset([key]))

    # ---- transfer
    def elem(self, st, n):
        k = n["k"]
        f = self.f
        if k == "Call":
            pa = self.producer_args(n)
            if pa is not None:
                P, S = pa
                if cval(S) is not None or strip(S)["k"] == "SizeOf":
                    return st      # fixed-size destination: R-SNPSIZE's business
                pk, sk = lv(P), lv(S)
                if pk is None or sk is None:
                    return st
                self.pairs.add((pk, sk))
                c = "produce@%s(%s,%s)#%d" % (n.get("fn"), pk, sk, self.ctx.ordinal(f, n))
                self.site(c, n, "producer")
                if self.recording:
                    self.prod_sites.append((c, n, pk, sk))
                st = st.copy()
                if (pk, sk) in st.prod:
                    self.v(c, n, "producer writes at a cursor that was not advanced after the previous production on some path")
                if pk in st.halfP or sk in st.halfS:
                    self.v(c, n, "producer called while the cursor is half-advanced (pointer and size out of step)")
                st.prod = st.prod | {(pk, sk)}
                return st
            h = self.ctx.helpers.get(n.get("fn"))
            if h is not None:
                return self.helper_call(st, n, h)
            return st
        if k == "DeclStmt":
            for v in n["c"]:
                init = v["c"][0] if v.get("c") else None
                if init is not None:
                    st = self.assign(st, v, v["n"], "=", init, n, f.unit.types[v["t"]])
            return st
        a = assigned(n)
        if a is not None:
            tgt, op, rhs = a
            tk = lv(tgt)
            if tk is None:
                return st
            return self.assign(st, tgt, tk, op, rhs, n, f.type_of(tgt))
        if k == "Return":
            self.ret(st, n)
        return st

    def helper_call(self, st, n, h):
        f = self.f
        a = args(n)
        def actual(formal):
            if formal is None:
                return None
            kind, pi, field = formal
            if pi >= len(a):
                return None
            x = strip(a[pi])
            if kind == "deref":
                if x["k"] == "Unary" and x["op"] == "&":
                    return lv(x["c"][0])
                b = lv(x)
                return "(*%s)" % b if b else None
            if kind == "field":
                b = lv(x)
                return "%s->%s" % (b, field) if b else None
            return lv(x)
        pk, sk, ak = actual(h["P"]), actual(h["S"]), actual(h["acc"])
        st = st.copy()
        c = "advance@%s(%s,%s)#%d" % (n.get("fn"), pk, sk, self.ctx.ordinal(f, n))
        if h["res"] is not None:
            rk = lv(a[h["res"]]) if h["res"] < len(a) else None
            self.site(c, n, "helper-advance")
            r = st.res.get(rk)
            if self.recording:
                # what this call site guarantees about the value handed over: the helper may rely on it (its own entry state)
                self.ctx.helper_entry.setdefault(n.get("fn"), {})[(f.name, n["id"])] = bool(r and r[1])
            if r is None or not r[0]:
                self.v(c, n, "value passed to %s is not the untruncated result of a producer on every path" % n.get("fn"))
            if pk is not None and sk is not None:
                st.prod = st.prod - {(pk, sk)}
                self.adv_pairs.add((pk, sk))
            st.unacc.pop(rk, None)
            if ak:
                st.acc = st.acc | {ak}
                self.acc_keys.add(ak)
        else:
            # self-contained writer (add_char style): cursor must be in step
            self.site(c, n, "helper-write")
            if pk is not None and ((pk, sk) in st.prod or pk in st.halfP or sk in st.halfS):
                self.v(c, n, "%s writes at a cursor that is not in step" % n.get("fn"))
            if ak:
                st.acc = st.acc | {ak}
                self.acc_keys.add(ak)
        if sk is not None:
            st.lb.pop(sk, None)
            self._kill_eq(st, sk)
        if pk is not None:
            self._kill_eq(st, pk)
        return st

    def is_clamp(self, rhs):
        """S>0 ? S-1 : 0  -> size key S"""
        r = strip(rhs)
        if r["k"] != "Cond":
            return None
        c, t, e = [strip(x) for x in r["c"]]
        if cval(e) != 0:
            return None
        if not (t["k"] == "Binary" and t["op"] == "-" and cval(t["c"][1]) == 1):
            return None
        sk = lv(t["c"][0])
        if sk is None:
            return None
        ok = False
        if lv(c) == sk:
            ok = True
        elif c["k"] == "Binary":
            l, rr = c["c"]
            if c["op"] in (">", "!=") and lv(l) == sk and cval(rr) == 0:
                ok = True
            elif c["op"] == ">=" and lv(l) == sk and cval(rr) == 1:
                ok = True
            elif c["op"] == "<" and cval(l) == 0 and lv(rr) == sk:
                ok = True
        return sk if ok else None

    def assign(self, st, tgt, tk, op, rhs, n, ttype):
        f = self.f
        st = st.copy()
        r = strip(rhs) if rhs is not None else None
        is_ptr = bool(ttype and ttype.get("ptr"))
        # ---- direct store through a cursor/buffer pointer:  P[k] = c   /  *P = c
        t = strip(tgt)
        if t["k"] in ("Sub", "Unary") and (t["k"] == "Sub" or t["op"] == "*"):
            base = t["c"][0]
            idx = cval(t["c"][1]) if t["k"] == "Sub" else 0
            bk = lv(base)
            if bk is not None and self.ctx.is_cursor_ptr(f, bk, st, self):
                c = "store@%s[%s]#%d" % (bk, idx if idx is not None else "?", self.ctx.ordinal(f, n))
                self.site(c, n, "store")
                sizes = self.ctx.sizes_for(f, bk, st, self)
                need = (idx + 1) if idx is not None else None
                if need is None or not any(st.lb.get(s, 0) >= need for s in sizes):
                    self.v(c, n, "store through buffer pointer %s at index %s is not dominated by a test that the remaining size exceeds it (sizes considered: %s)" % (bk, idx, sorted(sizes)))
                return st
            # any other target written through a pointer (a helper's  *tmp += res;  *tmplen -= res;  *ret += res) is an ordinary
            # lvalue for the rules below
        rk = lv(r) if r is not None else None
        # ---- result of a producer
        if op == "=" and r is not None and r["k"] == "Call" and self.producer_args(r) is not None:
            P, S = self.producer_args(r)
            if not (cval(S) is not None or strip(S)["k"] == "SizeOf") and lv(P) and lv(S):
                if tk in st.unacc:
                    self.v("overwrite@%s#%d" % (tk, self.ctx.ordinal(f, n)), n, "result of the previous producer (%s) was overwritten before being added to the returned length" % st.unacc[tk])
                st.res[tk] = (True, False, frozenset(), f.loc(n))
                st.unacc[tk] = f.loc(n)
                self._kill_eq(st, tk); st.lb.pop(tk, None)
                return st
        if op == "=" and r is not None and cval(r) == 0 and not is_ptr and (tk in st.res or tk in self.ctx.res_vars.get(f.name, ())):
            if tk in st.unacc:
                self.v("overwrite@%s#%d" % (tk, self.ctx.ordinal(f, n)), n, "result of the previous producer (%s) was overwritten before being added to the returned length" % st.unacc[tk])
            st.res[tk] = (True, True, "ANY", None)
            return st
        if op == "=" and r is not None:
            sk = self.is_clamp(r)
            if sk is not None and tk in st.res:
                c = "clamp@%s<%s#%d" % (tk, sk, self.ctx.ordinal(f, n))
                self.site(c, n, "clamp")
                if tk in st.unacc:
                    self.v(c, n, "result clamped before it was added to the returned length (producer %s)" % st.unacc[tk])
                st.res[tk] = (False, True, frozenset(self.cls(st, sk)), None)
                return st
        # ---- accumulate / advance
        if op in ("+=", "-=") and rk is not None and rk in st.res:
            R = st.res[rk]
            if op == "+=" and not is_ptr:
                c = "accumulate@%s+=%s#%d" % (tk, rk, self.ctx.ordinal(f, n))
                self.site(c, n, "accumulate")
                if not R[0]:
                    self.v(c, n, "length accumulator receives a value that is not the untruncated producer result on every path (clamped or overwritten before)")
                st.acc = st.acc | {tk}
                self.acc_keys.add(tk)
                st.unacc.pop(rk, None)
                return st
            if op == "+=" and is_ptr:
                c = "advance@%s+=%s#%d" % (tk, rk, self.ctx.ordinal(f, n))
                self.site(c, n, "advance-ptr")
                if not R[1]:
                    self.v(c, n, "cursor pointer advanced by a value not proved non-negative on every path")
                if R[2] != "ANY" and not R[2]:
                    self.v(c, n, "cursor pointer advanced by a value not clamped below the remaining size on every path")
                done = None
                for s, rr in st.halfS.items():
                    if rr == rk:
                        done = s
                if done is not None:
                    del st.halfS[done]
                    st.prod = st.prod - {(tk, done)}
                    self.adv_pairs.add((tk, done))
                else:
                    if tk in st.halfP:
                        self.v(c, n, "cursor pointer advanced twice without the size being decreased")
                    st.halfP[tk] = rk
                self._kill_eq(st, tk)
                return st
            if op == "-=" and not is_ptr:
                c = "advance@%s-=%s#%d" % (tk, rk, self.ctx.ordinal(f, n))
                self.site(c, n, "advance-size")
                if not R[1]:
                    self.v(c, n, "remaining size decreased by a value not proved non-negative on every path")
                if R[2] != "ANY" and tk not in R[2]:
                    self.v(c, n, "remaining size %s decreased by a value not clamped below it on every path" % tk)
                done = None
                for p, rr in st.halfP.items():
                    if rr == rk:
                        done = p
                if done is not None:
                    del st.halfP[done]
                    st.prod = st.prod - {(done, tk)}
                    self.adv_pairs.add((done, tk))
                else:
                    if tk in st.halfS:
                        self.v(c, n, "remaining size decreased twice without the pointer being advanced")
                    st.halfS[tk] = rk
                # clamped advance keeps S >= 1 when it was >= 1
                if st.lb.get(tk, 0) >= 1:
                    st.lb[tk] = 1
                else:
                    st.lb.pop(tk, None)
                self._kill_eq(st, tk)
                return st
        # ---- ++ / -- on cursor pointer or size
        if op in ("++", "--") and rhs is None:
            if is_ptr and op == "++" and self.ctx.is_cursor_ptr(f, tk, st, self):
                c = "advance@%s++#%d" % (tk, self.ctx.ordinal(f, n))
                self.site(c, n, "advance-one")
                sizes = self.ctx.sizes_for(f, tk, st, self)
                if not any(st.lb.get(s, 0) >= 2 for s in sizes):
                    self.v(c, n, "cursor pointer incremented without a dominating test that more than one byte remains")
                st.shift = st.shift | {tk}
                self._kill_eq(st, tk)
                return st
            if not is_ptr and op == "--" and tk in self.ctx.size_keys(f, self):
                if st.shift:
                    st.shift = frozenset()
                if tk in st.lb:
                    st.lb[tk] -= 1
                self._kill_eq(st, tk)
                return st
        # ---- plain copy: equality classes, facts travel
        self._kill_eq(st, tk)
        st.lb.pop(tk, None)
        if tk in st.res:
            if tk in st.unacc:
                self.v("overwrite@%s#%d" % (tk, self.ctx.ordinal(f, n)), n, "result of the previous producer (%s) was overwritten before being added to the returned length" % st.unacc[tk])
                st.unacc.pop(tk, None)
            # a result variable overwritten by something else stays a candidate advance: nothing is proved about the new value
            # (not the raw length, not non-negative, not below any size) until tests re-establish it.  `S - 1` is below S, and
            # non-negative where S >= 1 is known.
            if op == "=" and r is not None and not is_ptr and r["k"] == "Binary" and r["op"] == "-" and cval(r["c"][1]) == 1 and lv(r["c"][0]) in self.ctx.size_keys(f, self):
                sk = lv(r["c"][0])
                st.res[tk] = (False, st.lb.get(sk, 0) >= 1, frozenset(self.cls(st, sk)), None)
                return st
            if op == "=" and not is_ptr and not (rk is not None and rk in st.res):
                st.res[tk] = (False, False, frozenset(), None)
                return st
            del st.res[tk]
        if tk in st.halfP or tk in st.halfS:
            pass
        if op == "=" and rk is not None and rk != tk:
            cls = frozenset(self.cls(st, rk) | {tk})
            for k2 in cls:
                st.eq[k2] = cls
            if rk in st.lb:
                st.lb[tk] = st.lb[rk]
            if rk in st.res and not is_ptr:
                st.res[tk] = st.res[rk]
        return st

    def edge(self, st, blk, cond, truth):
        if not isinstance(truth, bool):
            return st
        new = None
        for atom, t in edge_facts(cond, truth):
            l, op, r = rel(atom, t)
            for (a, o, b) in ((l, op, r), (r, SWAP[op], l)):
                ak = lv(a)
                if ak is None:
                    continue
                bk = lv(b)
                bv = cval(b)
                # result facts
                if ak in st.res:
                    R = (new or st).res[ak]
                    if bv == 0 and o == ">=" or (bv == -1 and o == ">") or (bv == 0 and o == ">"):
                        new = new or st.copy()
                        new.res[ak] = (R[0], True, R[2], R[3])
                    elif bk is not None and o == "<":
                        new = new or st.copy()
                        bd = R[2] if R[2] == "ANY" else frozenset(R[2] | self.cls(st, bk))
                        new.res[ak] = (R[0], R[1], bd, R[3])
                # an accumulator tested to be zero: nothing has been accumulated on this path (lengths are non-negative)
                if ak in (new or st).acc and o == "==" and bv == 0:
                    new = new or st.copy()
                    new.acc = new.acc - {ak}
                # size facts
                if bv is not None and ak not in st.res:
                    lbv = None
                    if o == ">":
                        lbv = bv + 1
                    elif o == ">=":
                        lbv = bv
                    elif o == "!=" and bv == 0:
                        lbv = 1
                    if lbv is not None and lbv >= 1:
                        new = new or st.copy()
                        self._learn_lb(new, ak, lbv)
        return new or st

    def ret(self, st, n):
        f = self.f
        if not self.ctx.is_snprintf_like(f) or not any(k.isidentifier() for k in self.acc_keys):
            return      # the return rule is for functions that accumulate the length in a local variable
        e = strip(n["c"][0]) if n.get("c") and n["c"][0] is not None else None
        c = "return#%d" % self.ctx.ordinal(f, n)
        self.site(c, n, "return")
        if e is None:
            return
        v = cval(e)
        if v is not None and v < 0:
            return
        ek = lv(e)
        if st.halfP or st.halfS:
            self.v(c, n, "returns with a half-advanced cursor")
        if ek is not None and (ek in st.acc or ek in self.acc_keys):
            if st.unacc:
                self.v(c, n, "returns the accumulated length although the result of producer %s was never added to it on some path" % sorted(st.unacc.values())[0])
            return
        if e["k"] == "Call" and self.producer_args(e) is not None:
            if st.acc:
                self.v(c, n, "returns a single producer's result after other output was already accumulated")
            return
        if ek is not None and ek in st.res and st.res[ek][0] and not st.acc:
            return   # single production returned as is
        if v == 0 and not st.acc and not st.prod:
            return
        self.v(c, n, "snprintf-like function returns %s, which is neither the accumulated length, a negative error, nor a producer's result" % src(e))


class SnpRule(object):
    """Discovers producers/helpers/snprintf-like functions, runs the flow on each."""

    def __init__(self, program, units):
        self.P = program
        self.units = units
        self.producers = dict(SEED_PRODUCERS)
        self.helpers = {}
        self.res_params = {}
        self.helper_entry = {}
        self.res_vars = {}
        self._ord = {}
        self.like = {}
        self.param_pairs = {}
        self.funcs = []
        for u in units:
            for f in program.unit(u).funcs(only_main=True):
                self.funcs.append(f)
        self.discover()

    def ordinal(self, f, n):
        """stable ordinal of node among same-kind constructs of the function (by source order), so that
        construct names do not contain line numbers"""
        key = f.name
        m = self._ord.get(key)
        if m is None:
            m = self._ord[key] = {}
            cnt = {}
            for x in f.walk():
                kk = x["k"] + ":" + (x.get("fn") or x.get("op") or "")
                cnt[kk] = cnt.get(kk, 0) + 1
                m[x["id"]] = cnt[kk]
        return m.get(n["id"], 0)

    # -- signatures
    def pairs_of(self, f):
        """adjacent (char* p, integer s) or (char** p, integer* s) parameters -> [(pkey, skey, i)]"""
        if f.name in self.param_pairs:
            return self.param_pairs[f.name]
        out = []
        ps = f.params
        T = f.unit.types
        for i in range(len(ps) - 1):
            a, b = T[ps[i]["t"]], T[ps[i + 1]["t"]]
            sa = a["s"].replace("restrict", "").replace("__", "").replace(" ", "")
            sb = b["s"].replace(" ", "")
            if sa in ("char*",) and "w" in b and b["w"] >= 32:
                out.append((ps[i]["n"], ps[i + 1]["n"], i))
            elif sa == "char**" and sb in ("ssize_t*", "size_t*", "int*", "long*", "unsignedlong*"):
                out.append(("(*%s)" % ps[i]["n"], "(*%s)" % ps[i + 1]["n"], i))
        self.param_pairs[f.name] = out
        return out

    def producer_args_static(self, call):
        fn = call.get("fn")
        return fn in self.producers or fn in self.helpers

    def is_snprintf_like(self, f):
        return self.like.get(f.name, False)

    def size_keys(self, f, flow):
        s = set(sk for _, sk in flow.pairs)
        s |= set(sk for _, sk, _ in self.pairs_of(f))
        return s

    def is_cursor_ptr(self, f, key, st, flow):
        ptrs = set(pk for pk, _ in flow.pairs) | set(pk for pk, _, _ in self.pairs_of(f))
        ptrs |= self.static_pairs.get(f.name, {}).keys()
        return bool(st.eq.get(key, frozenset([key])) & ptrs)

    def sizes_for(self, f, key, st, flow):
        cls = st.eq.get(key, frozenset([key]))
        out = set()
        allp = set(flow.pairs) | set((pk, sk) for pk, sk, _ in self.pairs_of(f))
        for pk, sks in self.static_pairs.get(f.name, {}).items():
            for sk in sks:
                allp.add((pk, sk))
        for pk, sk in allp:
            if pk in cls:
                out |= set(st.eq.get(sk, frozenset([sk])))
        return out

    def discover(self):
        # static (flow-insensitive) cursor pairs per function: from producer calls
        self.static_pairs = {}
        changed = True
        rounds = 0
        while changed and rounds < 6:
            changed = False
            rounds += 1
            for f in self.funcs:
                # helper summary: int param res with  X += res (ptr), Y -= res, Z += res
                if f.name not in self.helpers:
                    h = self.helper_summary(f)
                    if h is not None:
                        self.helpers[f.name] = h
                        changed = True
                sp = {}
                has = False
                for c in f.calls():
                    pos = self.producers.get(c.get("fn"))
                    if pos is not None and len(args(c)) > max(pos):
                        P, S = args(c)[pos[0]], args(c)[pos[1]]
                        if cval(S) is not None or strip(S)["k"] == "SizeOf":
                            continue
                        pk, sk = lv(P), lv(S)
                        if pk and sk:
                            sp.setdefault(pk, set()).add(sk)
                            has = True
                    elif c.get("fn") in self.helpers:
                        has = True
                self.static_pairs[f.name] = sp
                pp = self.pairs_of(f)
                if pp and f.name not in self.producers and f.name not in self.helpers:
                    T = f.unit.types[f.d["ret"]]
                    if "w" in T and (has or self.touches_pair(f, pp)):
                        # the function writes formatted output at (p, s): it is itself a producer
                        self.producers[f.name] = (pp[0][2], pp[0][2] + 1)
                        self.like[f.name] = True
                        changed = True
        # result variables (so that `res = 0` is recognised as an empty production)
        for f in self.funcs:
            rv = set()
            for n in f.walk():
                a = assigned(n)
                if a and a[1] == "=" and a[2] is not None and strip(a[2])["k"] == "Call" and strip(a[2]).get("fn") in self.producers:
                    k = lv(a[0])
                    if k:
                        rv.add(k)
                if n["k"] == "Var" and n.get("c") and n["c"][0] is not None and strip(n["c"][0])["k"] == "Call" and strip(n["c"][0]).get("fn") in self.producers:
                    rv.add(n["n"])
            self.res_vars[f.name] = rv

    def touches_pair(self, f, pp):
        pk = pp[0][0]
        for n in f.walk():
            a = assigned(n)
            if a:
                t = strip(a[0])
                if t["k"] in ("Sub",) and lv(t["c"][0]) == pk:
                    return True
                if t["k"] == "Unary" and t["op"] == "*" and lv(t["c"][0]) == pk:
                    return True
        return False

    def helper_summary(self, f):
        """f(..., int res) that advances a cursor reachable from its pointer parameters by res,
        or a void self-contained writer over (char **p, ssize_t *s)."""
        ps = f.params
        T = f.unit.types
        names = {p["n"]: i for i, p in enumerate(ps)}
        best = None
        for i, p in enumerate(ps):
            if "w" not in T[p["t"]] or T[p["t"]]["s"] != "int":
                continue
            P = S = A = None
            # locals that merely cache a formal:  ssize_t size = *sizep;
            alias = {}
            for n in f.walk():
                if n["k"] == "Var" and n.get("c") and n["c"][0] is not None:
                    fm = self.formal(n["c"][0], names)
                    if fm is not None:
                        alias[n["n"]] = fm
            for n in f.walk():
                a = assigned(n)
                if not a or a[2] is None:
                    continue
                op = a[1]
                if lv(a[2]) != p["n"]:
                    # *S = <S or its cached copy> - res   /   *P = *P + res
                    r = strip(a[2])
                    if not (op == "=" and r["k"] == "Binary" and r["op"] in ("+", "-") and lv(r["c"][1]) == p["n"]):
                        continue
                    lform = self.formal(r["c"][0], names) or alias.get(lv(r["c"][0]))
                    if lform is None or lform != self.formal(a[0], names):
                        continue
                    op = r["op"] + "="
                a = (a[0], op, a[2])
                tgt = a[0]
                form = self.formal(tgt, names)
                if form is None:
                    continue
                tt = f.type_of(tgt)
                if a[1] == "+=" and tt and tt.get("ptr"):
                    P = form
                elif a[1] == "-=":
                    S = form
                elif a[1] == "+=":
                    A = form
            if P and S:
                best = {"res": i, "P": P, "S": S, "acc": A}
                self.res_params[f.name] = [p["n"]]
        if best:
            return best
        pp = self.pairs_of(f)
        if pp and pp[0][0].startswith("(*") and T[f.d["ret"]]["s"] == "void":
            i = pp[0][2]
            A = None
            for n in f.walk():
                a = assigned(n)
                if a and a[1] in ("++", "+=") :
                    form = self.formal(a[0], names)
                    if form and form[1] not in (i, i + 1) and form[0] == "deref":
                        A = form
            return {"res": None, "P": ("deref", i, None), "S": ("deref", i + 1, None), "acc": A}
        return None

    def formal(self, tgt, names):
        t = strip(tgt)
        if t["k"] == "Unary" and t["op"] == "*":
            b = strip(t["c"][0])
            if b["k"] == "Ref" and b["n"] in names:
                return ("deref", names[b["n"]], None)
        if t["k"] == "Member" and t.get("arrow"):
            b = strip(t["c"][0])
            if b["k"] == "Ref" and b["n"] in names:
                return ("field", names[b["n"]], t["f"])
        return None

    def helper_accumulates(self, chk, rule):
        """a helper that counts what it emits into an accumulator parameter does so on EVERY path: the count is the length the
        untruncated output needs, so it must not depend on the room left (an early return when the buffer is full loses it)"""
        for f in self.funcs:
            h = self.helpers.get(f.name)
            if not h or not h.get("acc") or f.entry is None:
                continue
            names = {p["n"]: i for i, p in enumerate(f.params)}
            acc = h["acc"]
            ctx = self
            class AccFlow(Flow):
                def init(self2):
                    return False
                def join(self2, a, b):
                    return a and b
                def edge(self2, st, blk, cond, truth):
                    # a failed production (res < 0) is not counted: that path is exempt
                    if isinstance(truth, bool) and h.get("res") is not None:
                        rn = f.params[h["res"]]["n"]
                        for atom, t in edge_facts(cond, truth):
                            l, op, r = rel(atom, t)
                            if lv(l) == rn and cval(r) == 0 and op == "<":
                                return True
                            if lv(l) == rn and cval(r) == -1 and op == "<=":
                                return True
                    return st
                def elem(self2, st, n):
                    a = assigned(n)
                    if a and a[1] in ("++", "+=") and ctx.formal(a[0], names) == acc:
                        return True
                    if n["k"] == "Return" and self2.recording:
                        self2.rets.append((n, st))
                    return st
            fl = AccFlow(f)
            fl.rets = []
            fl.run()
            bad = [n for n, st in fl.rets if not st]
            end_ok = fl.inb.get(f.exit, True)
            # the implicit end of a void function: predecessors of the exit block that do not end with a return
            ok = not bad and (end_ok is True or all(f.nodes[f.blocks[p]["e"][-1]]["k"] == "Return" for p in f.preds.get(f.exit, []) if f.blocks[p]["e"]))
            if not bad and not ok:
                # recompute precisely: state at the end of each predecessor of exit
                ok = True
                for p in f.preds.get(f.exit, []):
                    st = fl.inb.get(p)
                    if st is None:
                        continue
                    for e in f.blocks[p]["e"]:
                        st = fl.elem(st, f.nodes[e])
                    if not st:
                        ok = False
            chk.inst(rule, f, "helper-accumulates-on-every-path", ok, "helper %s counts its output into parameter %d on every path%s" % (
                f.name, acc[1], "" if ok else " -- a return is reachable without the count being updated (e.g. when no room is left): the returned length is then smaller than the untruncated length"),
                loc=f.loc(bad[0]) if bad else None)

    def run(self, chk, rule="R-SNP"):
        n_prod = n_adv = n_funcs = 0
        self.helper_accumulates(chk, rule)
        # callers first: what they guarantee about the values handed to cursor helpers is the helpers' entry state
        for f in self.funcs:
            if f.name in self.helpers or f.entry is None:
                continue
            if any(c.get("fn") in self.helpers for c in f.calls()):
                SnpFlow(f, self).run()
        for f in [g for g in self.funcs if g.name in self.helpers and g.entry is not None]:
            if any(c.get("fn") in self.helpers for c in f.calls()):
                SnpFlow(f, self).run()
        for f in self.funcs:
            relevant = bool(self.static_pairs.get(f.name)) or f.name in self.helpers or self.like.get(f.name)
            if not relevant:
                # calls to helpers only
                if not any(c.get("fn") in self.helpers for c in f.calls()):
                    continue
            fl = SnpFlow(f, self)
            fl.run()
            n_funcs += 1
            # pair consistency: a producer must be given the size that is advanced together with its pointer
            for (c, node, pk, sk) in fl.prod_sites:
                others = set(s2 for (p2, s2) in fl.adv_pairs if p2 == pk)
                if others and sk not in others:
                    fl.viol.setdefault(c, "producer writes at %s with size %s, but %s is advanced together with %s: the remaining size is not what bounds this write (%s)" % (pk, sk, pk, sorted(others), f.loc(node)))
            # the full length is computed whatever the buffer size: no exit from a producing loop may depend on the remaining size
            if self.is_snprintf_like(f):
                sizes = self.size_keys(f, fl)
                for x in f.walk():
                    if x["k"] not in ("Break", "Goto", "Return"):
                        continue
                    if x["k"] == "Return":
                        e = x["c"][0] if x.get("c") else None
                        if e is not None and cval(e) is not None and cval(e) < 0:
                            continue
                    # climb to the nearest loop; remember the If conditions on the way
                    conds, p, loop = [], f.par(x), None
                    child = x
                    while p is not None:
                        if p["k"] == "If" and p["c"][0] is not child:
                            conds.append(p["c"][0])
                        if p["k"] == "Switch" and x["k"] == "Break":
                            break
                        if p["k"] in ("For", "While", "Do"):
                            loop = p
                            break
                        child = p
                        p = f.par(p)
                    if loop is None or not conds:
                        continue
                    if not any(y["k"] == "Call" and self.producer_args_static(y) for y in subnodes(loop)):
                        continue
                    hit = [c0 for c0 in conds if any(lv(y) in sizes for y in subnodes(c0) if y["k"] in ("Ref", "Member", "Unary"))]
                    cname = "loop-exit#%d" % self.ordinal(f, x)
                    fl.sites.setdefault(cname, ("loop exit in a producing loop", f.loc(x)))
                    if hit:
                        fl.viol.setdefault(cname, "a producing loop is left under a condition on the remaining size (`%s`): the output that no longer fits is not counted, "
                                                  "the returned length is then smaller than the untruncated length" % src(strip(hit[0])))
            for c, (kind, loc) in sorted(fl.sites.items()):
                ok = c not in fl.viol
                chk.inst(rule, f, c, ok, fl.viol.get(c, kind), loc=loc)
                if kind == "producer":
                    n_prod += 1
                if kind.startswith("advance") or kind == "helper-advance":
                    n_adv += 1
            for c, d in fl.viol.items():
                if c not in fl.sites:
                    chk.inst(rule, f, c, False, d)
        return {"functions": n_funcs, "producers": n_prod, "advances": n_adv}


def asprintf_shape(chk, program, unit, triples, rule="R-SNP-ASPRINTF"):
    """len = F(NULL,0,set); buf = malloc(len+1); return F(buf, len+1, set) with the same F and set."""
    for name, F in triples:
        f = program.need_func(name, unit)
        calls = [c for c in f.calls(F)]
        mall = [c for c in f.calls("malloc")]
        ok = True
        why = []
        if len(calls) != 2 or len(mall) != 1:
            ok = False
            why.append("expected two calls of %s and one malloc, found %d/%d" % (F, len(calls), len(mall)))
        else:
            q, w = calls
            qa, wa = args(q), args(w)
            if not (cval(qa[0]) == 0 and cval(qa[1]) == 0):
                ok = False; why.append("length query is not F(NULL, 0, ...)")
            lenvar = None
            par = f.par(q)
            a = assigned(par) if par else None
            if a and a[1] == "=":
                lenvar = lv(a[0])
            elif par and par["k"] == "Var":
                lenvar = par["n"]
            if lenvar is None:
                ok = False; why.append("length query result not stored")
            def is_len1(x):
                x = strip(x)
                return x["k"] == "Binary" and x["op"] == "+" and ((lv(x["c"][0]) == lenvar and cval(x["c"][1]) == 1) or (lv(x["c"][1]) == lenvar and cval(x["c"][0]) == 1))
            if lenvar and not is_len1(args(mall[0])[0]):
                ok = False; why.append("malloc size is not len+1")
            if lenvar and not is_len1(wa[1]):
                ok = False; why.append("second call's size is not len+1")
            bufvar = None
            mp = f.par(mall[0])
            ma = assigned(mp) if mp else None
            if ma:
                bufvar = lv(ma[0])
            if bufvar is None or lv(wa[0]) != bufvar:
                ok = False; why.append("second call does not write into the malloc'ed buffer")
            if [src(x) for x in qa[2:]] != [src(x) for x in wa[2:]]:
                ok = False; why.append("the two calls do not print the same operand")
            wp = f.par(w)
            if not (wp and wp["k"] == "Return"):
                ok = False; why.append("result of the second call is not what is returned")
        chk.inst(rule, f, "asprintf-shape", ok, "; ".join(why) or "len=F(NULL,0,x); malloc(len+1); return F(buf,len+1,x)")


def fixed_buffers(chk, program, units, rule="R-SNPSIZE"):
    """snprintf/vsnprintf/hwloc_snprintf(dest, n, ...) where dest is a fixed-size array (or &arr[k]):
    n must be a constant <= sizeof(arr) - k."""
    cnt = 0
    for u in units:
        for f in program.unit(u).funcs(only_main=True):
            ordn = 0
            for c in f.calls(("snprintf", "vsnprintf")):
                a = args(c)
                if len(a) < 2:
                    continue
                d = strip(a[0])
                off = 0
                if d["k"] == "Unary" and d["op"] == "&" and strip(d["c"][0])["k"] == "Sub":
                    s = strip(d["c"][0])
                    off = cval(s["c"][1])
                    d = strip(s["c"][0])
                elif d["k"] == "Binary" and d["op"] == "+":
                    off = cval(d["c"][1])
                    d = strip(d["c"][0])
                t = f.type_of(d) if d["k"] in ("Ref", "Member") else None
                if not t or "arr" not in t:
                    continue
                ordn += 1
                cnt += 1
                elem = t["sz"] // t["arr"] if t.get("sz") and t["arr"] else 1
                cap = t["arr"] * elem
                n = cval(a[1])
                ok = n is not None and off is not None and n + off * elem <= cap
                chk.inst(rule, f, "%s#%d" % (lv(d) or src(d), ordn), ok,
                         "snprintf into %s[%d] with size %s at offset %s" % (lv(d) or src(d), cap, n if n is not None else src(a[1]), off), loc=f.loc(c), nontrivial=True)
    return cnt
