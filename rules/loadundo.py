"""R-LOADUNDO: what hwloc_topology_destroy() releases below the topology, and hwloc__topology_init() did not allocate, is also released
when hwloc_topology_load() fails.

A failed load re-initialises the topology so that it can be configured and loaded again (hwloc_topology_clear + setup_defaults).
Memory that destroy() releases through a topology field is of two kinds: containers allocated once by hwloc__topology_init() (levels,
level_nbobjects, the support arrays: kept and re-used), and contents produced by a load (everything hwloc_topology_clear() handles,
plus whatever destroy() releases itself).  A field of the second kind that the failure path of load does not release keeps the
contents of the rejected input: the next, successful, load reports them (topology-level infos of a rejected XML file).

Decided from three sets: D = (releasing callee, first field) for the calls of destroy() whose argument is rooted at a topology field
and whose callee's effect summary frees below that argument; I = fields assigned an allocation in hwloc__topology_init(); L = calls
that have completed on every path to the failing return of hwloc_topology_load() (must-facts).  Every D entry outside I needs a call
in L that is given the same field."""
from prog import *
import must


def _first_field(f, a, tparam):
    a = strip(a)
    if a is not None and a["k"] == "Unary" and a["op"] == "&":
        a = strip(a["c"][0])
    k = lv(a)
    if not k or not k.startswith(tparam + "->"):
        return None
    rest = k[len(tparam) + 2:]
    return rest.split("->")[0].split(".")[0].split("[")[0]


def run(chk, P, E, rule="R-LOADUNDO"):
    d = P.need_func("hwloc_topology_destroy", "topology.c")
    ini = P.need_func("hwloc__topology_init", "topology.c")
    ld = P.need_func("hwloc_topology_load", "topology.c")
    T = d.unit.types
    tp = [p["n"] for p in d.params if T[p["t"]].get("prec") == "hwloc_topology"]
    if not chk.need(bool(tp), "%s: hwloc_topology_destroy has no topology parameter" % rule):
        return 0
    tp = tp[0]
    D = {}
    for c in d.calls():
        fn = c.get("fn")
        if not fn:
            continue
        for i, a in enumerate(args(c)):
            F = _first_field(d, a, tp)
            if not F:
                continue
            frees = fn in ("free",)
            S = E.sum.get(fn)
            if S is not None and any(r[0] == "arg" and r[1] == i for r in S.free):
                frees = True
            if frees:
                D.setdefault(F, (fn, d.loc(c)))
    # containers allocated by init (through the pointer it fills: *topologyp / topology)
    I = set()
    for x in ini.walk():
        a = assigned(x)
        if a and a[1] == "=" and a[2] is not None:
            r = strip(a[2])
            t = strip(a[0])
            if r is not None and r["k"] == "Call" and r.get("fn") in ("malloc", "calloc", "hwloc_tma_malloc", "hwloc_tma_calloc") and t["k"] == "Member":
                y = t
                chain = []
                while y is not None and y["k"] in ("Member", "Sub"):
                    if y["k"] == "Member":
                        chain.append(y["f"])
                    y = strip(y["c"][0])
                if chain:
                    I.add(chain[-1])
    # calls completed on every path to a failing return of load
    ltp = [p["n"] for p in ld.params if ld.unit.types[p["t"]].get("prec") == "hwloc_topology"][0]
    m = must.Must(ld).run()
    fails = [r for r in returns(ld) if r.get("c") and (cval(r["c"][0]) or 0) < 0 and m.before.get(r["id"]) is not None]
    # the failing return that follows the re-initialisation (hwloc_topology_clear has run): the others fail before anything was loaded
    fails = [r for r in fails if any(fc[0] == "call" and fc[1] == "hwloc_topology_clear" for fc in m.before[r["id"]])]
    if not chk.need(bool(fails), "%s: hwloc_topology_load has no failing return after hwloc_topology_clear()" % rule):
        return 0
    n = 0
    for F in sorted(D):
        fn, loc = D[F]
        n += 1
        if F in I:
            chk.inst(rule, d, "field:" + F, True, "topology->%s is released by destroy() through %s(); it is a container allocated once by hwloc__topology_init() and re-used by the next load" % (F, fn), loc=loc, nontrivial=False)
            continue
        ok = True
        for r in fails:
            st = m.before[r["id"]]
            if not any(fc[0] == "call" and any(("%s->%s" % (ltp, F)) in at for at in fc[2]) for fc in st):
                ok = False
        chk.inst(rule, d, "field:" + F, ok,
                 "topology->%s is released by destroy() through %s() and is not a container of hwloc__topology_init(): the failure path of hwloc_topology_load() releases it as well%s"
                 % (F, fn, "" if ok else " -- but no call given topology->%s has completed on the way to load's failing return: contents produced by the rejected input survive into the next load" % F), loc=loc)
    return n
