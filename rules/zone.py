"""R-WORDIDX: word indexes into a bitmap's ulongs[] array stay below the bitmap's word count (zone abstract domain).

Abstract interpretation of hwloc/bitmap.c over difference-bound matrices (constraints x - y <= c between integer terms: locals,
X->ulongs_count, X->ulongs_allocated, 0), with a small number of disjuncts per program point (trace partitioning: the two arms of
`max = a > b ? a : b` are kept apart, which is what makes `min_count`/`max_count` reasoning exact).

  * entry: for every bitmap pointer in scope  0 <= X->ulongs_count <= X->ulongs_allocated
  * helpers' post-conditions on their success edge (trusted, listed in the evidence):
        hwloc_bitmap_reset_by_ulongs(X, n)   == 0  =>  X->ulongs_count == n,  X->ulongs_allocated >= n
        hwloc_bitmap_realloc_by_ulongs(X, n) == 0  =>  X->ulongs_count >= n and >= its old value, allocated >= count
        hwloc_bitmap_enlarge_by_ulongs(X, n) == 0  =>  X->ulongs_allocated >= n
    another bitmap Y that may alias X keeps every bound that holds both for its old count and for the new one (join)
  * obligation at every  X->ulongs[e]:   e <= X->ulongs_count - 1   (reads and writes; writes inside the three helpers and after
    a successful enlarge may instead use ulongs_allocated), and e >= 0 when e has a signed type.
Arithmetic is over mathematical integers: unsigned wrap-around (count - 1 with count == 0) is not modelled (stated in DESIGN.md).

Scope: the functions in which EVERY access is proved on the pinned tree (frozen in zone_proven.json; the rule is exact
there): an access of one of them that is no longer proved is a violation.  Functions with an access the domain cannot prove are
frozen out of scope with the reason; functions that did not exist when the scope was frozen (a helper extracted by a
refactoring needs its callers' context) are reported and counted, not judged."""
from prog import *

import json as _json
PROVEN = _json.load(open(os.path.join(os.path.dirname(os.path.abspath(__file__)), "zone_proven.json")))   # functions in which every access is proved on the pinned tree
INF = 1 << 40
MAXDISJ = 6
HELPERS = {"hwloc_bitmap_reset_by_ulongs": "reset", "hwloc_bitmap_realloc_by_ulongs": "realloc", "hwloc_bitmap_enlarge_by_ulongs": "enlarge"}


class DBM(object):
    __slots__ = ("d", "bot", "tag")

    def __init__(self, d=None, bot=False, tag=()):
        self.d = d if d is not None else {}
        self.bot = bot
        self.tag = tag          # trace partition: which arms of ?: definitions this disjunct went through

    def copy(self):
        return DBM(dict(self.d), self.bot, self.tag)

    def terms(self):
        s = set()
        for (x, y) in self.d:
            s.add(x); s.add(y)
        return s

    def get(self, x, y):
        if x == y:
            return 0
        return self.d.get((x, y), INF)

    def add(self, x, y, c):
        """x - y <= c, incremental closure"""
        if self.bot or x == y:
            if x == y and c < 0:
                self.bot = True
            return
        if c >= self.get(x, y):
            return
        if self.get(y, x) + c < 0:
            self.bot = True
            return
        T = self.terms() | {x, y}
        dx = {a: self.get(a, x) for a in T}
        dy = {b: self.get(y, b) for b in T}
        for a in T:
            if dx[a] >= INF:
                continue
            for b in T:
                if a == b or dy[b] >= INF:
                    continue
                v = dx[a] + c + dy[b]
                if v < self.get(a, b):
                    self.d[(a, b)] = v
        # consistency
        for a in T:
            for b in T:
                if a != b and self.get(a, b) + self.get(b, a) < 0:
                    self.bot = True
                    return

    def forget(self, x):
        import re
        pat = re.compile(r"(?<![A-Za-z0-9_>])%s(?![A-Za-z0-9_])" % re.escape(x))
        for k in [k for k in self.d if k[0] == x or k[1] == x or (k[0].startswith("<") and pat.search(k[0])) or (k[1].startswith("<") and pat.search(k[1]))]:
            del self.d[k]

    def forget_prefix(self, pfx):
        for k in [k for k in self.d if k[0].startswith(pfx) or k[1].startswith(pfx)]:
            del self.d[k]

    def shift(self, x, c):
        """x := x + c"""
        for k in [k for k in self.d if (k[0].startswith("<") and x in k[0]) or (k[1].startswith("<") and x in k[1])]:
            del self.d[k]
        nd = {}
        for (a, b), v in self.d.items():
            if a == x and b != x:
                nd[(a, b)] = v + c
            elif b == x and a != x:
                nd[(a, b)] = v - c
            else:
                nd[(a, b)] = v
        self.d = nd

    def assign(self, x, t, c):
        """x := t + c (t a term or '0')"""
        if t == x:
            self.shift(x, c)
            return
        self.forget(x)
        self.add(x, t, c)
        self.add(t, x, -c)

    def join(self, o):
        if self.bot:
            r = o.copy(); r.tag = self.tag if self.tag == o.tag else ()
            return r
        if o.bot:
            return self.copy()
        nd = {}
        for k, v in self.d.items():
            w = o.d.get(k)
            if w is not None:
                nd[k] = max(v, w)
        return DBM(nd, False, self.tag if self.tag == o.tag else ())

    def key(self):
        return (self.bot, self.tag, tuple(sorted(self.d.items())))

    def leq_const(self, x, y):
        return self.get(x, y)


def lin(f, e, defs=None):
    """linear form of an integer expression: ({term: coeff}, const) or None"""
    e = strip(e)
    if e is None:
        return None
    v = cval(e)
    if v is not None:
        return ({}, v)
    k = e["k"]
    if k in ("Ref", "Member"):
        key = lv(e)
        if key is None:
            return None
        return ({key: 1}, 0)
    if k == "Unary" and e["op"] in ("post++", "post--", "++", "--"):
        # the CFG evaluates the increment before the enclosing subscript: the variable already holds the new value
        key = lv(e["c"][0])
        if key is None:
            return None
        if e["op"] == "post++":
            return ({key: 1}, -1)
        if e["op"] == "post--":
            return ({key: 1}, 1)
        return ({key: 1}, 0)
    if k == "Binary" and e["op"] in ("/", "%", ">>", "<<", "&"):
        # opaque term: the same expression over the same (unmodified) variables denotes the same value
        return ({"<%s>" % optext(e): 1}, 0)
    if k == "Unary" and e["op"] == "-":
        a = lin(f, e["c"][0])
        if a is None:
            return None
        return ({t: -c for t, c in a[0].items()}, -a[1])
    if k == "Binary" and e["op"] in ("+", "-"):
        a, b = lin(f, e["c"][0]), lin(f, e["c"][1])
        if a is None or b is None:
            return None
        s = 1 if e["op"] == "+" else -1
        out = dict(a[0])
        for t, c in b[0].items():
            out[t] = out.get(t, 0) + s * c
        return ({t: c for t, c in out.items() if c}, a[1] + s * b[1])
    if k == "Binary" and e["op"] == "*":
        a, b = lin(f, e["c"][0]), lin(f, e["c"][1])
        if a is not None and b is not None:
            if not a[0]:
                return ({t: c * a[1] for t, c in b[0].items() if c * a[1]}, a[1] * b[1])
            if not b[0]:
                return ({t: c * b[1] for t, c in a[0].items() if c * b[1]}, a[1] * b[1])
        return None
    return None


def optext(e):
    e = strip(e)
    if e is None:
        return "?"
    v = cval(e)
    if v is not None:
        return str(v)
    if e["k"] == "Binary":
        return "(%s%s%s)" % (optext(e["c"][0]), e["op"], optext(e["c"][1]))
    if e["k"] == "Unary":
        return "%s%s" % (e["op"], optext(e["c"][0]))
    return lv(e) or src(e)


def simplify(st, form):
    """use equalities of the state to reduce a linear form to (term, const) / ('0', const); None if not possible"""
    terms, c = dict(form[0]), form[1]
    changed = True
    while changed and len(terms) > 1:
        changed = False
        pos = [t for t, k in terms.items() if k > 0]
        neg = [t for t, k in terms.items() if k < 0]
        for p in pos:
            for n in neg:
                a, b = st.get(p, n), st.get(n, p)
                if a < INF and b < INF and a == -b:
                    # p - n == a
                    terms[p] -= 1
                    terms[n] += 1
                    c += a
                    terms = {t: k for t, k in terms.items() if k}
                    changed = True
                    break
            if changed:
                break
    if not terms:
        return ("0", c)
    if len(terms) == 1:
        (t, k), = terms.items()
        if k == 1:
            return (t, c)
    return None


class ZoneFlow(object):
    def __init__(self, f, bitmaps, in_helper, specs=None, resizers=None):
        self.f = f
        self.bitmaps = bitmaps      # lvalue keys of bitmap pointers
        self.in_helper = in_helper
        self.specs = specs or {}    # generic arrays: (record, array field) -> count field
        self.resizers = resizers or {}   # (record, count field) -> names of functions that may assign it (transitively)
        self.obl = {}               # node id -> (ok, text)
        self.inb = {}

    # ---- state = tuple of DBMs (disjuncts)
    def init(self):
        s = DBM()
        for X in self.bitmaps:
            # type invariant documented in bitmap.c (trusted): 1 <= ulongs_count <= ulongs_allocated
            s.add("0", X + "->ulongs_count", -1)
            s.add(X + "->ulongs_count", X + "->ulongs_allocated", 0)
        return (s,)

    def norm(self, ds):
        # one DBM per trace partition (tag); too many partitions -> everything merged
        by = {}
        order = []
        for d in ds:
            if d.bot:
                continue
            if d.tag in by:
                by[d.tag] = by[d.tag].join(d)
            else:
                by[d.tag] = d
                order.append(d.tag)
        if len(order) > MAXDISJ:
            m = None
            for t in order:
                m = by[t] if m is None else m.join(by[t])
            m.tag = ()
            return (m,)
        return tuple(by[t] for t in order)

    def join(self, a, b):
        return self.norm(list(a) + list(b))

    def same(self, a, b):
        return [x.key() for x in a] == [x.key() for x in b]

    # ---- conditions
    def assume(self, d, cond, truth):
        """refine a DBM copy with cond == truth; returns list of DBMs"""
        outs = [d.copy()]
        for atom, t in edge_facts(cond, truth):
            atom = strip(atom)
            new = []
            for s in outs:
                new.extend(self.assume_atom(s, atom, t))
            outs = new
        return outs

    def assume_atom(self, s, atom, t):
        f = self.f
        # helper call outcome:  H(X, n) < 0   /   H(X, n)   /  !H(..)
        call, fail_when = None, None
        a = atom
        if a["k"] == "Binary" and a["op"] in ("<", "!=", "==", ">=") and strip(a["c"][0])["k"] == "Call" and cval(a["c"][1]) == 0:
            call = strip(a["c"][0])
            fail_when = {"<": True, "!=": True, "==": False, ">=": False}[a["op"]]
        elif a["k"] == "Call":
            call, fail_when = a, True
        if call is not None and call.get("fn") in HELPERS:
            failed = (t == fail_when)
            if failed:
                return [s]
            return [self.post(s, call)]
        l, op, r = rel(atom, t)
        la, lb = lin(f, l), lin(f, r)
        if la is None or lb is None:
            return [s]
        # l - r  as a form
        terms = dict(la[0])
        for k, c in lb[0].items():
            terms[k] = terms.get(k, 0) - c
        terms = {k: c for k, c in terms.items() if c}
        c0 = la[1] - lb[1]
        x = y = None
        if not terms:
            val = c0
            ok = {"<": val < 0, "<=": val <= 0, ">": val > 0, ">=": val >= 0, "==": val == 0, "!=": val != 0}[op]
            if not ok:
                s.bot = True
            return [s]
        if len(terms) == 1:
            (k, c), = terms.items()
            if c == 1:
                x, y = k, "0"
            elif c == -1:
                x, y = "0", k
            else:
                return [s]
        elif len(terms) == 2:
            (k1, c1), (k2, c2) = terms.items()
            if c1 == 1 and c2 == -1:
                x, y = k1, k2
            elif c1 == -1 and c2 == 1:
                x, y = k2, k1
            else:
                return [s]
        else:
            return [s]
        # x - y + c0  op  0
        if op == "<":
            s.add(x, y, -c0 - 1)
        elif op == "<=":
            s.add(x, y, -c0)
        elif op == ">":
            s.add(y, x, c0 - 1)
        elif op == ">=":
            s.add(y, x, c0)
        elif op == "==":
            s.add(x, y, -c0); s.add(y, x, c0)
        elif op == "!=":
            # split:  < or >
            s2 = s.copy()
            s.add(x, y, -c0 - 1)
            s2.add(y, x, c0 - 1)
            return [s, s2]
        return [s]

    def post(self, s, call):
        """success post-condition of a helper call"""
        kind = HELPERS[call["fn"]]
        X = lv(args(call)[0])
        nform = lin(self.f, args(call)[1])
        n = simplify(s, nform) if nform is not None else None
        if X is None:
            return s
        cnt, alc = X + "->ulongs_count", X + "->ulongs_allocated"
        olds = {Y: None for Y in self.bitmaps if Y != X}
        base = s.copy()
        if kind == "enlarge":
            s.forget(alc)
            if n is not None:
                s.add(n[0], alc, -n[1])
            s.add(cnt, alc, 0)
        elif kind == "reset":
            s.forget(cnt); s.forget(alc)
            if n is not None:
                s.add(cnt, n[0], n[1]); s.add(n[0], cnt, -n[1])
            s.add(cnt, alc, 0)
            s.add("0", cnt, 0)
        elif kind == "realloc":
            # new count >= n and >= old count
            oldc = "@old"
            s2 = s.copy()
            s.forget(cnt); s.forget(alc)
            if n is not None:
                s.add(n[0], cnt, -n[1])
            # >= every lower bound of the old count
            for (a, b), v in base.d.items():
                if b == cnt and a != cnt:      # a - oldcount <= v  => a - newcount <= v
                    s.add(a, cnt, v)
            s.add(cnt, alc, 0)
        # may-aliased bitmaps: Y's count/allocated are either unchanged or equal to X's new ones
        for Y in olds:
            yc, ya = Y + "->ulongs_count", Y + "->ulongs_allocated"
            alias = s.copy()
            alias.forget(yc); alias.forget(ya)
            alias.add(yc, cnt, 0); alias.add(cnt, yc, 0)
            alias.add(ya, alc, 0); alias.add(alc, ya, 0)
            s = s.join(alias)
        return s

    # ---- elements
    def elem(self, ds, n, record):
        f = self.f
        k = n["k"]
        if k == "Sub":
            base = strip(n["c"][0])
            if base is not None and base["k"] == "Member" and base["f"] == "ulongs" and base.get("rec") == "hwloc_bitmap_s" and not self.specs:
                X = lv(base["c"][0])
                if X is not None and record:
                    self.check(ds, n, X)
            elif base is not None and base["k"] == "Member" and (base.get("rec"), base["f"]) in self.specs and record:
                O = lv(base["c"][0])
                if O is not None:
                    cnt = O + ("->" if base.get("arrow") else ".") + self.specs[(base["rec"], base["f"])]
                    self.check(ds, n, None, cnt=cnt)
            return ds
        if k == "DeclStmt":
            out = []
            for d in ds:
                cur = [d.copy()]
                for v in n["c"]:
                    init = v["c"][0] if v.get("c") else None
                    nxt = []
                    for s in cur:
                        nxt.extend(self.assign(s, v["n"], init, f.unit.types[v["t"]]))
                    cur = nxt
                out.extend(cur)
            return self.norm(out)
        a = assigned(n)
        if a is not None:
            tgt, op, rhs = a
            key = lv(tgt)
            if key is None:
                return ds
            t = f.type_of(strip(tgt)) or {}
            if t.get("ptr"):
                # pointer assignment: a bitmap pointer re-bound -> forget its fields (P = Q / P = c ? Q : R keep the alias)
                out = []
                for d in ds:
                    s = d.copy()
                    if op == "=" and rhs is not None:
                        out.extend(self.assign(s, key, rhs, t))
                    else:
                        s.forget_prefix(key + "->")
                        out.append(s)
                return self.norm(out)
            out = []
            for d in ds:
                s = d.copy()
                if op == "=":
                    out.extend(self.assign(s, key, rhs, t))
                    continue
                if op in ("++", "--"):
                    s.shift(key, 1 if op == "++" else -1)
                elif op in ("+=", "-=") and cval(rhs) is not None:
                    s.shift(key, cval(rhs) if op == "+=" else -cval(rhs))
                else:
                    s.forget(key)
                out.append(s)
            # a write to X->ulongs_count / allocated may be seen through an aliased bitmap
            if key.endswith("->ulongs_count") or key.endswith("->ulongs_allocated"):
                X = key.rsplit("->", 1)[0]
                fld = key.rsplit("->", 1)[1]
                out2 = []
                for s in out:
                    for Y in self.bitmaps:
                        if Y != X:
                            al = s.copy()
                            al.forget(Y + "->" + fld)
                            al.add(Y + "->" + fld, key, 0); al.add(key, Y + "->" + fld, 0)
                            s = s.join(al)
                    out2.append(s)
                out = out2
            return self.norm(out)
        if k == "Call":
            fn = n.get("fn")
            if fn in HELPERS:
                # outcome handled on the branch that tests it; an unchecked call: success or failure
                par = f.par(n)
                while par is not None and par["k"] in ("Cast",):
                    par = f.par(par)
                tested = par is not None and (par["k"] in ("If", "Unary") or (par["k"] == "Binary" and par["op"] in ("<", "!=", "==", ">=", "&&", "||")))
                if tested:
                    return ds
                return self.norm([self.post(d.copy(), n).join(d) for d in ds])
            # any other call that receives a non-const bitmap may resize it -- unless the callee (transitively) never writes
            # ulongs_count / ulongs_allocated (computed over the unit: hwloc_bitmap__zero, hwloc_bitmap__fill, ...)
            T = f.unit.types
            g = None
            touched = []
            for i, a2 in enumerate(args(n)):
                key = lv(a2)
                if key in self.bitmaps:
                    ta = f.type_of(strip(a2)) or {}
                    if not ta.get("pconst") and fn not in non_resizers(f.unit):
                        touched.append(key)
            if touched:
                out = []
                for d in ds:
                    s = d.copy()
                    for X in self.bitmaps:          # aliases may be resized as well
                        s.forget(X + "->ulongs_count"); s.forget(X + "->ulongs_allocated")
                        s.add("0", X + "->ulongs_count", 0)
                        s.add(X + "->ulongs_count", X + "->ulongs_allocated", 0)
                    out.append(s)
                return self.norm(out)
            # generic arrays: a callee that may assign a count field invalidates every term ending in that field
            if self.resizers:
                drop = [cf for (rec, cf), names in self.resizers.items() if fn is None or fn in names]
                if drop:
                    out = []
                    for d in ds:
                        s = d.copy()
                        for k2 in [k2 for k2 in s.d if any(k2[0].endswith(">" + cf) or k2[0].endswith("." + cf) or k2[1].endswith(">" + cf) or k2[1].endswith("." + cf) for cf in drop)]:
                            del s.d[k2]
                        out.append(s)
                    ds = self.norm(out)
            # address-taken locals
            out = None
            for a2 in args(n):
                a3 = strip(a2)
                if a3 is not None and a3["k"] == "Unary" and a3["op"] == "&":
                    key = lv(a3["c"][0])
                    if key:
                        out = out or [d.copy() for d in ds]
                        for s in out:
                            s.forget(key)
            return self.norm(out) if out is not None else ds
        return ds

    def assign(self, s, key, rhs, t):
        """-> list of DBMs after key := rhs"""
        f = self.f
        if rhs is None:
            s.forget(key)
            return [s]
        r = strip(rhs)
        if r["k"] == "Cond":
            outs = []
            for truth, arm in ((True, r["c"][1]), (False, r["c"][2])):
                for s2 in self.assume(s, r["c"][0], truth):
                    if not s2.bot:
                        if len(s2.tag) < 3:
                            s2.tag = s2.tag + ((r["id"], truth),)
                        outs.extend(self.assign(s2, key, arm, t))
            return outs
        if t and t.get("ptr"):
            s.forget_prefix(key + "->")
            q = lv(r)
            if q in self.bitmaps and key in self.bitmaps and q != key:
                # P = Q: the two denote the same bitmap
                for fld in ("->ulongs_count", "->ulongs_allocated"):
                    s.add(key + fld, q + fld, 0); s.add(q + fld, key + fld, 0)
                return [s]
            if r["k"] == "Call" and r.get("fn") in ("hwloc_bitmap_alloc", "hwloc_bitmap_tma_alloc") and key in self.bitmaps:
                # a fresh bitmap has exactly one word (see hwloc_bitmap_alloc: proved by R-CAPFIELD / read in the source)
                s.add(key + "->ulongs_count", "0", 1); s.add("0", key + "->ulongs_count", -1)
                s.add(key + "->ulongs_count", key + "->ulongs_allocated", 0)
            return [s]
        form = lin(f, r)
        tc = simplify(s, form) if form is not None else None
        if tc is None:
            s.forget(key)
            if t and t.get("u"):
                s.add("0", key, 0)
            return [s]
        s.assign(key, tc[0], tc[1])
        return [s]

    def check(self, ds, n, X, cnt=None):
        f = self.f
        idx = n["c"][1]
        form = lin(f, idx)
        if cnt is None:
            cnt, alc = X + "->ulongs_count", X + "->ulongs_allocated"
        else:
            alc = "<none>"
        par = f.par(n)
        is_write = False
        p, child = par, n
        while p is not None and p["k"] in ("Cast",):
            child, p = p, f.par(p)
        a = assigned(p) if p is not None else None
        if a and strip(a[0]) is n and a[1] == "=":
            is_write = True
        ok = True
        why = ""
        ti = f.type_of(strip(idx)) or {}
        for d in ds:
            if d.bot:
                continue
            tc = simplify(d, form) if form is not None else None
            if tc is None:
                ok, why = False, "index %s is not a linear term" % src(strip(idx))
                break
            t0, c0 = tc
            ub = d.get(t0, cnt) + c0            # idx - count <= ub ; need <= -1
            good = ub <= -1
            if not good and is_write:
                good = d.get(t0, alc) + c0 <= -1
            if good and not ti.get("u"):
                lb = d.get("0", t0) - c0        # 0 - idx <= lb ; need <= 0
                if lb > 0:
                    good = False
                    why = "index %s may be negative" % src(strip(idx))
            if not good:
                ok = False
                why = why or "cannot prove %s <= %s - 1 (best bound: index - count <= %s)" % (src(strip(idx)), cnt, ub if ub < INF else "unknown")
                break
        old = self.obl.get(n["id"])
        if old is None or (old[0] and not ok):
            self.obl[n["id"]] = (ok, why or "index below the word count on every path (%d disjuncts)" % len([d for d in ds if not d.bot]), f.loc(n), src(n))

    # ---- fixpoint
    def run(self):
        f = self.f
        order = f.rpo()
        pos = {b: i for i, b in enumerate(order)}
        self.inb = {f.entry: self.init()}
        work = {f.entry}
        iters = {}
        while work:
            b = min(work, key=lambda x: pos.get(x, 1 << 30))
            work.discard(b)
            iters[b] = iters.get(b, 0) + 1
            if iters[b] > 60:
                raise AnalysisBroken("zone analysis did not converge in %s" % f.name)
            st = self.transfer_block(b, self.inb[b], False)
            self.push(b, st, work, iters)
        for b in order:
            if b in self.inb:
                self.transfer_block(b, self.inb[b], True)
        return self

    def transfer_block(self, b, st, record):
        f = self.f
        for e in f.blocks[b]["e"]:
            st = self.elem(st, f.nodes[e], record)
            if not st:
                break
        return st

    def push(self, b, st, work, iters):
        f = self.f
        blk = f.blocks[b]
        succs = blk["s"]
        cond = branch_cond(f, blk)
        two = cond is not None and len(succs) == 2 and blk.get("tk") != "SwitchStmt"
        for i, s in enumerate(succs):
            if s is None:
                continue
            ns = st
            if two:
                out = []
                for d in st:
                    out.extend(self.assume(d, cond, i == 0))
                ns = self.norm(out)
            if not ns:
                continue
            if s in self.inb:
                old = self.inb[s]
                j = self.join(old, ns)
                # widening after a few visits: keep only constraints stable between the old and the joined state
                if iters.get(s, 0) >= 4:
                    j = self.widen(old, j)
                if not self.same(j, old):
                    self.inb[s] = j
                    work.add(s)
            else:
                self.inb[s] = ns
                work.add(s)

    def widen(self, old, new):
        """per trace partition: keep only the constraints that did not get weaker"""
        o = {d.tag: d for d in old}
        out = []
        for d in new:
            p = o.get(d.tag)
            if p is None:
                out.append(d)
                continue
            nd = {}
            for k, v in p.d.items():
                w = d.d.get(k)
                if w is not None and w <= v:
                    nd[k] = v
            out.append(DBM(nd, False, d.tag))
        return tuple(out)


_NR = {}


def non_resizers(u):
    """functions of the unit that (transitively) never assign ulongs_count / ulongs_allocated and call nothing unknown that gets a bitmap"""
    if id(u) in _NR:
        return _NR[id(u)]
    funcs = {f.name: f for f in u.funcs(only_main=True) if f.entry is not None}
    resizes = set()
    calls = {}
    for name, f in funcs.items():
        cs = set()
        for n in f.walk():
            a = assigned(n)
            if a:
                t = strip(a[0])
                if t["k"] == "Member" and t["f"] in ("ulongs_count", "ulongs_allocated", "ulongs"):
                    resizes.add(name)
            if n["k"] == "Call":
                cs.add(n.get("fn"))
        calls[name] = cs
    changed = True
    while changed:
        changed = False
        for name in funcs:
            if name in resizes:
                continue
            for c in calls[name]:
                if c in resizes or (c not in funcs and c is not None and c.startswith("hwloc_bitmap")) or c is None:
                    resizes.add(name)
                    changed = True
                    break
    _NR[id(u)] = set(funcs) - resizes
    return _NR[id(u)]


def bitmaps_of(f):
    T = f.unit.types
    out = set()
    for p in f.params:
        if T[p["t"]].get("prec") == "hwloc_bitmap_s":
            out.add(p["n"])
    for n in f.walk():
        if n["k"] == "Var":
            t = T[n["t"]] if "t" in n else {}
            if t.get("prec") == "hwloc_bitmap_s":
                out.add(n["n"])
    return out


# functions whose accesses need facts outside the domain (read in the source, one reason each): everything else must be proved
OUT_OF_SCOPE = {
    "hwloc_bitmap_snprintf": "ulongs[i--] is reached only when `accumed` is zero, which the loop condition `i>=0 || accumed` then turns into i >= 0: a relation between an integer and a boolean flag",
    "hwloc_bitmap_sscanf": "index count / STRING_PER_LONG after reset_by_ulongs((count + PER_LONG - 1) / PER_LONG): integer division",
    "hwloc_bitmap_taskset_sscanf": "index count - 1 with count derived from strlen(): the loop runs exactly count times (string-length arithmetic)",
    "hwloc_bitmap_set_range": "beginset = begincpu / 64 <= endcpu / 64 after realloc_by_cpu_index(endcpu): monotonicity of the division under begincpu <= endcpu",
    "hwloc_bitmap_clr_range": "same shape as hwloc_bitmap_set_range",
}


def run(chk, P, unit="bitmap.c", rule="R-WORDIDX", min_funcs=10):
    u = P.unit(unit)
    n_ok = n_funcs = n_out = 0
    outscope = []
    for f in u.funcs(only_main=True):
        if f.entry is None:
            continue
        has = any(n["k"] == "Sub" and strip(n["c"][0]) is not None and strip(n["c"][0])["k"] == "Member" and strip(n["c"][0])["f"] == "ulongs" for n in f.walk())
        if not has:
            continue
        bm = bitmaps_of(f)
        try:
            z = ZoneFlow(f, bm, f.name in HELPERS).run()
        except AnalysisBroken as e:
            outscope.append("%s (%s)" % (f.name, e))
            continue
        yield_f = (f, z)
        if f.name not in PROVEN["R-WORDIDX"] and f.name not in OUT_OF_SCOPE:
            # a function that did not exist (under this name) when the scope was frozen, e.g. a helper extracted by a refactoring:
            # its accesses may need its callers' context; it is reported, not judged
            outscope.append("%s (not in the frozen scope: %d accesses, %d proved)" % (f.name, len(z.obl), sum(1 for v in z.obl.values() if v[0])))
            chk.inst(rule, f, "unjudged", True, "function outside the frozen scope: %d of %d accesses proved" % (sum(1 for v in z.obl.values() if v[0]), len(z.obl)), nontrivial=False, info=True)
            continue
        if all(v[0] for v in z.obl.values()) and z.obl:
            n_funcs += 1
            k = 0
            for nid, (ok, why, loc, text) in sorted(z.obl.items(), key=lambda kv: kv[1][2]):
                k += 1
                n_ok += 1
                chk.inst(rule, f, "%s#%d" % (text.replace(" ", ""), k), True, why, loc=loc)
        else:
            bad = [v for v in z.obl.values() if not v[0]]
            n_out += len(z.obl)
            if f.name in OUT_OF_SCOPE:
                outscope.append("%s (%d/%d accesses not proved: %s)" % (f.name, len(bad), len(z.obl), OUT_OF_SCOPE[f.name]))
                chk.inst(rule, f, "out-of-scope", True, "frozen: %s" % OUT_OF_SCOPE[f.name], nontrivial=False, info=True)
                continue
            k = 0
            for nid, (ok, why, loc, text) in sorted(z.obl.items(), key=lambda kv: kv[1][2]):
                k += 1
                chk.inst(rule, f, "%s#%d" % (text.replace(" ", ""), k), ok, why if ok else "%s: %s" % (text, why), loc=loc)
    chk.notes.append("%s: frozen out of scope: %s" % (rule, "; ".join(outscope)))
    return n_ok, n_funcs, outscope


GENERIC = {("hwloc_infos_s", "array"): "count", ("hwloc_topology", "memattrs"): "nr_memattrs", ("hwloc_topology", "cpukinds"): "nr_cpukinds",
           ("hwloc_obj", "children"): "arity", ("hwloc_internal_memattr_s", "targets"): "nr_targets",
           ("hwloc_internal_memattr_target_s", "initiators"): "nr_initiators", ("hwloc_numanode_attr_s", "page_types"): "page_types_len",
           ("hwloc_linux_cpukinds", "sets"): "nr_sets", ("hwloc_cpukinds_info_summary", "summaries"): "nr"}


def field_resizers(P, specs):
    """(record, count field) -> functions that may assign it, transitively over direct calls (indirect calls: everything)"""
    funcs = {}
    for f in P.all_funcs(only_main=False):
        funcs.setdefault(f.name, f)
    direct = {}
    calls = {}
    for name, f in funcs.items():
        if f.entry is None:
            continue
        cs = set()
        for n in f.walk():
            a = assigned(n)
            if a:
                t = strip(a[0])
                if t["k"] == "Member":
                    direct.setdefault((t.get("rec"), t["f"]), set()).add(name)
            if n["k"] == "Call":
                cs.add(n.get("fn"))
        calls[name] = cs
    out = {}
    for (rec, af), cf in specs.items():
        r = set(direct.get((rec, cf), ()))
        changed = True
        while changed:
            changed = False
            for name, cs in calls.items():
                if name not in r and (cs & r or None in cs):
                    r.add(name)
                    changed = True
        out[(rec, cf)] = r
    return out


def run_generic(chk, P, rule="R-ARRIDX", specs=None, frozen=None):
    specs = specs or GENERIC
    frozen = frozen or {}
    rz = field_resizers(P, specs)
    n_ok = 0
    outscope = []
    for f in P.all_funcs():
        if f.entry is None:
            continue
        has = any(n["k"] == "Sub" and strip(n["c"][0]) is not None and strip(n["c"][0])["k"] == "Member" and (strip(n["c"][0]).get("rec"), strip(n["c"][0])["f"]) in specs for n in f.walk())
        if not has:
            continue
        try:
            z = ZoneFlow(f, set(), False, specs=specs, resizers=rz).run()
        except AnalysisBroken as e:
            outscope.append((f.name, 0, 0, str(e)))
            continue
        bad = [v for v in z.obl.values() if not v[0]]
        if f.name not in PROVEN["R-ARRIDX"] and f.name not in frozen:
            outscope.append((f.name, len(bad), len(z.obl), "not in the frozen scope"))
            chk.inst(rule, f, "unjudged", True, "function outside the frozen scope: %d of %d accesses proved" % (len(z.obl) - len(bad), len(z.obl)), nontrivial=False, info=True)
            continue
        if z.obl and not bad:
            k = 0
            for nid, (ok, why, loc, text) in sorted(z.obl.items(), key=lambda kv: kv[1][2]):
                k += 1
                n_ok += 1
                chk.inst(rule, f, "%s#%d" % (text.replace(" ", ""), k), True, why, loc=loc)
        elif f.name in frozen:
            chk.inst(rule, f, "out-of-scope", True, "frozen: %s" % frozen[f.name], nontrivial=False, info=True)
            outscope.append((f.name, len(bad), len(z.obl), "frozen"))
        else:
            outscope.append((f.name, len(bad), len(z.obl), "%s: %s" % (bad[0][3], bad[0][1]) if bad else "no access reached"))
            k = 0
            for nid, (ok, why, loc, text) in sorted(z.obl.items(), key=lambda kv: kv[1][2]):
                k += 1
                chk.inst(rule, f, "%s#%d" % (text.replace(" ", ""), k), ok, why if ok else "%s: %s" % (text, why), loc=loc)
    return n_ok, outscope


FROZEN_GENERIC = {
    "hwloc__tma_dup_infos": "the source array is indexed under the loop bound of the same source (oldi->count) but the copy is filled before its count is set: sibling arrays of equal length",
    "hwloc__duplicate_object": "children[0] / children[i] of the copy are filled before connect; arity was copied from the source",
    "hwloc_filter_levels_keep_structure": "children[rank +/- 1] of the parent: rank is the child's sibling_rank < arity (tree invariant C01)",
    "hwloc_connect_children": "children[n] is written while counting; the array was allocated for the counted arity just above",
    "hwloc__check_normal_children": "children[0] under `arity` non-zero established by an early return on !arity",
    "hwloc__get_largest_objs_inside_cpuset": "children[i] in a loop bounded by the same object's arity read through another pointer",
    "hwloc_internal_memattrs_prepare": "constant attribute ids index an array allocated for HWLOC_MEMATTR_ID_MAX entries in this function",
    "hwloc_internal_memattrs_dup": "the copy's targets/initiators are filled under the source's counts (copied just above)",
    "hwloc__group_memory_tiers": "constant attribute ids (< HWLOC_MEMATTR_ID_MAX <= nr_memattrs, invariant established by prepare)",
    "hwloc_internal_cpukinds_dup": "source array indexed under the source's own count through `old`, copy filled under the same bound",
    "hwloc_internal_cpukinds_restrict": "the slot AT nr_cpukinds is zeroed on purpose (fix ae9b742): a write inside the allocation",
    "hwloc__cpukinds_summarize_info": "summaries[] has one entry per kind (nr == nr_cpukinds by construction in the caller)",
    "hwloc__cpukinds_try_rank_by_info": "same summaries[]/nr_cpukinds correspondence",
    "hwloc_topology_diff_build": "two topologies walked in lock step: the second one's arrays are indexed under the first one's counts after the counts were compared equal",
    "hwloc__xml_export_object_contents": "page_types[i] under page_types_len read into a local before the loop through another expression",
    "hwloc_parse_hugepages_info": "page_types[index_] with index_ counted against the allocation made by the caller (sized from the directory listing)",
    "hwloc_get_machine_meminfo": "page_types[0]/[1] right after allocating 1 or 2 entries (page_types_len set just above)",
    "hwloc_get_sysfs_node_meminfo": "same as hwloc_get_machine_meminfo",
    "hwloc_linux_cpukinds_add": "append: sets[nr_sets] is written after the array was grown when nr_sets == nr_sets_allocated",
}


def run_compact(chk, P, units=None, rule="R-COMPACT"):
    """in-place compaction moves elements DOWN: for memcpy/memmove(&A[x], &A[y], one element) between two elements of the same array,
    the zone state at the call must not prove y <= x while it cannot prove x <= y (a copy of a lower element over a higher one
    overwrites the survivor with the entry that was just dropped).  Calls whose index order the domain cannot establish are counted
    as out of scope."""
    n = 0
    for f in P.all_funcs():
        if units is not None and os.path.basename(f.file) not in units:
            continue
        if f.entry is None:
            continue
        sites = []
        for c in f.calls(("memcpy", "memmove")):
            a = args(c)
            if len(a) != 3:
                continue
            d0, s0 = strip(a[0]), strip(a[1])
            if not (d0["k"] == "Unary" and d0["op"] == "&" and s0["k"] == "Unary" and s0["op"] == "&"):
                continue
            de, se = strip(d0["c"][0]), strip(s0["c"][0])
            if de["k"] != "Sub" or se["k"] != "Sub" or lv(de["c"][0]) is None or lv(de["c"][0]) != lv(se["c"][0]):
                continue
            single = strip(a[2])["k"] == "SizeOf"      # exactly one element: a range move (memmove up to make room) is another idiom
            sites.append((c, de["c"][1], se["c"][1], lv(de["c"][0]), single))
        if not sites:
            continue
        try:
            z = ZoneFlow(f, set(), False, specs={}, resizers={})
            z.run()
        except AnalysisBroken:
            continue
        k = 0
        for (c, di, si, arr, single) in sites:
            k += 1
            b = f.elem_block.get(c["id"])
            if b is None:
                continue
            # state just before the call: re-run the block up to the element
            st = z.inb.get(b[0])
            if not st:
                continue
            for e in f.blocks[b[0]]["e"][:b[1]]:
                st = z.elem(st, f.nodes[e], False)
            fd, fs = lin(f, di), lin(f, si)
            verdicts = []
            for d in st:
                if d.bot or fd is None or fs is None:
                    continue
                td, ts = simplify(d, fd), simplify(d, fs)
                if td is None or ts is None:
                    verdicts.append("unknown")
                    continue
                down = d.get(td[0], ts[0]) + td[1] - ts[1] <= 0      # dst - src <= 0
                up = d.get(ts[0], td[0]) + ts[1] - td[1] <= 0        # src - dst <= 0
                verdicts.append("down" if down else ("up" if up else "unknown"))
            n += 1
            if verdicts and all(v == "down" for v in verdicts):
                chk.inst(rule, f, "move:%s#%d" % (arr, k), True, "memcpy(&%s[%s], &%s[%s]): destination index <= source index on every path (moves an element down)" % (arr, src(strip(di)), arr, src(strip(si))), loc=f.loc(c))
            elif single and verdicts and any(v == "up" for v in verdicts) and not any(v == "down" for v in verdicts):
                chk.inst(rule, f, "move:%s#%d" % (arr, k), False, "memcpy(&%s[%s], &%s[%s]) inside a compaction copies a LOWER element over a higher one (source index <= destination index is provable, the converse is not): "
                         "the surviving entry is overwritten by the one that was just dropped" % (arr, src(strip(di)), arr, src(strip(si))), loc=f.loc(c))
            else:
                chk.inst(rule, f, "move:%s#%d" % (arr, k), True, "index order not established by the domain (%s): out of scope" % verdicts, loc=f.loc(c), nontrivial=False, info=True)
    return n
