"""Guard-dominates-use instances (must-fact dataflow)."""
from prog import *
import must


def scan_bound(chk, P, fname, unit, rule="R-SCANBOUND"):
    """In a scanner: q = strchr(S, c1) and E = strchr(S, c2) from the same start S, where E delimits the current
    item: every use of q (dereference, arithmetic handed to a parser) must be dominated by q != NULL and q < E."""
    f = P.need_func(fname, unit)
    found = {}   # var -> (start text, char)
    for n in f.walk():
        tgt = rhs = None
        a = assigned(n)
        if a and a[1] == "=" and a[2] is not None:
            tgt, rhs = lv(a[0]), strip(a[2])
        elif n["k"] == "Var" and n.get("c") and n["c"][0] is not None:
            tgt, rhs = n["n"], strip(n["c"][0])
        if tgt and rhs is not None and rhs["k"] == "Call" and rhs.get("fn") == "strchr":
            found.setdefault(tgt, []).append((src(strip(args(rhs)[0])), cval(args(rhs)[1]), n))
    m = must.Must(f).run()
    n_inst = 0
    for q, lst in found.items():
        for (start, ch, node) in lst:
            if ch != ord("("):
                continue
            # the delimiter searched from the same start
            ends = [e for e, l2 in found.items() for (s2, c2, n2) in l2 if s2 == start and c2 in (ord("]"), ord(")")) and e != q]
            if not ends:
                continue
            # uses of q: as call argument (q or q+1) or dereference
            for c in f.calls():
                if c.get("fn") in ("strchr",):
                    continue
                for a in args(c):
                    a2 = strip(a)
                    base = a2
                    if a2 is not None and a2["k"] == "Binary" and a2["op"] in ("+", "-"):
                        base = strip(a2["c"][0])
                    if base is not None and lv(base) == q:
                        st = m.before.get(c["id"])
                        if st is None:
                            continue
                        n_inst += 1
                        ok = must.nonnull(st, q) and any(must.has(st, "R", "%s < %s" % (q, e)) for e in ends)
                        chk.inst(rule, f, "%s-before-%s@%s" % (q, ends[0], c.get("fn")), ok,
                                 "use of %s (found by strchr from %s) in %s(...) must be dominated by %s != NULL and %s < %s (the end of the current item)" % (q, start, c.get("fn"), q, q, ends[0]), loc=f.loc(c))
    return n_inst


def free_then_reset(chk, P, fname, unit, free_funcs, rule="R-FREERESET", min_inst=1):
    """every call F(x->field) of a releasing function on a *field of a surviving object* is followed, on every path to
    the function exit, by `x->field = NULL` for the SAME field (a stale head would be walked and freed again)."""
    import paths
    f = P.need_func(fname, unit)
    n = 0
    for c in f.calls(free_funcs):
        a0 = strip(args(c)[0]) if args(c) else None
        if a0 is None or a0["k"] != "Member":
            continue
        key = lv(a0)
        if key is None or c["id"] not in f.elem_block:
            continue
        n += 1
        b0, i0 = f.elem_block[c["id"]]
        # blocks that reset the same lvalue
        reset = set()
        same_block_after = False
        for b, blk in f.blocks.items():
            for j, e in enumerate(blk["e"]):
                x = f.nodes[e]
                a = assigned(x)
                if a and a[1] == "=" and lv(a[0]) == key and a[2] is not None and cval(strip(a[2])) == 0:
                    if b == b0 and j > i0:
                        same_block_after = True
                    elif b != b0:
                        reset.add(b)
        ok = same_block_after
        w = None
        if not ok:
            w = paths.reach(f, b0, lambda b: b == f.exit, avoid=reset)
            ok = w is None
        chk.inst(rule, f, "reset:%s" % key, ok,
                 "%s(%s) must be followed on every path by `%s = NULL`%s" % (c.get("fn"), key, key, "" if ok else " -- the exit is reachable without it"), loc=f.loc(c))
    if n < min_inst:
        chk.broke("%s: only %d release-of-field sites in %s (expected >= %d)" % (rule, n, fname, min_inst))
    return n


def dominated(chk, P, fname, unit, targets, fact, rule, what, min_inst=1, track_calls=None, canon=None):
    """every node selected by targets(f) is reached only after `fact(state)` holds (must-fact dataflow)"""
    f = P.need_func(fname, unit)
    m = must.Must(f, track_calls=track_calls, canon=canon).run()
    n = 0
    for x, label in targets(f):
        st = m.before.get(x["id"])
        if st is None:
            continue
        n += 1
        ok = fact(st)
        chk.inst(rule, f, "%s#%d" % (label, n), ok, what + (" (facts: %s)" % must.facts_text(st)[:6] if not ok else ""), loc=f.loc(x))
    if n < min_inst:
        chk.broke("%s: only %d target sites in %s (expected >= %d)" % (rule, n, fname, min_inst))
    return n


def unreachable_under(chk, P, fname, unit, envs, callee, rule, construct, detail, split=None, only=None):
    """no call of `callee` is reachable from function fname -- in fname itself or in a helper it calls -- under any of the
    seeded environments (seeded constant propagation over the CFG; only the seeded keys are tracked, every other test is
    explored both ways; seeded object fields travel into helpers); `only(call)` restricts the direct calls that count"""
    import peval
    f = P.need_func(fname, unit)
    # targets: calls of `callee` in fname, or of a helper of the same unit (not fname itself: recursion on other objects) that
    # reaches `callee`; such a helper is what a refactoring extracts the removal code into
    def reaches(h, seen):
        for c in h.calls():
            if c.get("fn") == callee:
                return True
            g2 = P.func(c.get("fn")) if c.get("fn") else None
            if g2 is not None and g2.entry is not None and g2.name not in seen and g2.name != f.name and g2.unit is f.unit:
                seen.add(g2.name)
                if reaches(g2, seen):
                    return True
        return False
    tnames = {callee}
    for c in f.calls():
        g2 = P.func(c.get("fn")) if c.get("fn") else None
        if g2 is not None and g2.entry is not None and g2.name != f.name and g2.unit is f.unit and reaches(g2, {g2.name}):
            tnames.add(g2.name)
    targets = set(c["id"] for c in f.calls(tuple(tnames)) if only is None or c.get("fn") != callee or only(c))
    if not chk.need(bool(targets), "%s: %s no longer reaches a call of %s" % (rule, fname, callee)):
        return 0
    hit = []
    def obs(n, env):
        if n["id"] in targets:
            hit.append((n, dict(env)))
    envs = list(envs)
    track = set(k for e in envs for k in e)
    try:
        peval.PathEval(P, f, envs[0], is_effect=lambda *a: False, through_effects=True, observe=obs, starts=envs[1:], track=track, split=split, maxstates=100000).run()
    except AnalysisBroken as e:
        chk.broke("%s: %s not evaluable (%s)" % (rule, fname, e))
        return 0
    ok = not hit
    why = detail
    if hit:
        n, env = hit[0]
        why += " -- but %s() at line %s is reachable with %s" % (n.get("fn"), n.get("l"), {k: v for k, v in env.items() if k in track})
    chk.inst(rule, f, construct, ok, why)
    return 1


def functions_calling(P, unit, callee, member_arg=True):
    """functions of the unit that call `callee` with a struct member as first argument"""
    out = []
    for f in P.unit(unit).funcs(only_main=True):
        if f.entry is None:
            continue
        for c in f.calls(callee):
            a0 = strip(args(c)[0]) if args(c) else None
            if not member_arg or (a0 is not None and a0["k"] == "Member"):
                out.append(f)
                break
    return out


class _PendingFlow(Flow):
    def __init__(self, f, acq, rel):
        Flow.__init__(self, f)
        self.acq, self.rel = acq, rel
        self.at_return = {}

    def init(self):
        return False

    def join(self, a, b):
        return a or b

    def elem(self, st, n):
        if self.rel(n):
            return False
        if self.acq(n):
            return True
        if n["k"] == "Return" and self.recording:
            self.at_return[n["id"]] = st
        return st


def bit_op(n, field, bit, setting):
    """is node n `X->field |= bit` (setting) / `X->field &= ~bit` (clearing)?  bit: integer value"""
    a = assigned(n)
    if not a or a[2] is None:
        return False
    t = strip(a[0])
    if t["k"] != "Member" or t["f"] != field:
        return False
    v = cval(strip(a[2]))
    if v is None:
        return False
    if setting:
        return a[1] == "|=" and (v & bit) != 0
    return a[1] == "&=" and (v & bit) == 0 and (~v & bit) != 0


def released_on_all_exits(chk, P, fname, unit, acq, rel, rule, construct, detail):
    """pairing: once acq(node) has happened, every return of the function is preceded by rel(node) (may-dataflow)"""
    f = P.need_func(fname, unit)
    if not chk.need(any(acq(n) for n in f.walk()), "%s: the acquire statement vanished from %s" % (rule, fname)):
        return 0
    fl = _PendingFlow(f, acq, rel)
    fl.run()
    n = 0
    for r in returns(f):
        if r["id"] not in fl.at_return:
            continue
        n += 1
        pend = fl.at_return[r["id"]]
        k = sum(1 for r2 in returns(f) if (r2.get("l", 0), r2["id"]) <= (r.get("l", 0), r["id"]))
        chk.inst(rule, f, "%s:return#%d" % (construct, k), not pend, detail + ("" if not pend else " -- this return is reachable with it still set"), loc=f.loc(r))
    return n
