"""Guard-dominates-use instances (must-fact dataflow)."""
from prog import *
import must


def scan_bound(chk, P, fname, unit, rule="R-SCANBOUND"):
    """In a scanner: q = strchr(S, c1) and E = strchr(S, c2) from the same start S, where E delimits the current
    item: every use of q (dereference, arithmetic handed to a parser) must be dominated by q != NULL and q < E."""
    f = P.need_func(fname, unit)
    found = {}   # var -> (start text, char)
    for n in f.walk():
        tgt = rhs = None
        a = assigned(n)
        if a and a[1] == "=" and a[2] is not None:
            tgt, rhs = lv(a[0]), strip(a[2])
        elif n["k"] == "Var" and n.get("c") and n["c"][0] is not None:
            tgt, rhs = n["n"], strip(n["c"][0])
        if tgt and rhs is not None and rhs["k"] == "Call" and rhs.get("fn") == "strchr":
            found.setdefault(tgt, []).append((src(strip(args(rhs)[0])), cval(args(rhs)[1]), n))
    m = must.Must(f).run()
    n_inst = 0
    for q, lst in found.items():
        for (start, ch, node) in lst:
            if ch != ord("("):
                continue
            # the delimiter searched from the same start
            ends = [e for e, l2 in found.items() for (s2, c2, n2) in l2 if s2 == start and c2 in (ord("]"), ord(")")) and e != q]
            if not ends:
                continue
            # uses of q: as call argument (q or q+1) or dereference
            for c in f.calls():
                if c.get("fn") in ("strchr",):
                    continue
                for a in args(c):
                    a2 = strip(a)
                    base = a2
                    if a2 is not None and a2["k"] == "Binary" and a2["op"] in ("+", "-"):
                        base = strip(a2["c"][0])
                    if base is not None and lv(base) == q:
                        st = m.before.get(c["id"])
                        if st is None:
                            continue
                        n_inst += 1
                        ok = must.nonnull(st, q) and any(must.has(st, "R", "%s < %s" % (q, e)) for e in ends)
                        chk.inst(rule, f, "%s-before-%s@%s" % (q, ends[0], c.get("fn")), ok,
                                 "use of %s (found by strchr from %s) in %s(...) must be dominated by %s != NULL and %s < %s (the end of the current item)" % (q, start, c.get("fn"), q, q, ends[0]), loc=f.loc(c))
    return n_inst
