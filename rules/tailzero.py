"""R-TAILZERO: zero-tail discipline of growable arrays.

Belief inferred from the code (Engler-style): a grower that, after realloc'ing an array field A of record S, zero-fills
exactly the newly allocated slots -- memset(&x[S->M], 0, <length computed from S->M>) with M the `allocated` field -- declares
the invariant "every slot of A beyond the count N is all-zero", and consumers use slots at index >= N without
initialising them (hwloc_internal_cpukinds_register appends infos into kinds[newnr].infos in place).
Obligation: every function that may LOWER the count N of such an array (N--, N -= e, N = e) while keeping the array
must zero the vacated slots: a zeroing memset on A reached on every path from the decrement to the exit, or done on every
path before it (outside loops).  Functions that replace/free the array (A = malloc/calloc/realloc/NULL, free(A)) or that
contain the grow idiom are exempt.
"""
from prog import *


def _member_of(n, recs=None):
    n = strip(n)
    if n is not None and n["k"] == "Member":
        return n
    return None


_PROG = [None]
_RETAL = {}


def _returned_fields(g):
    """(rec, field) array fields that function g may return a pointer to:  return S->A;  return x;  with x an alias of S->A
    (a grow step extracted into a helper hands the possibly moved array back to its caller)"""
    if g.name in _RETAL:
        return _RETAL[g.name]
    _RETAL[g.name] = set()
    if g.entry is None or not g.unit.types[g.d["ret"]].get("ptr"):
        return set()
    al = _aliases(g)
    out = set()
    for r in g.walk():
        if r["k"] == "Return" and r.get("c") and r["c"][0] is not None:
            e = strip(r["c"][0])
            m = _member_of(e)
            if m is not None:
                out.add((m.get("rec"), m["f"]))
            elif e is not None and e["k"] == "Ref":
                out |= set(al.get(e["n"], ()))
    _RETAL[g.name] = out
    return out


def _aliases(f):
    """local -> set of `S->A` member field names it was assigned from (x = S->A; x = realloc(S->A, ..); x = helper(S) where the
    helper returns S->A)"""
    out = {}
    for n in f.walk():
        tgt = rhs = None
        a = assigned(n)
        if a and a[1] == "=" and a[2] is not None:
            tgt, rhs = strip(a[0]), strip(a[2])
            tname = tgt["n"] if tgt["k"] == "Ref" else None
        elif n["k"] == "Var" and n.get("c") and n["c"][0] is not None:
            tname, rhs = n["n"], strip(n["c"][0])
        else:
            continue
        if tname is None or rhs is None:
            continue
        cands = [rhs]
        if rhs["k"] == "Call" and rhs.get("fn") == "realloc":
            cands = [strip(args(rhs)[0])]
        elif rhs["k"] == "Call" and rhs.get("fn") and _PROG[0] is not None:
            g = _PROG[0].func(rhs["fn"])
            if g is not None and g is not f and g.entry is not None:
                rf = _returned_fields(g)
                if rf:
                    out.setdefault(tname, set()).update(rf)
                    continue
        for c in cands:
            m = _member_of(c)
            if m is not None:
                out.setdefault(tname, set()).add((m.get("rec"), m["f"]))
            elif c is not None and c["k"] == "Ref" and c["n"] in out:
                out.setdefault(tname, set()).update(out[c["n"]])
            elif c is not None and c["k"] in ("Unary", "Binary"):
                # x = &S->A[i] / x = S->A + i / x = y + i : a pointer into the same array
                fs = _array_fields_of(c, out)
                if fs:
                    out.setdefault(tname, set()).update(fs)
    return out


def _array_fields_of(expr, al):
    """(rec, field) array fields an address expression points into: &x[i], x + i, S->A + i, &S->A[i]"""
    e = strip(expr)
    if e is None:
        return set()
    if e["k"] == "Unary" and e["op"] == "&":
        e = strip(e["c"][0])
        if e is not None and e["k"] == "Sub":
            e = strip(e["c"][0])
    elif e["k"] == "Binary" and e["op"] in ("+", "-"):
        e = strip(e["c"][0])
    if e is None:
        return set()
    m = _member_of(e)
    if m is not None:
        return {(m.get("rec"), m["f"])}
    if e["k"] == "Ref":
        return set(al.get(e["n"], ()))
    return set()


def discover(P):
    """grow idioms -> {(rec, A): {"M": allocated field, "grower": func name, "loc": ...}}"""
    out = {}
    for f in P.all_funcs():
        ms = list(f.calls("memset"))
        if not ms:
            continue
        al = None
        for c in ms:
            a = args(c)
            if len(a) != 3 or cval(a[1]) != 0:
                continue
            # offset expression of the destination and the length must both mention the same record field M
            dst = strip(a[0])
            off = None
            if dst["k"] == "Unary" and dst["op"] == "&" and strip(dst["c"][0])["k"] == "Sub":
                off = strip(dst["c"][0])["c"][1]
            elif dst["k"] == "Binary" and dst["op"] == "+":
                off = dst["c"][1]
            offm = _member_of(off) if off is not None else None
            if offm is None and off is not None and strip(off)["k"] == "Ref":
                import extent
                d0 = extent.single_defs(f).get(strip(off)["n"])
                offm = _member_of(d0) if d0 is not None else None      # unsigned allocated = S->M;
                if offm is not None:
                    offname = strip(off)["n"]
            if offm is None:
                continue
            lenfields = set((x.get("rec"), x["f"]) for x in subnodes(a[2]) if x["k"] == "Member")
            lenrefs = set(x["n"] for x in subnodes(a[2]) if x["k"] == "Ref")
            if (offm.get("rec"), offm["f"]) not in lenfields and not (strip(off)["k"] == "Ref" and strip(off)["n"] in lenrefs):
                continue
            if al is None:
                al = _aliases(f)
            for rf in _array_fields_of(a[0], al):
                out[rf] = {"M": offm["f"], "grower": f.name, "loc": f.loc(c), "rec": offm.get("rec")}
    return out


def count_field(P, rec, A, M):
    """the count field N of array A: the field of the same record most often used as the bound of loops indexing A"""
    votes = {}
    for f in P.all_funcs():
        al = None
        for n in f.walk():
            if n["k"] != "Sub":
                continue
            base = strip(n["c"][0])
            m = _member_of(base)
            hit = m is not None and m.get("rec") == rec and m["f"] == A
            if not hit and base is not None and base["k"] == "Ref":
                if al is None:
                    al = _aliases(f)
                hit = (rec, A) in al.get(base["n"], ())
            if not hit:
                continue
            idx = strip(n["c"][1])
            if idx is None or idx["k"] != "Ref":
                continue
            # comparisons `idx < S->N` anywhere in the function
            for c in f.walk():
                if c["k"] == "Binary" and c["op"] in ("<", "!=") and strip(c["c"][0]) is not None and strip(c["c"][0])["k"] == "Ref" and strip(c["c"][0])["n"] == idx["n"]:
                    r = _member_of(c["c"][1])
                    if r is not None and r.get("rec") == rec and r["f"] not in (A, M):
                        votes[r["f"]] = votes.get(r["f"], 0) + 1
    if not votes:
        return None
    return max(votes.items(), key=lambda kv: kv[1])[0]


def relies_on_zero(P, rec, A, N):
    """consumer-side evidence that the zero tail is relied upon: in some function an index v initialised from the count
    (v = S->N) selects a slot A[v] whose address is handed to a callee (or whose sub-object is used) although the function
    does not assign every field of the slot first.  -> (function, loc, unassigned fields) or None"""
    for f in P.all_funcs():
        al = _aliases(f)
        idx = set()
        for n in f.walk():
            a = assigned(n)
            tgt = rhs = None
            if a and a[1] == "=" and a[2] is not None:
                tgt, rhs = strip(a[0]), strip(a[2])
            elif n["k"] == "Var" and n.get("c") and n["c"][0] is not None:
                tgt, rhs = {"k": "Ref", "n": n["n"]}, strip(n["c"][0])
            if tgt is None or tgt["k"] != "Ref":
                continue
            # chained  newnr = oldnr = S->N
            while rhs is not None and rhs["k"] == "Binary" and rhs["op"] == "=":
                inner = strip(rhs["c"][0])
                if inner["k"] == "Ref":
                    idx_c = inner["n"]
                    r2 = strip(rhs["c"][1])
                    m2 = _member_of(r2)
                    if m2 is not None and m2.get("rec") == rec and m2["f"] == N:
                        idx.add(idx_c)
                rhs = strip(rhs["c"][1])
            m = _member_of(rhs)
            if m is not None and m.get("rec") == rec and m["f"] == N:
                idx.add(tgt["n"])
        if not idx:
            continue
        slots = []
        for n in f.walk():
            if n["k"] != "Sub":
                continue
            base, i = strip(n["c"][0]), strip(n["c"][1])
            if i is None or i["k"] != "Ref" or i["n"] not in idx:
                continue
            m = _member_of(base)
            hit = (m is not None and m.get("rec") == rec and m["f"] == A) or (base is not None and base["k"] == "Ref" and (rec, A) in al.get(base["n"], ()))
            if hit:
                slots.append(n)
        if not slots:
            continue
        T = f.unit.types
        erec = T[slots[0]["t"]].get("rec") if "t" in slots[0] else None
        fields = [x["n"] for x in f.unit.records.get(erec, {}).get("fields", [])] if erec else []
        if not fields:
            continue     # element is not a record (e.g. a pointer assigned whole): nothing can be relied upon field-wise
        assigned_f, whole, handed = set(), False, None
        # pointers to the slot:  P = &A[v]  -> P->fld = .. assigns a field, P handed to a callee hands the slot
        slotptrs = set()
        for sl in slots:
            p = f.par(sl)
            if p is not None and p["k"] == "Unary" and p["op"] == "&":
                pp = f.par(p)
                while pp is not None and pp["k"] == "Cast":
                    pp = f.par(pp)
                if pp is not None and pp["k"] == "Var":
                    slotptrs.add(pp["n"])
                elif pp is not None and assigned(pp) and assigned(pp)[1] == "=" and lv(assigned(pp)[0]):
                    slotptrs.add(lv(assigned(pp)[0]))
        if slotptrs:
            for y in f.walk():
                a9 = assigned(y)
                if a9 and a9[1] == "=":
                    t9 = strip(a9[0])
                    if t9["k"] == "Member" and lv(t9["c"][0]) in slotptrs:
                        assigned_f.add(t9["f"])
                if y["k"] == "Call":
                    for z in args(y):
                        if lv(z) in slotptrs:
                            if y.get("fn") == "memset":
                                whole = True
                            else:
                                handed = handed or (y.get("fn"), f.loc(y))
        for sl in slots:
            p = f.par(sl)
            if p is None:
                continue
            if p["k"] == "Member" and strip(p["c"][0]) is sl:
                pp = f.par(p)
                a = assigned(pp) if pp is not None else None
                if a and strip(a[0]) is p and a[1] == "=":
                    assigned_f.add(p["f"])
                continue
            a = assigned(p)
            if a and strip(a[0]) is sl and a[1] == "=":
                whole = True
            if p["k"] == "Unary" and p["op"] == "&":
                pp = f.par(p)
                while pp is not None and pp["k"] == "Cast":
                    pp = f.par(pp)
                if pp is not None and pp["k"] == "Call":
                    if pp.get("fn") == "memset":
                        whole = True
                    else:
                        handed = handed or (pp.get("fn"), f.loc(pp))
        missing = [x for x in fields if x not in assigned_f]
        if handed and not whole and missing:
            return {"function": f.name, "callee": handed[0], "loc": handed[1], "unassigned": missing}
    return None


def _only_grows_from(f, v, rec, N):
    """local v is initialised from S->N (possibly through a chained assignment) and otherwise only incremented"""
    init = False
    for n in f.walk():
        a = assigned(n)
        tgt = rhs = None
        if a and lv(a[0]) == v:
            if a[1] in ("++",) or (a[1] == "+=" and a[2] is not None and (cval(a[2]) or 0) >= 0 and cval(a[2]) is not None):
                continue
            if a[1] == "=" and a[2] is not None:
                rhs = strip(a[2])
            else:
                return False
        elif n["k"] == "Var" and n["n"] == v and n.get("c") and n["c"][0] is not None:
            rhs = strip(n["c"][0])
        else:
            # v may also be the inner target of a chained assignment  w = v = S->N
            continue
        while rhs is not None and rhs["k"] == "Binary" and rhs["op"] == "=":
            rhs = strip(rhs["c"][1])
        m = _member_of(rhs)
        if m is not None and m.get("rec") == rec and m["f"] == N:
            init = True
        else:
            return False
    # chained form: some other assignment contains `v = S->N` as its right-hand side
    if not init:
        for n in f.walk():
            if n["k"] == "Binary" and n["op"] == "=" and lv(n["c"][0]) == v:
                r = strip(n["c"][1])
                while r is not None and r["k"] == "Binary" and r["op"] == "=":
                    r = strip(r["c"][1])
                m = _member_of(r)
                if m is not None and m.get("rec") == rec and m["f"] == N:
                    init = True
    return init


class _Pending(Flow):
    """may-analysis: 'count lowered and vacated slots not yet zeroed'"""
    def __init__(self, f, is_dec, is_zero):
        Flow.__init__(self, f)
        self.is_dec, self.is_zero = is_dec, is_zero
        self.exit_pending = []
        self.zero_before = {}     # decrement node id -> bool (a zeroing memset already done on every path)  [must part kept separately]

    def init(self):
        return (frozenset(), False)     # (pending decrement node ids, zeroed-on-every-path-so-far)

    def join(self, a, b):
        return (a[0] | b[0], a[1] and b[1])

    def elem(self, st, n):
        pend, z = st
        if self.is_zero(n):
            return (frozenset(), True)
        if self.is_dec(n):
            if self.recording:
                self.zero_before[n["id"]] = z
            return (pend | {n["id"]}, z)
        return st

    def out_state(self, blk, st):
        if self.recording and blk["id"] == self.f.exit:
            pass


def run(chk, P, rule="R-TAILZERO", only_arrays=None, min_arrays=1):
    _PROG[0] = P
    _RETAL.clear()
    found = discover(P)
    n_inst = 0
    narr = 0
    for (rec, A), info in sorted(found.items(), key=str):
        if only_arrays is not None and A not in only_arrays:
            continue
        M = info["M"]
        N = count_field(P, rec, A, M)
        if N is None:
            chk.broke("%s: no count field found for zero-filled growable array %s.%s (grower %s)" % (rule, rec, A, info["grower"]))
            continue
        rel = relies_on_zero(P, rec, A, N)
        if rel is None:
            chk.inst(rule, info["grower"], "grow:%s" % A, True, "grower zero-fills the new slots of %s.%s at %s, but no consumer relies on it (slots at the count are assigned whole before use): no obligation" % (rec, A, info["loc"]),
                     loc=info["loc"], nontrivial=False)
            continue
        narr += 1
        chk.inst(rule, info["grower"], "grow:%s" % A, True, "grower zero-fills the new slots of %s.%s beyond %s at %s and %s hands the slot at index %s to %s() at %s without assigning its fields %s: "
                 "slots in [%s, %s) must be all-zero" % (rec, A, M, info["loc"], rel["function"], N, rel["callee"], rel["loc"], rel["unassigned"], N, M),
                 loc=info["loc"], nontrivial=False)
        for f in P.all_funcs():
            decs = []
            for n in f.walk():
                a = assigned(n)
                if not a:
                    continue
                m = _member_of(a[0])
                if m is None or m.get("rec") != rec or m["f"] != N:
                    continue
                if a[1] in ("++", "+="):
                    continue
                if a[1] == "=" and a[2] is not None:
                    r = strip(a[2])
                    # N = N + k / N = bigger local computed by the grower are handled by the grower exemption
                    if cval(r) is None and f.name == info["grower"]:
                        continue
                    # N = v where v started as N and was only ever incremented: not a lowering
                    if r["k"] == "Ref" and _only_grows_from(f, r["n"], rec, N):
                        continue
                decs.append(n)
            if not decs:
                continue
            al = _aliases(f)
            # exemptions: the array itself is replaced or released here
            replaced = False
            for n in f.walk():
                a = assigned(n)
                if a and a[1] == "=":
                    m = _member_of(a[0])
                    if m is not None and m.get("rec") == rec and m["f"] == A:
                        replaced = True
                if n["k"] == "Call" and n.get("fn") in ("free", "realloc"):
                    if (rec, A) in _array_fields_of(args(n)[0], al) or ((_member_of(args(n)[0]) or {}).get("f") == A):
                        replaced = True
            if f.name == info["grower"]:
                replaced = True
            def is_zero(n):
                if n["k"] == "Call" and n.get("fn") == "memset" and len(args(n)) == 3 and cval(args(n)[1]) == 0:
                    return (rec, A) in _array_fields_of(args(n)[0], al)
                return False
            ids = set(d["id"] for d in decs)
            fl = _Pending(f, lambda n: n["id"] in ids, is_zero)
            fl.run()
            # pending at the exit block
            pend_exit = fl.inb.get(f.exit, (frozenset(), False))[0] if f.exit in fl.inb else frozenset()
            loops = f.loop_blocks() if hasattr(f, "loop_blocks") else None
            for d in decs:
                n_inst += 1
                cons = "lower:%s" % src(strip(d))
                if replaced:
                    chk.inst(rule, f, cons, True, "the array %s is replaced/released (or grown) in this function: no stale tail survives" % A, loc=f.loc(d), nontrivial=False)
                    continue
                after = d["id"] not in pend_exit
                before = fl.zero_before.get(d["id"], False) and not f.in_loop(d)
                chk.inst(rule, f, cons, after or before,
                         "%s lowers the count of %s.%s whose slots beyond the count are all-zero by design (grower %s zero-fills them, consumers append into them in place): "
                         "the vacated slot must be zeroed on every path (memset on %s); otherwise the next append reuses stale pointers" % (src(strip(d)), rec, A, info["grower"], A),
                         loc=f.loc(d))
    chk.floor(rule, "zero-filled growable arrays", narr, min_arrays)
    return n_inst
