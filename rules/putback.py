"""R-PUTBACK: an insertion that fails after it has adopted children gives every adopted child back completely.

hwloc___insert_object_by_cpuset() moves the children of CUR that the new object contains below the new object while it walks
(their `parent` and `next_sibling` are rewritten); when a later sibling makes the insertion impossible it jumps to a put-back
section that re-inserts those children below CUR and returns failure -- the caller frees the rejected object, so a field left
pointing at it dangles.  Sections are found structurally in the CFG: the ADOPT stores are the member stores through the loop's
child variable in the branch that contains `child->parent = <the object parameter>`; the PUT-BACK section is the code from which
every path ends in a failing return and that re-parents a child to the other object parameter.  Every field of the child stored
on the adopt side must be stored again on the put-back side."""
from prog import *


def run(chk, P, fname="hwloc___insert_object_by_cpuset", unit="topology.c", rule="R-PUTBACK"):
    f = P.need_func(fname, unit)
    T = f.unit.types
    objs = [p["n"] for p in f.params if T[p["t"]].get("prec") == "hwloc_obj"]
    if not chk.need(len(objs) >= 2, "%s: %s has no (parent, object) parameters" % (rule, fname)):
        return 0
    # blocks from which every path ends in a failing return (pointer function: return NULL)
    fail_ret = set()
    for r in returns(f):
        if r.get("c") and cval(strip(r["c"][0])) == 0:
            x = r["id"]
            while x is not None and x not in f.elem_block:
                x = f.parent.get(x)
            if x is not None:
                fail_ret.add(f.elem_block[x][0])
    ok_ret = set()
    for r in returns(f):
        if not (r.get("c") and cval(strip(r["c"][0])) == 0):
            x = r["id"]
            while x is not None and x not in f.elem_block:
                x = f.parent.get(x)
            if x is not None:
                ok_ret.add(f.elem_block[x][0])
    # must-fail blocks: cannot reach a successful return
    reach_ok = set(ok_ret)
    changed = True
    while changed:
        changed = False
        for b, blk in f.blocks.items():
            if b not in reach_ok and any(s in reach_ok for s in blk["s"] if s is not None):
                reach_ok.add(b)
                changed = True
    mustfail = set(b for b in f.blocks if b not in reach_ok)
    adopt, back = {}, {}
    # the block that re-parents a local to the inserted object (second object parameter onwards): only the stores of THAT block are
    # the unconditional part of the adoption (memory children are moved in a nested branch that cannot be followed by a put-back:
    # it needs equal sets, and a child equal to the new object has no sibling that intersects it)
    reparent_blocks = {}
    for b, blk in f.blocks.items():
        for e in blk["e"]:
            n = f.nodes[e]
            a = assigned(n)
            if a and a[1] == "=" and a[2] is not None:
                t = strip(a[0])
                if t["k"] == "Member" and t.get("arrow") and t["f"] == "parent" and lv(a[2]) in objs and b not in mustfail:
                    base = strip(t["c"][0])
                    if base is not None and base["k"] == "Ref" and base.get("dk") == "local":
                        reparent_blocks.setdefault(base["n"], set()).add(b)
    for b, blk in f.blocks.items():
        for e in blk["e"]:
            n = f.nodes[e]
            a = assigned(n)
            if not a or a[1] != "=":
                continue
            t = strip(a[0])
            if t["k"] == "Member" and t.get("arrow") and t.get("rec") == "hwloc_obj":
                base = strip(t["c"][0])
                if base is not None and base["k"] == "Ref" and base.get("dk") == "local":
                    if b in mustfail:
                        back.setdefault(base["n"], {}).setdefault(t["f"], (lv(a[2]) if a[2] is not None else None, f.loc(n)))
                    elif b in reparent_blocks.get(base["n"], ()):
                        adopt.setdefault(base["n"], {}).setdefault(t["f"], (lv(a[2]) if a[2] is not None else None, f.loc(n)))
    n = 0
    for var, fields in adopt.items():
        par = fields.get("parent")
        if not par or par[0] not in objs or len(fields) < 2:
            continue      # not the loop's child variable (it is unlinked from one list and re-parented in the same block)
        newobj = par[0]
        bf = back.get(var, {})
        if not chk.need(bool(bf), "%s: no put-back section re-stores fields of `%s` in %s" % (rule, var, fname)):
            continue
        for fld in sorted(fields):
            n += 1
            ok = fld in bf
            chk.inst(rule, f, "putback:%s->%s" % (var, fld), ok,
                     "`%s->%s` is rewritten when %s is moved below `%s`; the put-back section (every path from it ends in the failing return) stores it again%s"
                     % (var, fld, var, newobj, "" if ok else " -- but it does not: after a failed insertion the child keeps a %s that refers to the rejected object, which the caller frees" % fld), loc=fields[fld][1])
    return n
