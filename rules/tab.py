"""R-TAB: finite tables decided exhaustively by folding the real functions (lib/fold.py)."""
from prog import *
import fold

UNORDERED = 2147483647


def types_enum(u):
    e = u.enums.get("hwloc_obj_type_t")
    if e is None:
        raise AnalysisBroken("enum hwloc_obj_type_t not found")
    items = [(n, v) for n, v in e["items"] if n != "HWLOC_OBJ_TYPE_MAX"]
    return items


def compare_types(chk, P, rule="R-TAB"):
    u = P.unit("topology.c")
    T = types_enum(u)
    E = dict(T)
    N = len(T)
    body = ""
    for na, a in T:
        for nb, b in T:
            body += "int w_cmp_%d_%d(void){ return hwloc_compare_types((hwloc_obj_type_t)%d,(hwloc_obj_type_t)%d); }\n" % (a, b, a, b)
    for n, v in T:
        for k in ("normal", "memory", "io", "cache", "dcache", "icache"):
            body += "int w_pk_%s_%d(void){ return !!hwloc__obj_type_is_%s((hwloc_obj_type_t)%d); }\n" % (k, v, k, v)
        body += "int w_pk_special_%d(void){ return !!hwloc__obj_type_is_special((hwloc_obj_type_t)%d); }\n" % (v, v)
        body += "int w_ord_%d(void){ return (int) obj_order_type[obj_type_order[%d]] == %d; }\n" % (v, v, v)
        body += "int w_ord2_%d(void){ return (int) obj_type_order[obj_order_type[%d]] == %d; }\n" % (v, v, v)
    res = fold.run("topology_tables", u.path, P.db[u.path], body)
    fold.need_folded(res, list(res), "compare_types/kind tables")
    c = lambda a, b: res["w_cmp_%d_%d" % (a, b)]
    kind = lambda k, v: res["w_pk_%s_%d" % (k, v)]
    M, PU = E["HWLOC_OBJ_MACHINE"], E["HWLOC_OBJ_PU"]
    misc = E["HWLOC_OBJ_MISC"]
    f = P.need_func("hwloc_compare_types", "topology.c")
    bad = []
    for na, a in T:
        for nb, b in T:
            x, y = c(a, b), c(b, a)
            if not ((x == UNORDERED and y == UNORDERED) or (x != UNORDERED and y != UNORDERED and x == -y)):
                bad.append("compare(%s,%s)=%d but compare(%s,%s)=%d" % (na, nb, x, nb, na, y))
    chk.inst(rule, f, "antisymmetric", not bad, "; ".join(bad[:3]) or "%d ordered pairs: f(a,b) == -f(b,a) or both UNORDERED" % (N * N))
    bad = [n for n, a in T if c(a, a) != 0]
    chk.inst(rule, f, "reflexive", not bad, "compare(T,T) != 0 for %s" % bad if bad else "compare(T,T) == 0 for all %d types" % N)
    bad = [n for n, a in T if a != M and not (c(M, a) < 0)]
    chk.inst(rule, f, "machine-highest", not bad, "Machine is not above %s" % bad if bad else "compare(Machine,T) < 0 for every other type")
    bad = [n for n, a in T if a != PU and kind("normal", a) and not (c(a, PU) < 0)]
    chk.inst(rule, f, "pu-deepest", not bad, "PU is not below %s" % bad if bad else "compare(T,PU) < 0 for every other normal type")
    bad = []
    for na, a in T:
        for nb, b in T:
            na_, nb_ = kind("normal", a), kind("normal", b)
            exp_un = (na_ != nb_) and ((na_ and a != M) or (nb_ and b != M))
            if (c(a, b) == UNORDERED) != exp_un:
                bad.append("%s vs %s: %s" % (na, nb, c(a, b)))
    chk.inst(rule, f, "unordered-iff-kinds", not bad, "; ".join(bad[:4]) or "UNORDERED exactly for a non-normal type against a normal non-Machine type")
    bad = []
    norm = [(n, a) for n, a in T if kind("normal", a)]
    for n1, a in norm:
        for n2, b in norm:
            for n3, d in norm:
                if c(a, b) < 0 and c(b, d) < 0 and not c(a, d) < 0:
                    bad.append((n1, n2, n3))
            if a != b and c(a, b) == 0:
                bad.append((n1, n2, "equal order"))
    chk.inst(rule, f, "total-order-on-normal", not bad, str(bad[:3]) if bad else "strict total order on the %d normal types" % len(norm))
    # kind predicates
    g = P.func("hwloc_obj_type_is_normal", "traversal.c") or f
    bad = []
    for n, a in T:
        ks = [kind("normal", a), kind("memory", a), kind("io", a), 1 if a == misc else 0]
        if sum(ks) != 1:
            bad.append("%s: normal/memory/io/misc = %s" % (n, ks))
        if kind("cache", a) and not kind("normal", a):
            bad.append("%s: cache but not normal" % n)
        if (kind("dcache", a) or kind("icache", a)) and not kind("cache", a):
            bad.append("%s: dcache/icache but not cache" % n)
        if kind("dcache", a) and kind("icache", a):
            bad.append("%s: both dcache and icache" % n)
        if kind("special", a) != (1 if (kind("io", a) or a == misc) else 0):
            bad.append("%s: special != (io or misc)" % n)
    chk.inst(rule, g, "one-kind-per-type", not bad, "; ".join(bad[:4]) or "exactly one of normal/memory/io/misc for each of %d types; cache kinds nested" % N)
    bad = [n for n, a in T if not res["w_ord_%d" % a] or not res["w_ord2_%d" % a]]
    chk.inst(rule, f, "order-tables-inverse", not bad, "obj_order_type/obj_type_order not inverse at %s" % bad if bad else "obj_order_type o obj_type_order = id on %d types" % N)
    return len(res)


def public_kind_wrappers(chk, P, rule="R-TAB"):
    """hwloc_obj_type_is_X(t) returns hwloc__obj_type_is_X(t) (public wrappers agree with the private predicates)"""
    u = P.unit("traversal.c")
    T = types_enum(u)
    body = ""
    for n, v in T:
        for k in ("normal", "memory", "io", "cache", "dcache", "icache"):
            body += "int w_pub_%s_%d(void){ return (!!hwloc_obj_type_is_%s((hwloc_obj_type_t)%d)) == (!!hwloc__obj_type_is_%s((hwloc_obj_type_t)%d)); }\n" % (k, v, k, v, k, v)
    res = fold.run("traversal_kinds", u.path, P.db[u.path], body)
    fold.need_folded(res, list(res), "public kind wrappers")
    bad = [k for k, v in res.items() if v != 1]
    chk.inst(rule, P.need_func("hwloc_obj_type_is_normal", "traversal.c"), "public-kind-wrappers", not bad,
             "disagree: %s" % bad[:4] if bad else "%d (predicate, type) pairs agree with the private predicates" % len(res))
    return len(res)


def _cstr(s):
    return '"' + s.replace("\\", "\\\\").replace('"', '\\"') + '"'


def type_strings(chk, P, rule="R-TAB"):
    """hwloc_type_sscanf accepts what the printers emit, with the same type and attributes"""
    u = P.unit("traversal.c")
    T = types_enum(u)
    E = u.enum_consts
    f = P.need_func("hwloc_type_sscanf", "traversal.c")
    models = ("strncasecmp", "strtol", "strcasecmp", "strcmp", "strchr", "strlen")
    body = ""
    # (1) type_string(T) for every type: type, and for caches depth/type attributes
    for n, v in T:
        body += ("int w_ts_%d(void){ hwloc_obj_type_t t=(hwloc_obj_type_t)-2; union hwloc_obj_attr_u at; "
                 "int e=hwloc_type_sscanf(hwloc_obj_type_string((hwloc_obj_type_t)%d),&t,&at,sizeof(at)); return e<0 ? -1 : (int)t; }\n" % (v, v))
    cache_expect = {}
    for n, v in T:
        m = re.match(r"HWLOC_OBJ_L(\d)(I?)CACHE$", n)
        if m:
            d = int(m.group(1))
            ct = E["HWLOC_OBJ_CACHE_INSTRUCTION"] if m.group(2) else E["HWLOC_OBJ_CACHE_UNIFIED"]
            cache_expect[v] = (d, ct)
            body += ("int w_tsd_%d(void){ hwloc_obj_type_t t; union hwloc_obj_attr_u at; at.cache.depth=99; "
                     "hwloc_type_sscanf(hwloc_obj_type_string((hwloc_obj_type_t)%d),&t,&at,sizeof(at)); return (int)at.cache.depth; }\n" % (v, v))
            body += ("int w_tst_%d(void){ hwloc_obj_type_t t; union hwloc_obj_attr_u at; at.cache.type=(hwloc_obj_cache_type_t)99; "
                     "hwloc_type_sscanf(hwloc_obj_type_string((hwloc_obj_type_t)%d),&t,&at,sizeof(at)); return (int)at.cache.type; }\n" % (v, v))
    # (2) the OS-device name table: every short and long name parses back to its own type bit,
    #     alone, inside OS[..]/OSDev[..], and in pairs
    g = u.globals.get("names")
    names = []
    if g is None or g.get("init") is None:
        chk.broke("R-TAB: OS device name table `names` not found in traversal.c")
    else:
        for row in g["init"]["c"]:
            r = [strip(x) for x in row["c"]]
            names.append((cval(r[0]), r[1].get("s"), r[2].get("s")))
    wn = []
    for i, (bit, short, lng) in enumerate(names):
        for j, s in enumerate((short, lng)):
            body += "int w_osn_%d_%d(void){ hwloc_obj_osdev_types_t t=0; int r=hwloc__osdev_type_sscanf(%s,&t); return r ? (int)t : -1; }\n" % (i, j, _cstr(s))
            for pi, term in enumerate(("]", ",")):
                body += "int w_ost_%d_%d_%d(void){ hwloc_obj_osdev_types_t t=0; int r=hwloc__osdev_type_sscanf(%s,&t); return r ? (int)t : -1; }\n" % (i, j, pi, _cstr(s + term + "x"))
    # (3) cache / group / bridge / pci literals the snprintf switch emits
    lits = []
    for d in range(1, 6):
        for letter, ct in (("", "HWLOC_OBJ_CACHE_UNIFIED"), ("d", "HWLOC_OBJ_CACHE_DATA"), ("i", "HWLOC_OBJ_CACHE_INSTRUCTION")):
            if letter == "i" and d > 3:
                continue
            for suf in ("", "Cache"):
                ty = E["HWLOC_OBJ_L1ICACHE"] + d - 1 if letter == "i" else E["HWLOC_OBJ_L1CACHE"] + d - 1
                lits.append(("L%d%s%s" % (d, letter, suf), ty, ("cache", d, E[ct])))
    for gd in (0, 1, 7, 42):
        lits.append(("Group%d" % gd, E["HWLOC_OBJ_GROUP"], ("group", gd)))
    lits.append(("Group", E["HWLOC_OBJ_GROUP"], ("group", 0xffffffff)))
    lits.append(("PCIBridge", E["HWLOC_OBJ_BRIDGE"], ("bridge", E["HWLOC_OBJ_BRIDGE_PCI"])))
    lits.append(("HostBridge", E["HWLOC_OBJ_BRIDGE"], ("bridge", E["HWLOC_OBJ_BRIDGE_HOST"])))
    lits.append(("PCI", E["HWLOC_OBJ_PCI_DEVICE"], None))
    lits.append(("OS", E["HWLOC_OBJ_OS_DEVICE"], ("osdev", 0)))
    lits.append(("OSDev", E["HWLOC_OBJ_OS_DEVICE"], ("osdev", 0)))
    for k, (s, ty, attr) in enumerate(lits):
        body += ("int w_lit_%d(void){ hwloc_obj_type_t t=(hwloc_obj_type_t)-2; union hwloc_obj_attr_u at; "
                 "int e=hwloc_type_sscanf(%s,&t,&at,sizeof(at)); return e<0 ? -1 : (int)t; }\n" % (k, _cstr(s)))
        if attr:
            fld = {"cache": "cache.depth", "group": "group.depth", "bridge": "bridge.upstream_type", "osdev": "osdev.types"}[attr[0]]
            body += ("int w_lita_%d(void){ hwloc_obj_type_t t; union hwloc_obj_attr_u at; __builtin_memset(&at, 0x5a, sizeof at); "
                     "hwloc_type_sscanf(%s,&t,&at,sizeof(at)); return (int)at.%s; }\n" % (k, _cstr(s), fld))
            if attr[0] == "cache":
                body += ("int w_litb_%d(void){ hwloc_obj_type_t t; union hwloc_obj_attr_u at; __builtin_memset(&at, 0x5a, sizeof at); "
                         "hwloc_type_sscanf(%s,&t,&at,sizeof(at)); return (int)at.cache.type; }\n" % (k, _cstr(s)))
    res = fold.run("traversal_strings", u.path, P.db[u.path], body, use_models=models)
    fold.need_folded(res, list(res), "type string witnesses")
    bad = ["%s -> %s" % (n, res["w_ts_%d" % v]) for n, v in T if res["w_ts_%d" % v] != v]
    chk.inst(rule, f, "type_string-roundtrip", not bad, "; ".join(bad[:4]) or "hwloc_type_sscanf(hwloc_obj_type_string(T)) == T for all %d types" % len(T))
    bad = []
    for v, (d, ct) in cache_expect.items():
        if res["w_tsd_%d" % v] != d or res["w_tst_%d" % v] != ct:
            bad.append("type %d: depth %s type %s (expected %d/%d)" % (v, res["w_tsd_%d" % v], res["w_tst_%d" % v], d, ct))
    chk.inst(rule, f, "cache-attrs-roundtrip", not bad, "; ".join(bad[:3]) or "cache depth/type attributes recovered for %d cache types" % len(cache_expect))
    bad = []
    for i, (bit, short, lng) in enumerate(names):
        for j, s in enumerate((short, lng)):
            if res["w_osn_%d_%d" % (i, j)] != bit:
                bad.append("%s -> %s (expected bit 0x%x)" % (s, res["w_osn_%d_%d" % (i, j)], bit))
            for pi, term in enumerate(("]", ",")):
                if res["w_ost_%d_%d_%d" % (i, j, pi)] != bit:
                    bad.append("%s followed by '%s' -> types %s (expected 0x%x)" % (s, term, res["w_ost_%d_%d_%d" % (i, j, pi)], bit))
    chk.inst(rule, f, "osdev-names-roundtrip", not bad and len(names) >= 7, "; ".join(bad[:4]) or
             "all %d OS-device names (short and long), alone and followed by ']' or ',', parse back to their own type bits" % len(names))
    osdev_list_structure(chk, P, rule)
    bad = []
    for k, (s, ty, attr) in enumerate(lits):
        if res["w_lit_%d" % k] != ty:
            bad.append("%s -> type %s (expected %d)" % (s, res["w_lit_%d" % k], ty))
        elif attr:
            got = res["w_lita_%d" % k]
            exp = attr[1] if attr[0] != "cache" else attr[1]
            if (got & 0xffffffff) != (exp & 0xffffffff):
                bad.append("%s -> %s attr %s (expected %s)" % (s, attr[0], got, exp))
            if attr[0] == "cache" and res["w_litb_%d" % k] != attr[2]:
                bad.append("%s -> cache type %s (expected %s)" % (s, res["w_litb_%d" % k], attr[2]))
    chk.inst(rule, f, "printed-literals-parse", not bad, "; ".join(bad[:4]) or "%d printable type literals parse to the same type and attributes" % len(lits))
    return len(res)


import re


def osdev_list_structure(chk, P, rule):
    """the bracketed multi-name form: printer and parser agree on '[', ',' and ']', the parser ORs every
    comma-separated name through the single-name matcher, and the prefix lengths equal the prefix literals"""
    g = P.need_func("hwloc__osdev_types_sscanf", "traversal.c")
    calls = list(g.calls("hwloc__osdev_type_sscanf"))
    ors = [n for n in g.walk() if assigned(n) and assigned(n)[1] == "|=" and lv(assigned(n)[0]) == "(*%s)" % g.params[1]["n"]]
    seps = [cval(args(c)[1]) for c in g.calls("strchr")]
    ok = len(calls) == 1 and len(ors) == 1 and ord(",") in seps and ord("]") in seps
    adv = [n for n in g.walk() if assigned(n) and lv(assigned(n)[0]) == g.params[0]["n"] and assigned(n)[1] == "="]
    ok = ok and any(strip(assigned(n)[2])["k"] == "Binary" and cval(strip(assigned(n)[2])["c"][1]) == 1 for n in adv)
    chk.inst(rule, g, "list-parser-shape", ok, "each comma-separated name goes through hwloc__osdev_type_sscanf and is OR-ed into the result; separators ',' and ']' (calls=%d ors=%d seps=%s)" % (len(calls), len(ors), seps))
    f = P.need_func("hwloc_type_sscanf", "traversal.c")
    bad = []
    n = 0
    for c in f.calls(("strncasecmp", "hwloc_strncasecmp")):
        a = args(c)
        lit = strip(a[1])
        if lit["k"] != "Str" or not lit["s"].endswith("["):
            continue
        n += 1
        if cval(a[2]) != len(lit["s"]):
            bad.append("prefix %r compared over %s characters" % (lit["s"], cval(a[2])))
    for c in f.calls("hwloc__osdev_types_sscanf"):
        a0 = strip(args(c)[0])
        off = cval(a0["c"][1]) if a0["k"] == "Binary" and a0["op"] == "+" else None
        if off not in (3, 6):
            bad.append("list parser called at offset %s" % off)
    chk.inst(rule, f, "osdev-prefix-lengths", not bad and n >= 2, "; ".join(bad) or "%d bracket prefixes compared over their full length and skipped exactly" % n)
    p = P.need_func("hwloc__osdev_type_snprintf_normal", "traversal.c")
    chars = set(cval(n2) for n2 in p.walk() if n2["k"] == "Char")
    strs = set(n2.get("s") for n2 in p.walk() if n2["k"] == "Str")
    okp = ord("[") in chars and ord(",") in chars and "]" in strs and "%c%s" in strs
    chk.inst(rule, p, "list-printer-separators", okp, "printer emits '[' then ',' between names and a closing ']' (chars %s)" % sorted(chr(c) for c in chars if c))


def only_compared(f, params):
    """AST check for R-CMP: the given value parameters occur only as operands of relational operators or plain copies"""
    for n in f.walk():
        if n["k"] == "Ref" and n["n"] in params:
            p = f.par(n)
            while p is not None and p["k"] in ("Cast", "Unary") and (p["k"] == "Cast" or p["op"] == "*"):
                p = f.par(p)
            if p is None:
                return False
            if p["k"] == "Binary" and p["op"] in ("<", ">", "<=", ">=", "==", "!="):
                continue
            a = assigned(p)
            if a and a[1] == "=":
                continue
            if p["k"] in ("Var",):
                continue
            return False
    return True


def best_of(chk, P, rule="R-CMP"):
    """hwloc__update_best_target / _initiator over all orderings x found x flag (exhaustive because the value parameters
    are only compared): HIGHER_FIRST keeps the max, LOWER_FIRST the min, ties keep the first, !found takes the new one"""
    u = P.unit("memattrs.c")
    n = 0
    body = ""
    cases = []
    for fn, objt, mk in (("hwloc__update_best_target", "hwloc_obj_t", "(hwloc_obj_t)%d"), ):
        f = P.need_func(fn, "memattrs.c")
        ok = only_compared(f, ("new_value",))
        chk.inst(rule, f, "only-compared", ok, "new_value occurs only in comparisons and plain copies: three orderings are exhaustive")
        for found in (0, 1):
            for keep in (0, 1, 4):
                for new in (4, 5, 6):
                    nm = "w_bt_%d_%d_%d" % (found, keep, new)
                    body += ("int %s(void){ hwloc_obj_t b=(hwloc_obj_t)1; hwloc_uint64_t bv=5; int found=%d; "
                             "%s(&b,&bv,&found,(hwloc_obj_t)2,%d,%d); return (int)bv*100 + (b==(hwloc_obj_t)2)*10 + found; }\n" % (nm, found, fn, new, keep))
                    take = (not found) or (keep and new > 5) or (not keep and new < 5)
                    exp = (new if take else 5) * 100 + (10 if take else 0) + 1
                    cases.append((nm, exp, f))
    g = P.need_func("hwloc__update_best_initiator", "memattrs.c")
    oki = only_compared(g, ("new_value",))
    chk.inst(rule, g, "only-compared", oki, "new_value occurs only in comparisons and plain copies")
    for found in (0, 1):
        for keep in (0, 1):
            for new in (4, 5, 6):
                nm = "w_bi_%d_%d_%d" % (found, keep, new)
                body += ("int %s(void){ struct hwloc_internal_location_s l1, l2, *b=&l1; hwloc_uint64_t bv=5; int found=%d; "
                         "hwloc__update_best_initiator(&b,&bv,&found,&l2,%d,%d); return (int)bv*100 + found; }\n" % (nm, found, new, keep))
                take = (not found) or (keep and new > 5) or (not keep and new < 5)
                cases.append((nm, (new if take else 5) * 100 + 1, g))
    res = fold.run("memattrs_best", u.path, P.db[u.path], body)
    fold.need_folded(res, [c[0] for c in cases], "best-of witnesses")
    bad = {}
    for nm, exp, f in cases:
        n += 1
        if res[nm] != exp:
            bad.setdefault(f.name, []).append("%s -> %s (expected %s)" % (nm, res[nm], exp))
    for f in (P.func("hwloc__update_best_target", "memattrs.c"), g):
        chk.inst(rule, f, "orderings", f.name not in bad, "; ".join(bad.get(f.name, [])[:3]) or "all found x flag x ordering cases keep the documented best (ties keep the first)")
    # the flag handed in is the attribute's HIGHER_FIRST bit at every call site
    for caller in ("hwloc_memattr_get_best_target", "hwloc_memattr_get_best_initiator"):
        f = P.need_func(caller, "memattrs.c")
        k = 0
        for c in f.calls(("hwloc__update_best_target", "hwloc__update_best_initiator")):
            k += 1
            a = strip(args(c)[-1])
            # decided by evaluation (named temporaries resolved): non-zero exactly when the attribute's HIGHER_FIRST bit is set
            import extent, peval
            defs = extent.single_defs(f)
            e = a
            for _ in range(3):
                if e["k"] == "Ref" and e["n"] in defs:
                    e = strip(defs[e["n"]])
            hf = f.unit.enum_consts.get("HWLOC_MEMATTR_FLAG_HIGHER_FIRST")
            keys = sorted(set(lv(x) for x in subnodes(e) if x["k"] == "Member" and x["f"] == "flags" and lv(x)))
            ok = False
            if hf is not None and len(keys) == 1:
                v1 = peval.Evaluator(f, {keys[0]: hf}).ev(e)
                v0 = peval.Evaluator(f, {keys[0]: 0xffff & ~hf}).ev(e)
                ok = v1 is not None and v1 != 0 and v0 == 0
            chk.inst(rule, f, "flag-arg#%d" % k, ok, "ordering flag argument is non-zero exactly when the attribute's HWLOC_MEMATTR_FLAG_HIGHER_FIRST bit is set (evaluated on `%s`)" % src(e), loc=f.loc(c))
            n += 1
    return n


def filter_table(chk, P, rule="R-TAB"):
    """hwloc__topology_set_type_filter over 20 types x 4 filters: Machine/PU/NUMANode only KEEP_ALL; Group never KEEP_ALL
    (stored as KEEP_STRUCTURE? rejected); special types never KEEP_STRUCTURE; IMPORTANT == ALL for non-special types"""
    u = P.unit("topology.c")
    T = types_enum(u)
    E = u.enum_consts
    F = [("HWLOC_TYPE_FILTER_KEEP_ALL", E["HWLOC_TYPE_FILTER_KEEP_ALL"]), ("HWLOC_TYPE_FILTER_KEEP_NONE", E["HWLOC_TYPE_FILTER_KEEP_NONE"]),
         ("HWLOC_TYPE_FILTER_KEEP_STRUCTURE", E["HWLOC_TYPE_FILTER_KEEP_STRUCTURE"]), ("HWLOC_TYPE_FILTER_KEEP_IMPORTANT", E["HWLOC_TYPE_FILTER_KEEP_IMPORTANT"])]
    body = ""
    for tn, tv in T:
        for fn, fv in F:
            body += ("int w_tf_%d_%d(void){ struct hwloc_topology t; __builtin_memset(&t, 0, sizeof t); t.type_filter[%d] = (enum hwloc_type_filter_e) 77; "
                     "int e = hwloc__topology_set_type_filter(&t, (hwloc_obj_type_t)%d, (enum hwloc_type_filter_e)%d); return e < 0 ? -1 : (int) t.type_filter[%d]; }\n" % (tv, fv, tv, tv, fv, tv))
    res = fold.run("topology_filters", u.path, P.db[u.path], body)
    fold.need_folded(res, list(res), "type filter table")
    f = P.need_func("hwloc__topology_set_type_filter", "topology.c")
    ALL, NONE, STRUCT, IMP = [v for _, v in F]
    unfilterable = (E["HWLOC_OBJ_MACHINE"], E["HWLOC_OBJ_PU"], E["HWLOC_OBJ_NUMANODE"])
    special = (E["HWLOC_OBJ_BRIDGE"], E["HWLOC_OBJ_PCI_DEVICE"], E["HWLOC_OBJ_OS_DEVICE"], E["HWLOC_OBJ_MISC"])
    bad = []
    for tn, tv in T:
        for fn, fv in F:
            r = res["w_tf_%d_%d" % (tv, fv)]
            if tv in unfilterable:
                exp = ALL if fv == ALL else -1
            elif tv in special:
                exp = -1 if fv == STRUCT else fv
            elif tv == E["HWLOC_OBJ_GROUP"]:
                exp = -1 if fv in (ALL, IMP) else fv     # IMPORTANT would mean ALL, which Groups never are
            else:
                exp = ALL if fv == IMP else fv
            if r != exp:
                bad.append("%s <- %s: %s (expected %s)" % (tn, fn, r, exp))
    chk.inst(rule, f, "filter-table", not bad, "; ".join(bad[:4]) or "%d (type, filter) cases accept/reject/store as specified" % (len(T) * 4))
    return len(res)


def depth_tables(chk, P, rule="R-TAB"):
    """hwloc_get_depth_type(TYPE_DEPTH_T) == T for the special levels; default type_depth[T] == TYPE_DEPTH_T"""
    u = P.unit("traversal.c") if "hwloc_get_depth_type" in P.unit("traversal.c")._fd else P.unit("topology.c")
    E = u.enum_consts
    pairs = [("HWLOC_OBJ_NUMANODE", "HWLOC_TYPE_DEPTH_NUMANODE"), ("HWLOC_OBJ_BRIDGE", "HWLOC_TYPE_DEPTH_BRIDGE"), ("HWLOC_OBJ_PCI_DEVICE", "HWLOC_TYPE_DEPTH_PCI_DEVICE"),
             ("HWLOC_OBJ_OS_DEVICE", "HWLOC_TYPE_DEPTH_OS_DEVICE"), ("HWLOC_OBJ_MISC", "HWLOC_TYPE_DEPTH_MISC"), ("HWLOC_OBJ_MEMCACHE", "HWLOC_TYPE_DEPTH_MEMCACHE")]
    body = ""
    for t, d in pairs:
        body += "int w_dt_%d(void){ struct hwloc_topology t; __builtin_memset(&t, 0, sizeof t); t.nb_levels = 3; return (int) hwloc_get_depth_type(&t, %d); }\n" % (E[t], E[d])
    res = fold.run("depth_tables", u.path, P.db[u.path], body)
    fold.need_folded(res, list(res), "depth tables")
    f = P.need_func("hwloc_get_depth_type", os.path.basename(u.path))
    bad = ["%s: depth %s -> %s" % (t, d, res["w_dt_%d" % E[t]]) for t, d in pairs if res["w_dt_%d" % E[t]] != E[t]]
    chk.inst(rule, f, "special-depth-to-type", not bad, "; ".join(bad) or "the six special depths map back to their types")
    # defaults in hwloc_topology_setup_defaults: type_depth[T] = TYPE_DEPTH_T
    g = P.need_func("hwloc_topology_setup_defaults", "topology.c")
    got = {}
    for x in g.walk():
        a = assigned(x)
        if a and a[2] is not None:
            t = strip(a[0])
            if t["k"] == "Sub" and lv(t["c"][0]) == "topology->type_depth" and cval(t["c"][1]) is not None:
                got[cval(t["c"][1])] = cval(a[2])
    bad = ["type_depth[%s] = %s" % (t, got.get(E[t])) for t, d in pairs if got.get(E[t]) != E[d]]
    chk.inst(rule, g, "default-type-depths", not bad, "; ".join(bad) or "default type_depth[] of the six special types are their TYPE_DEPTH constants")
    return len(res) + len(pairs)


import os
