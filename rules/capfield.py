"""R-CAPFIELD: the capacity recorded for a heap array is the capacity it was allocated with.

In a function that allocates an array field X->A = alloc(E * sizeof ..) and also records a capacity X->M = F for the same object
(M a field whose name contains `allocated`), E and F have the same extent signature (see R-EXTENT: multiset of the factors' root
names).  A copy that allocates `count` entries but records the source's `allocated` claims room it does not have: the next append
skips the realloc and writes past the block."""
from prog import *
import extent

PAIRS = set()     # (record, array field, capacity field) discovered by run(): consumed by reset_with_array()


def run(chk, P, units=None, rule="R-CAPFIELD"):
    n = 0
    for f in P.all_funcs():
        if units is not None and os.path.basename(f.file) not in units:
            continue
        if f.entry is None:
            continue
        defs = extent.single_defs(f)
        allocs = {}   # owner key -> [(field, signature, loc, text)]
        caps = {}     # owner key -> [(field, signature, loc, text)]
        localalloc = {}   # local var -> (sig, loc, text)
        recs = {}
        for x in f.walk():
            tgt = rhs = None
            a = assigned(x)
            if a and a[1] == "=" and a[2] is not None:
                tgt, rhs = strip(a[0]), strip(a[2])
            elif x["k"] == "Var" and x.get("c") and x["c"][0] is not None:
                tgt, rhs = {"k": "Ref", "n": x["n"]}, strip(x["c"][0])
            if tgt is None or rhs is None:
                continue
            ext = None
            if rhs["k"] == "Call":
                fn = rhs.get("fn")
                ar = args(rhs)
                if fn == "malloc" and ar:
                    ext = ar[0]
                elif fn == "calloc" and len(ar) == 2:
                    ext = ar[0] if strip(ar[1])["k"] == "SizeOf" else ar[1]
                elif fn == "realloc" and len(ar) == 2:
                    ext = ar[1]
                elif fn in ("hwloc_tma_malloc", "hwloc_tma_calloc") and len(ar) == 2:
                    ext = ar[1]
            if ext is not None and any(strip(y)["k"] == "SizeOf" for y in extent.factors(ext)):
                sig = extent.signature(ext, defs)
                if tgt["k"] == "Member":
                    allocs.setdefault(lv(tgt["c"][0]), []).append((tgt["f"], sig, f.loc(x), src(strip(ext))))
                    recs[(lv(tgt["c"][0]), tgt["f"])] = tgt.get("rec")
                elif tgt["k"] == "Ref":
                    localalloc[tgt["n"]] = (sig, f.loc(x), src(strip(ext)))
                continue
            if tgt["k"] == "Member" and "allocated" in tgt["f"]:
                recs[(lv(tgt["c"][0]), tgt["f"])] = tgt.get("rec")
                caps.setdefault(lv(tgt["c"][0]), []).append((tgt["f"], extent.signature(rhs, defs), f.loc(x), src(rhs)))
            # X->A = local  where local was allocated above
            if tgt["k"] == "Member" and rhs["k"] == "Ref" and rhs["n"] in localalloc:
                sig, loc, txt = localalloc[rhs["n"]]
                allocs.setdefault(lv(tgt["c"][0]), []).append((tgt["f"], sig, loc, txt))
                recs[(lv(tgt["c"][0]), tgt["f"])] = tgt.get("rec")
        for owner, cl in caps.items():
            al = allocs.get(owner)
            if not al:
                continue
            for (cf, csig, cloc, ctxt) in cl:
                if csig == () or csig == ("#0",):
                    continue       # capacity reset to 0 / constant bookkeeping
                # pair with the array field whose name shares a stem with the capacity field, else the only allocation
                cand = al if len(al) == 1 else [z for z in al if z[0].replace("nr_", "").rstrip("s") in cf or cf.replace("_allocated", "").replace("nr_", "") in z[0]] or al[:1]
                for (af, asig, aloc, atxt) in cand[:1]:
                    n += 1
                    if recs.get((owner, af)) and recs.get((owner, af)) == recs.get((owner, cf)):
                        PAIRS.add((recs[(owner, af)], af, cf))
                    same = asig == csig or asig == (cf,)        # allocated from the capacity field itself
                    chk.inst(rule, f, "%s->%s/%s" % (owner, af, cf), same,
                             "%s->%s is allocated for %s elements (%s) and %s->%s records %s%s" % (owner, af, "*".join(asig) or "1", aloc, owner, cf, ctxt, "" if same else ": the recorded capacity is not the allocated one"), loc=cloc)
                    # second clause, by evaluation: no successful exit leaves the array known NULL while a capacity that is not the
                    # constant 0 was recorded (an allocation skipped on one path, the capacity copied on all)
                    import peval
                    akey, ckey = "%s->%s" % (owner, af), "%s->%s" % (owner, cf)
                    bad = []
                    def obs(nd, env, ckey=ckey):
                        a9 = assigned(nd)
                        if a9 and lv(a9[0]) == ckey:
                            if a9[1] == "=" and a9[2] is not None and cval(a9[2]) == 0:
                                env.pop("#cap", None)
                            else:
                                env["#cap"] = 1
                    def obx(kind, nd, env, akey=akey, bad=bad):
                        v = None
                        if kind == "return" and nd.get("c") and nd["c"][0] is not None:
                            v = peval.Evaluator(f, env).ev(nd["c"][0])
                        failed = v is not None and (v == 0 if f.unit.types[f.d["ret"]].get("ptr") else v < 0)
                        if not failed and env.get("#cap") and env.get(akey) == 0 and not bad:
                            bad.append(f.loc(nd) if nd is not None else f.name + ":end")
                    locals_ = set(k9 for k9 in localalloc) | set(v9["n"] for v9 in f.walk() if v9["k"] == "Var" and f.unit.types[v9["t"]].get("ptr"))
                    try:
                        # allocations are taken to succeed here: what is judged is an allocation SKIPPED on a path, not one that failed
                        ALLOC = {k9: 1 for k9 in ("malloc", "calloc", "realloc", "hwloc_tma_malloc", "hwloc_tma_calloc", "strdup")}
                        peval.PathEval(P, f, {}, is_effect=lambda *z: False, through_effects=True, observe=obs, observe_exit=obx, track={akey} | locals_, maxstates=60000,
                                       call_values=ALLOC).run()
                        n += 1
                        chk.inst(rule, f, "%s->%s/%s:allocated-when-recorded" % (owner, af, cf), not bad,
                                 "no successful exit leaves %s NULL while a capacity other than the constant 0 was recorded in %s%s"
                                 % (akey, ckey, "" if not bad else " -- but the exit at %s does: the next append trusts the capacity and writes through NULL" % bad[0]), loc=cloc)
                    except AnalysisBroken:
                        pass
    return n


def reset_with_array(chk, P, units=None, rule="R-CAPFIELD", records=("hwloc_topology",)):
    """third clause: a function that leaves an array field NULL (it released the array: destroy / clear paths) also leaves the paired
    capacity field 0 -- otherwise the next append, which compares the count with the recorded capacity, skips the allocation and
    writes through NULL.  Pairs (record, array, capacity) are the ones discovered at the allocation sites by run().
    Must-fact dataflow: at every exit where `X->A` was last assigned NULL on every path, `X->C` was last assigned 0 on every path."""
    import must
    n = 0
    for f in P.all_funcs():
        if units is not None and os.path.basename(f.file) not in units:
            continue
        if f.entry is None:
            continue
        sites = []
        for x in f.walk():
            a = assigned(x)
            if a and a[1] == "=" and a[2] is not None and cval(strip(a[2])) == 0:
                t = strip(a[0])
                if t["k"] == "Member":
                    for (rec, af, cf) in PAIRS:
                        # only records that outlive the release and are used again without being re-initialised: the topology itself
                        # (hwloc_topology_clear() + a second load); an infos block of an object that is about to be freed is not reused
                        if rec in records and t.get("rec") == rec and t["f"] == af and lv(t["c"][0]):
                            sites.append((x, lv(t["c"][0]), af, cf))
        if not sites:
            continue
        m = must.Must(f).run()
        exits = [r for r in returns(f)]
        states = [m.before.get(r["id"]) for r in exits if m.before.get(r["id"]) is not None]
        if f.exit in m.inb and not exits:
            states.append(m.inb[f.exit])
        done = set()
        for (x, owner, af, cf) in sites:
            if (owner, af) in done:
                continue
            done.add((owner, af))
            akey, ckey = "%s->%s" % (owner, af), "%s->%s" % (owner, cf)
            bad = None
            for st in states:
                null_here = any(fc[0] == "asg" and fc[1] == akey and fc[2] in ("0", "NULL", "((void *)0)") for fc in st)
                zero_cap = any(fc[0] == "asg" and fc[1] == ckey and fc[2] == "0" for fc in st)
                if null_here and not zero_cap:
                    bad = True
            n += 1
            chk.inst(rule, f, "%s/%s:reset-together" % (akey, cf), not bad,
                     "%s is left NULL by this function: %s is left 0 as well%s" % (akey, ckey, "" if not bad else
                     " -- but an exit is reached with the array NULL and the recorded capacity untouched: after the next initialisation-free reuse, an append trusts the capacity and writes through NULL"), loc=f.loc(x))
    return n
