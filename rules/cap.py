"""R-CAP: capacity-bounded index.  Forward dataflow over a difference domain: for pairs
(index lvalue n, capacity expression cap) the state holds a proven lower bound k of (cap - n).

Obligations: an element access A[idx] where A's capacity is known
   * fixed-size array (type T[N])                         cap = N
   * heap array allocated in the function as E*sizeof / calloc(E, ..)   cap = E
   * caller-capacity out-array named in the rule's table  cap = the capacity parameter / cached *nrp
needs  idx = n + j  with  k(n, cap) >= j + 1  on every path (idx forms: n, n+j, n-j, n++, ++n, constants).
memmove/memcpy(&A[a], &A[b], m * sizeof A[0]) needs  k(m, cap) >= max(a, b).
Capacities are assumed non-negative (they are element counts).
Index expressions of other shapes (i*n+j, computed offsets) are out of scope and are counted as such."""
from prog import *

NEG = -3          # below this a bound is dropped
TOP = 1 << 20


def capkey(n):
    n = strip(n)
    v = cval(n)
    if v is not None:
        return "#%d" % v
    k = lv(n)
    if k is not None:
        return k
    return src(n)


def nside(n):
    """n-side of a comparison: lvalue (+/- const) -> (key, c) meaning key + c ; else None"""
    n = strip(n)
    if n is None:
        return None
    k = lv(n)
    if k is not None and cval(n) is None:
        return (k, 0)
    if n["k"] == "Binary" and n["op"] in ("+", "-"):
        a, b = strip(n["c"][0]), strip(n["c"][1])
        if lv(a) is not None and cval(a) is None and cval(b) is not None:
            return (lv(a), cval(b) if n["op"] == "+" else -cval(b))
        if n["op"] == "+" and lv(b) is not None and cval(b) is None and cval(a) is not None:
            return (lv(b), cval(a))
    return None


def idents(text):
    import re
    return set(re.findall(r"[A-Za-z_][A-Za-z_0-9]*", text))


class CapFlow(Flow):
    def __init__(self, func, arrays, strict_arrays=()):
        """arrays: {array lvalue key: capkey}"""
        Flow.__init__(self, func)
        self.arrays = arrays
        self.strict = set(strict_arrays)
        # every (index key, capacity key) pair the function itself compares: the rule's scope
        self.cmp_pairs = set()
        self.allcaps = set(arrays.values())
        for n in func.walk():
            if n["k"] == "Sub":
                t = func.type_of(strip(n["c"][0]))
                if t and "arr" in t:
                    self.allcaps.add("#%d" % t["arr"])
        for b, blk in func.blocks.items():
            if blk.get("tc") is None:
                continue
            cond = branch_cond(func, blk)
            for truth in (True, False):
                for atom, t in edge_facts(cond, truth):
                    l, op, r = rel(atom, t)
                    if strip(atom)["k"] != "Binary":
                        continue
                    for (a, bb) in ((l, r), (r, l)):
                        ns = nside(a)
                        if ns is not None:
                            ck = capkey(bb)
                            nb = nside(bb)
                            if nb is not None and nb[1] != 0:
                                ck = nb[0]
                            if ns[0] not in idents(ck):
                                self.cmp_pairs.add((ns[0], ck))
                                self.allcaps.add(ck)
        self.obl = {}        # construct -> (ok, detail, loc)
        self.unscoped = 0
        self._ord = {}

    def init(self):
        return {}

    THRESH = (TOP, 4096, 1024, 256, 128, 127, 126, 64, 32, 16, 8, 7, 6, 5, 4, 3, 2, 1, 0, -1, -2, -3)

    def join(self, a, b):
        out = {}
        for k in a:
            if k in b:
                m = min(a[k], b[k])
                if m < a[k]:
                    # widening: a decreasing bound drops to the next threshold so that loops converge
                    m = max(t for t in self.THRESH if t <= m) if m >= NEG else NEG - 1
                if m >= NEG:
                    out[k] = m
        return out

    def setk(self, st, pair, k):
        if k < NEG:
            st.pop(pair, None)
        else:
            st[pair] = min(k, TOP)

    def kill_var(self, st, key):
        """key assigned with an unknown value"""
        dead = [p for p in st if p[0] == key or key in idents(p[1]) or p[0].startswith(key + "->") or p[0].startswith(key + ".")]
        for p in dead:
            del st[p]

    def edge(self, st, blk, cond, truth):
        if not isinstance(truth, bool):
            return st
        new = None
        for atom, t in edge_facts(cond, truth):
            l, op, r = rel(atom, t)
            for (a, o, b) in ((l, op, r), (r, SWAP[op], l)):
                ns = nside(a)
                if ns is None:
                    continue
                key, c = ns
                ck = capkey(b)
                nb = nside(b)
                if nb is not None and nb[1] != 0:
                    # n + c OP m + c2  ==  n + (c - c2) OP m
                    ck = nb[0]
                    c = c - nb[1]
                if key in idents(ck):
                    continue
                pair = (key, ck)
                cur = (new if new is not None else st).get(pair)
                k = None
                if o == "<":
                    k = c + 1
                elif o == "<=":
                    k = c
                elif o == "==":
                    k = c          # exactly: cap - n == c
                elif o == "!=":
                    if cur is not None and cur == c:
                        k = c + 1
                if k is not None and (cur is None or k > cur):
                    if new is None:
                        new = dict(st)
                    self.setk(new, pair, k)
        return new if new is not None else st

    def elem(self, st, n):
        f = self.f
        k = n["k"]
        if k == "Sub":
            self.check_sub(st, n)
            return st
        if k == "Call":
            fn = n.get("fn")
            if fn in ("memmove", "memcpy"):
                self.check_mem(st, n)
            new = None
            for a in args(n):
                a2 = strip(a)
                if a2 is not None and a2["k"] == "Unary" and a2["op"] == "&":
                    key = lv(a2["c"][0])
                    if key and any(p[0] == key or key in idents(p[1]) for p in st):
                        if new is None:
                            new = dict(st)
                        self.kill_var(new, key)
            return new if new is not None else st
        if k == "DeclStmt":
            new = None
            for v in n["c"]:
                init = v["c"][0] if v.get("c") else None
                new = self.assign(new if new is not None else st, v["n"], "=", init, new is not None)
            return new if new is not None else st
        a = assigned(n)
        if a is not None:
            tgt, op, rhs = a
            key = lv(tgt)
            if key is None:
                return st
            return self.assign(st, key, op, rhs, False)
        return st

    def assign(self, st, key, op, rhs, owned):
        relevant = any(p[0] == key or key in idents(p[1]) or p[0].startswith(key + "->") or p[0].startswith(key + ".") for p in st)
        caps = self.allcaps
        r = strip(rhs) if rhs is not None else None
        rv = cval(r) if r is not None else None
        if not relevant and not (op == "=" and (rv is not None or (r is not None and nside(r) is not None))):
            return st
        new = st if owned else dict(st)
        # facts whose capacity mentions key die
        for p in [p for p in new if key in idents(p[1])]:
            del new[p]
        mine = [p for p in new if p[0] == key]
        if op in ("++", "--") or (op in ("+=", "-=") and rv is not None):
            d = 1 if op in ("++", "--") else rv
            if op in ("--", "-="):
                d = -d
            for p in mine:
                self.setk(new, p, new[p] - d)
            for p in [p for p in new if p[0].startswith(key + "->") or p[0].startswith(key + ".")]:
                del new[p]
            return new
        # plain assignment
        for p in [p for p in new if p[0] == key or p[0].startswith(key + "->") or p[0].startswith(key + ".")]:
            del new[p]
        if op == "=" and r is not None:
            if rv is not None:
                for ck in caps | set(p[1] for p in st):
                    if ck.startswith("#"):
                        self.setk(new, (key, ck), int(ck[1:]) - rv)
                    elif rv == 0:
                        self.setk(new, (key, ck), 0)
            else:
                ns = nside(r)
                if ns is not None and ns[0] != key:
                    for p, kk in list(st.items()):
                        if p[0] == ns[0]:
                            self.setk(new, (key, p[1]), kk - ns[1])
        return new

    # ---- obligations
    def ordinal(self, n, tag):
        c = self._ord.get(n["id"])
        if c is None:
            self._ord[tag] = self._ord.get(tag, 0) + 1
            c = self._ord[n["id"]] = self._ord[tag]
        return c

    def array_cap(self, base):
        b = strip(base)
        t = self.f.type_of(b)
        if t and "arr" in t:
            return "#%d" % t["arr"], lv(b) or src(b)
        key = lv(b)
        if key is not None and key in self.arrays:
            return self.arrays[key], key
        return None, key

    def in_scope(self, key, ck):
        if ck == key + " + 1" or ck == key:
            return True
        if (key, ck) in self.cmp_pairs:
            return True
        for (a, mid) in self.cmp_pairs:
            if a == key and (mid, ck) in self.cmp_pairs:
                return True
        return False

    def bound(self, st, key, ck):
        """best proven lower bound of ck - key (direct, syntactic, or through one intermediate)"""
        best = st.get((key, ck))
        if ck == key + " + 1":
            best = max(best, 1) if best is not None else 1
        if ck == key:
            best = max(best, 0) if best is not None else 0
        for (a, mid), k1 in st.items():
            if a == key and mid != ck:
                k2 = st.get((mid, ck))
                if k2 is not None and (best is None or k1 + k2 > best):
                    best = k1 + k2
        return best

    def index_need(self, st, idx, ck):
        """-> (ok, text) or None if the index shape is out of scope"""
        i = strip(idx)
        v = cval(i)
        if v is not None:
            if ck.startswith("#"):
                return (0 <= v < int(ck[1:]), "constant index %d against capacity %s" % (v, ck[1:]))
            return None
        post = False
        if i["k"] == "Unary" and i["op"] in ("post++", "++", "post--", "--"):
            inner = lv(i["c"][0])
            if inner is None:
                return None
            if not (self.strict_now or self.in_scope(inner, ck)):
                return None
            kk = self.bound(st, inner, ck)
            # the element is evaluated after the increment took effect in our state
            need = 0 if i["op"] == "post++" else (1 if i["op"] == "++" else (2 if i["op"] == "post--" else 1))
            return (kk is not None and kk >= need, "%s: need %s - %s >= %d, proved %s" % (src(i), ck, inner, need, kk))
        ns = nside(i)
        if ns is None:
            return None
        key, j = ns
        if not (self.strict_now or self.in_scope(key, ck)):
            return None
        kk = self.bound(st, key, ck)
        return (kk is not None and kk >= j + 1, "index %s: need %s - %s >= %d, proved %s" % (src(i), ck, key, j + 1, kk if kk is not None else "nothing"))

    def check_sub(self, st, n):
        if not self.recording:
            return
        f = self.f
        ck, akey = self.array_cap(n["c"][0])
        if ck is None:
            return
        self.strict_now = akey in self.strict
        res = self.index_need(st, n["c"][1], ck)
        if res is None:
            self.unscoped += 1
            return
        ok, text = res
        strict = akey in self.strict or ck.startswith("#") or akey in self.arrays
        c = "%s[%s]#%d" % (akey, src(strip(n["c"][1])), self.ordinal(n, akey))
        self.obl[c] = (ok, text, f.loc(n))

    def check_mem(self, st, n):
        if not self.recording:
            return
        f = self.f
        a = args(n)
        if len(a) < 3:
            return
        def elem_of(x):
            x = strip(x)
            if x["k"] == "Unary" and x["op"] == "&" and strip(x["c"][0])["k"] == "Sub":
                s = strip(x["c"][0])
                return s["c"][0], cval(s["c"][1])
            return None, None
        b0, i0 = elem_of(a[0])
        b1, i1 = elem_of(a[1])
        if b0 is None or i0 is None:
            return
        ck, akey = self.array_cap(b0)
        if ck is None:
            return
        hi = i0
        if b1 is not None and i1 is not None and lv(strip(b1)) == lv(strip(b0)):
            hi = max(i0, i1)
        ln = strip(a[2])
        m = None
        if ln["k"] == "Binary" and ln["op"] == "*":
            for x, y in ((ln["c"][0], ln["c"][1]), (ln["c"][1], ln["c"][0])):
                if strip(y)["k"] == "SizeOf" or (cval(y) is not None and nside(x) is not None):
                    m = nside(x)
        c = "%s(&%s[%s],..)#%d" % (n.get("fn"), akey, i0, self.ordinal(n, "mem" + akey))
        if m is None:
            self.obl[c] = (False, "element count of the copy not recognised: %s" % src(ln), f.loc(n))
            return
        key, j = m
        kk = self.bound(st, key, ck)
        need = hi + j
        self.obl[c] = (kk is not None and kk >= need, "copy of (%s) elements at offset %d: need %s - %s >= %d, proved %s" % (src(ln["c"][0]), hi, ck, key, need, kk if kk is not None else "nothing"), f.loc(n))


def heap_arrays(f):
    """A = malloc(E * sizeof ..) / calloc(E, ..) / realloc(A, E * sizeof ..) in this function -> {A key: capkey}"""
    out = {}
    multi = set()
    alloc_line = {}
    def cap_of(call):
        fn = call.get("fn")
        a = args(call)
        def split(e):
            e = strip(e)
            if e["k"] == "Binary" and e["op"] == "*":
                for x, y in ((e["c"][0], e["c"][1]), (e["c"][1], e["c"][0])):
                    if strip(y)["k"] == "SizeOf":
                        return capkey(x)
            return None
        if fn in ("malloc",) and a:
            return split(a[0])
        if fn == "calloc" and len(a) == 2:
            return capkey(a[0]) if strip(a[1])["k"] == "SizeOf" else (capkey(a[1]) if strip(a[0])["k"] == "SizeOf" else None)
        if fn == "realloc" and len(a) == 2:
            return split(a[1])
        if fn in ("hwloc_tma_malloc", "hwloc_tma_calloc") and len(a) == 2:
            return split(a[1])
        return None
    for n in f.walk():
        tgt = rhs = None
        a = assigned(n)
        if a and a[1] == "=" and a[2] is not None:
            tgt, rhs = lv(a[0]), strip(a[2])
        elif n["k"] == "Var" and n.get("c") and n["c"][0] is not None:
            tgt, rhs = n["n"], strip(n["c"][0])
        if tgt is None or rhs is None or rhs["k"] != "Call":
            continue
        ck = cap_of(rhs)
        if ck is None:
            continue
        if tgt in out and out[tgt] != ck:
            multi.add(tgt)
        out[tgt] = ck
        alloc_line[tgt] = rhs.get("l", 0)
    for m in multi:
        out.pop(m, None)
    # a capacity expression whose variables are re-assigned after the allocation no longer describes the array
    where = {}
    for n in f.walk():
        a = assigned(n)
        if a:
            k = lv(a[0])
            if k:
                where.setdefault(k, []).append(n.get("l", 0))
    for tgt in list(out):
        ck = out[tgt]
        al = alloc_line.get(tgt, 0)
        for v in idents(ck):
            if any(l > al for l in where.get(v, ())):
                out.pop(tgt, None)
                break
    return out


def run(chk, P, unit, funcs=None, out_arrays=None, rule="R-CAP", exceptions=None):
    """out_arrays: {function: {array key: capacity key}}; exceptions: {(function, array key): reason}"""
    out_arrays = out_arrays or {}
    exceptions = exceptions or {}
    n_obl = 0
    n_unscoped = 0
    for f in P.unit(unit).funcs(only_main=True):
        if funcs is not None and f.name not in funcs:
            continue
        if f.entry is None:
            continue
        arrays = heap_arrays(f)
        arrays.update(out_arrays.get(f.name, {}))
        has_fixed = any((f.type_of(strip(n["c"][0])) or {}).get("arr") for n in f.walk() if n["k"] == "Sub")
        if not arrays and not has_fixed:
            continue
        fl = CapFlow(f, arrays, strict_arrays=out_arrays.get(f.name, {}).keys())
        fl.run()
        n_unscoped += fl.unscoped
        for c, (ok, text, loc) in sorted(fl.obl.items()):
            akey = c.split("[")[0].split("(&")[-1]
            exc = exceptions.get((f.name, akey))
            if not ok and exc:
                chk.inst(rule, f, c, True, "frozen exception: %s (%s)" % (exc, text), loc=loc, nontrivial=False)
            else:
                chk.inst(rule, f, c, ok, text, loc=loc)
            n_obl += 1
    return n_obl, n_unscoped
