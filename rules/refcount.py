"""R-INITFINI: the process-wide component reference count is released only by who holds a reference.

Every call of hwloc_components_fini() is preceded, on every path to it inside the same function, by a call that took a
reference (hwloc_components_init(), or hwloc__topology_init()/hwloc__topology_dup() which take one for the topology they set up),
except in the frozen owners that release the reference held by a topology they tear down.  An unbalanced fini on an error path
takes a reference away from an unrelated live topology: its components and XML callbacks are torn down under it."""
from prog import *
import must

ACQUIRE = ("hwloc_components_init", "hwloc__topology_init", "hwloc__topology_dup")
OWNERS = {
    "hwloc_topology_destroy": "releases the reference taken by hwloc__topology_init() for this topology",
    "hwloc__topology_disadopt": "releases the reference taken by hwloc_shmem_topology_adopt() for the adopted topology",
}


def run(chk, P, rule="R-INITFINI"):
    n = 0
    for f in P.all_funcs():
        fin = list(f.calls("hwloc_components_fini"))
        if not fin or f.entry is None or f.name == "hwloc_components_fini":
            continue
        m = must.Must(f, track_calls=set(ACQUIRE)).run()
        k = 0
        for c in fin:
            k += 1
            n += 1
            st = m.before.get(c["id"], frozenset())
            held = sorted(set(x[1] for x in st if x[0] == "call" and x[1] in ACQUIRE))
            if held:
                chk.inst(rule, f, "fini#%d" % k, True, "a reference was taken on every path to this release (%s)" % ", ".join(held), loc=f.loc(c))
            elif f.name in OWNERS:
                chk.inst(rule, f, "fini#%d" % k, True, "frozen owner: %s" % OWNERS[f.name], loc=f.loc(c), nontrivial=False)
            else:
                chk.inst(rule, f, "fini#%d" % k, False, "hwloc_components_fini() is reachable on a path where this function took no reference (no hwloc_components_init/hwloc__topology_init/hwloc__topology_dup before it): "
                         "the reference of another live topology is dropped", loc=f.loc(c))
    return n
