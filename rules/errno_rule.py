"""R-ERRNO: on every path to a failure return errno has been set: directly, by a callee that failed and sets errno
itself (same rule, applied recursively / libc allocators), before the return."""
from prog import *
import must, peval

ALLOC = {"malloc", "calloc", "realloc", "strdup", "hwloc_bitmap_alloc", "hwloc_bitmap_dup", "hwloc_bitmap_alloc_full",
         "hwloc_tma_malloc", "hwloc_tma_calloc", "hwloc_tma_strdup", "hwloc_alloc_setup_object", "fopen", "opendir"}


class ErrSet(must.Must):
    def __init__(self, func, errno_funcs):
        must.Must.__init__(self, func)
        self.errno_funcs = errno_funcs

    def elem(self, st, n):
        a = assigned(n)
        if a is not None and peval.is_errno_lv(a[0]):
            return st | {("E", "errno set", frozenset())}
        return must.Must.elem(self, st, n)

    def _from_call(self, st, text):
        """name of the function whose result `text` holds, per the asg facts"""
        for f in st:
            if f[0] == "asg" and f[1] == text:
                return f[2].split("(")[0]
        return None

    def edge(self, st, blk, cond, truth):
        st2 = must.Must.edge(self, st, blk, cond, truth)
        if not isinstance(truth, bool):
            return st2
        for atom, t in edge_facts(cond, truth):
            l, op, r = rel(atom, t)
            ls = strip(l)
            # failed callee: x < 0 / x == -1 / !x / x != 0 where x is a call result or the call itself
            callee = None
            if ls["k"] == "Call":
                callee = ls.get("fn")
            else:
                k = lv(ls)
                if k:
                    callee = self._from_call(st, k)
            if callee is None:
                continue
            rv = cval(r)
            failed = False
            if callee in ALLOC:
                failed = (op == "==" and rv == 0)
            elif callee in self.errno_funcs:
                failed = (op == "<" and rv == 0) or (op == "==" and rv == -1) or (op == "!=" and rv == 0) or (op == "<=" and rv == -1) or (op == "==" and rv == 0 and self.errno_funcs[callee] == "ptr")
            if failed:
                st2 = st2 | {("E", "errno set", frozenset())}
        return st2


def check(chk, P, funcs, errno_funcs, rule="R-ERRNO", unit=None, fail=lambda v, ptr: (v == 0) if ptr else (v is not None and v < 0)):
    """funcs: names; errno_funcs: {callee name: 'int'|'ptr'} functions that set errno whenever they fail"""
    n = 0
    for name in funcs:
        f = P.need_func(name, unit)
        ptr = bool(f.unit.types[f.d["ret"]].get("ptr"))
        m = ErrSet(f, errno_funcs).run()
        k = 0
        for r in returns(f):
            st = m.before.get(r["id"])
            if st is None:
                continue
            e = r["c"][0] if r.get("c") else None
            v = cval(e)
            if v is None and e is not None and strip(e)["k"] == "Call" and strip(e).get("fn") in errno_funcs:
                continue     # return g(...): g's own business
            if not fail(v, ptr):
                continue
            k += 1
            n += 1
            ok = any(fct[0] == "E" for fct in st)
            chk.inst(rule, f, "failure-return#%d" % k, ok, "failure return must be preceded on every path by an errno assignment or a failed errno-setting callee", loc=f.loc(r))
    return n
