"""Rules for topology diffs (C16)."""
from prog import *
import must, peval


def producers_nonnull(chk, P, rule="R-NULLFIELD"):
    """every hwloc_append_diff_obj_attr_string(.., name, old, new, ..) call passes old/new values (and name for INFO)
    proved non-NULL on that path: apply and export dereference them unconditionally"""
    u = P.unit("diff.c")
    n = 0
    for f in u.funcs(only_main=True):
        calls = list(f.calls("hwloc_append_diff_obj_attr_string"))
        if not calls:
            continue
        m = must.Must(f).run()
        for i, c in enumerate(calls):
            st = m.before.get(c["id"])
            if st is None:
                continue
            a = args(c)
            typ = cval(a[2])
            for idx, what in ((4, "oldvalue"), (5, "newvalue"), (3, "name")):
                x = strip(a[idx])
                if what == "name" and cval(x) == 0:
                    # NULL name is right for NAME entries only
                    ok = typ is not None and typ != u.enum_consts.get("HWLOC_TOPOLOGY_DIFF_OBJ_ATTR_INFO")
                    chk.inst(rule, f, "append#%d:%s" % (i + 1, what), ok, "name argument is NULL: allowed for non-INFO entries only (type %s)" % typ, loc=f.loc(c))
                    n += 1
                    continue
                txt = src(x)
                ok = x["k"] == "Str" or must.nonnull(st, txt)
                if not ok:
                    # already dereferenced on every path (handed to strcmp/strlen before): the same belief the code relies on
                    for fct in st:
                        if fct[0] == "call" and fct[1] in ("strcmp", "strlen", "strncmp", "strdup") and txt in fct[2]:
                            ok = True
                chk.inst(rule, f, "append#%d:%s" % (i + 1, what), ok,
                         "%s argument `%s` must be proved non-NULL on every path to this call (consumers strdup/strcmp/export it unconditionally)" % (what, txt), loc=f.loc(c))
                n += 1
    return n


def cancel_symmetry(chk, P, rule="R-REVERSE"):
    """hwloc_topology_diff_apply: the roll-back loop re-applies with exactly the REVERSE bit flipped, walks from the first
    entry to the failing one (exclusive) and returns -nr with errno EINVAL"""
    f = P.need_func("hwloc_topology_diff_apply", "diff.c")
    u = f.unit
    R = u.enum_consts.get("HWLOC_TOPOLOGY_DIFF_APPLY_REVERSE")
    if R is None:
        chk.broke("HWLOC_TOPOLOGY_DIFF_APPLY_REVERSE vanished")
        return
    calls = list(f.calls("hwloc_apply_diff_one"))
    if not chk.need(len(calls) == 2, "R-REVERSE: expected a forward and a roll-back call of hwloc_apply_diff_one, found %d" % len(calls)):
        return
    calls.sort(key=lambda c: c.get("l", 0))
    fwd, back = calls
    res = {}
    for name, c in (("forward", fwd), ("rollback", back)):
        for fl in (0, R):
            res[(name, fl)] = peval.Evaluator(f, {"flags": fl}).ev(args(c)[2])
    ok = all(res[("forward", fl)] == fl for fl in (0, R)) and all(res[("rollback", fl)] == (fl ^ R) for fl in (0, R))
    chk.inst(rule, f, "rollback-flags", ok, "forward call gets flags, roll-back call gets flags with exactly the REVERSE bit flipped (evaluated for flags in {0, REVERSE}: %s)" % sorted((k, v) for k, v in res.items()), loc=f.loc(back))
    # roll-back loop bounds: while (tmpdiff != failing entry)
    loops = [n for n in f.walk() if n["k"] == "While"]
    okl = False
    for w in loops:
        c = strip(w["c"][0])
        if c["k"] == "Binary" and c["op"] == "!=" and any(x["id"] == back["id"] for x in subnodes(w)):
            okl = True
    chk.inst(rule, f, "rollback-range", okl, "roll-back loop runs while the cursor differs from the failing entry (exclusive upper end)")
    rets = [r for r in returns(f)]
    neg = [r for r in rets if r.get("c") and strip(r["c"][0])["k"] == "Unary" and strip(r["c"][0])["op"] == "-" and lv(strip(r["c"][0])["c"][0]) is not None]
    chk.inst(rule, f, "returns-minus-index", len(neg) == 1, "the failure exit returns -<counter> (found %d such returns)" % len(neg))
    if neg:
        cnt = lv(strip(neg[0]["c"][0])["c"][0])
        # counter incremented before each forward attempt
        m = must.Must(f).run()
        b, i = f.elem_block[fwd["id"]]
        inc_before = False
        for e in f.blocks[b]["e"][:i]:
            a = assigned(f.nodes[e])
            if a and lv(a[0]) == cnt and a[1] in ("++", "+="):
                inc_before = True
        chk.inst(rule, f, "index-counts-attempts", inc_before, "%s is incremented before each forward hwloc_apply_diff_one attempt" % cnt)


def apply_arms_symmetric(chk, P, rule="R-REVERSE"):
    """hwloc_apply_diff_one: in each arm old/new are selected by opposite senses of `reverse`"""
    f = P.need_func("hwloc_apply_diff_one", "diff.c")
    pairs = {}
    for n in f.walk():
        if n["k"] == "Cond" and lv(strip(n["c"][0])) == "reverse":
            t, e = strip(n["c"][1]), strip(n["c"][2])
            if t["k"] == "Member" and e["k"] == "Member":
                par = f.par(n)
                tgt = None
                while par is not None and tgt is None:
                    if par["k"] == "Var":
                        tgt = par["n"]
                    a = assigned(par)
                    if a:
                        tgt = lv(a[0])
                    par = f.par(par)
                pairs.setdefault(n.get("l"), []).append((tgt, t["f"], e["f"]))
    sel = [x for v in pairs.values() for x in v]
    olds = [x for x in sel if x[0] and "old" in x[0]]
    news = [x for x in sel if x[0] and "new" in x[0]]
    ok = len(olds) >= 2 and len(olds) == len(news)
    ok = ok and all(x[1] == "newvalue" and x[2] == "oldvalue" for x in olds) and all(x[1] == "oldvalue" and x[2] == "newvalue" for x in news)
    chk.inst(rule, f, "arms-select-opposite", ok, "%d arms: `old* = reverse ? newvalue : oldvalue` and `new* = reverse ? oldvalue : newvalue` (%s)" % (len(olds), sel))
