"""Rules for topology diffs (C16)."""
from prog import *
import must, peval


def producers_nonnull(chk, P, rule="R-NULLFIELD"):
    """every hwloc_append_diff_obj_attr_string(.., name, old, new, ..) call passes old/new values (and name for INFO)
    proved non-NULL on that path: apply and export dereference them unconditionally"""
    u = P.unit("diff.c")
    n = 0
    for f in u.funcs(only_main=True):
        calls = list(f.calls("hwloc_append_diff_obj_attr_string"))
        if not calls:
            continue
        m = must.Must(f).run()
        for i, c in enumerate(calls):
            st = m.before.get(c["id"])
            if st is None:
                continue
            a = args(c)
            typ = cval(a[2])
            for idx, what in ((4, "oldvalue"), (5, "newvalue"), (3, "name")):
                x = strip(a[idx])
                if what == "name" and cval(x) == 0:
                    # NULL name is right for NAME entries only
                    ok = typ is not None and typ != u.enum_consts.get("HWLOC_TOPOLOGY_DIFF_OBJ_ATTR_INFO")
                    chk.inst(rule, f, "append#%d:%s" % (i + 1, what), ok, "name argument is NULL: allowed for non-INFO entries only (type %s)" % typ, loc=f.loc(c))
                    n += 1
                    continue
                txt = src(x)
                ok = x["k"] == "Str" or must.nonnull(st, txt)
                if not ok:
                    # already dereferenced on every path (handed to strcmp/strlen before): the same belief the code relies on
                    for fct in st:
                        if fct[0] == "call" and fct[1] in ("strcmp", "strlen", "strncmp", "strdup") and txt in fct[2]:
                            ok = True
                chk.inst(rule, f, "append#%d:%s" % (i + 1, what), ok,
                         "%s argument `%s` must be proved non-NULL on every path to this call (consumers strdup/strcmp/export it unconditionally)" % (what, txt), loc=f.loc(c))
                n += 1
    return n


def cancel_symmetry(chk, P, rule="R-REVERSE"):
    """hwloc_topology_diff_apply: the roll-back re-applies with exactly the REVERSE bit flipped, walks from the first entry
    to the failing one (exclusive) and the failure exit returns minus the 1-based index of the failing entry.
    Decided by evaluation (named temporaries resolved, any loop form), not by the shape of the statements."""
    import extent
    f = P.need_func("hwloc_topology_diff_apply", "diff.c")
    u = f.unit
    R = u.enum_consts.get("HWLOC_TOPOLOGY_DIFF_APPLY_REVERSE")
    if R is None:
        chk.broke("HWLOC_TOPOLOGY_DIFF_APPLY_REVERSE vanished")
        return
    calls = list(f.calls("hwloc_apply_diff_one"))
    if not chk.need(len(calls) == 2, "R-REVERSE: expected a forward and a roll-back call of hwloc_apply_diff_one, found %d" % len(calls)):
        return
    calls.sort(key=lambda c: (c.get("l", 0), c["id"]))
    fwd, back = calls
    defs = extent.single_defs(f)
    def resolve(e):
        e = strip(e)
        for _ in range(3):
            if e["k"] == "Ref" and e["n"] in defs:
                e = strip(defs[e["n"]])
        return e
    res = {}
    for name, c in (("forward", fwd), ("rollback", back)):
        for fl in (0, R):
            res[(name, fl)] = peval.Evaluator(f, {"flags": fl}).ev(resolve(args(c)[2]))
    ok = all(res[("forward", fl)] == fl for fl in (0, R)) and all(res[("rollback", fl)] == (fl ^ R) for fl in (0, R))
    chk.inst(rule, f, "rollback-flags", ok, "forward call gets flags, roll-back call gets flags with exactly the REVERSE bit flipped (evaluated for flags in {0, REVERSE}: %s)" % sorted((k, v) for k, v in res.items()), loc=f.loc(back))
    # roll-back range: the roll-back call sits in a loop (while/for/do) that runs while its cursor differs from another entry pointer
    okl = False
    p = f.par(back)
    while p is not None:
        if p["k"] in ("While", "For", "Do"):
            conds = [p["c"][0]] if p["k"] == "While" else ([p["c"][1]] if p["k"] == "For" else [p["c"][-1]])
            for c in conds:
                c = strip(c) if c is not None else None
                if c is not None and c["k"] == "Binary" and c["op"] == "!=" and lv(c["c"][0]) and lv(c["c"][1]) and lv(c["c"][0]) == lv(args(back)[1]):
                    okl = True
            break
        p = f.par(p)
    chk.inst(rule, f, "rollback-range", okl, "the roll-back call runs in a loop while its cursor differs from the failing entry (exclusive upper end)", loc=f.loc(back))
    # failure exit: with every hwloc_apply_diff_one forced to fail, the first entry fails: the function returns exactly -1
    try:
        out = peval.PathEval(P, f, {"topology->state": u.enum_consts.get("HWLOC_TOPOLOGY_STATE_IS_LOADED", 8), "topology->adopted_shmem_addr": 0, "flags": 0, "diff": 1},
                             is_effect=lambda *a: False, through_effects=True, call_values={"hwloc_apply_diff_one": -1}, exact_counters=True, maxstates=20000).run()
        vals = sorted(set(t[1] for t in out.terminals if t[0] == "return"), key=str)
        chk.inst(rule, f, "returns-minus-index", vals == [-1], "when the first entry fails to apply the function returns -1, minus its 1-based index (explored with every hwloc_apply_diff_one forced to fail: returns %s)" % vals)
    except AnalysisBroken as e:
        chk.broke("%s: hwloc_topology_diff_apply not evaluable (%s)" % (rule, e))


def apply_arms_symmetric(chk, P, rule="R-REVERSE"):
    """hwloc_apply_diff_one: every read of an entry's oldvalue/newvalue depends on `reverse` (it is an arm of `reverse ? a : b` or
    sits under a test of reverse): a raw read is right for one direction only.  Where the ?: idiom is used, old* and new* select
    opposite arms."""
    f = P.need_func("hwloc_apply_diff_one", "diff.c")
    m = must.Must(f).run()
    n = 0
    bad = []
    for x in f.walk():
        if x["k"] == "Member" and x["f"] in ("oldvalue", "newvalue"):
            n += 1
            dep = False
            p, child = f.par(x), x
            while p is not None:
                if p["k"] == "Cond" and p["c"][0] is not child and "reverse" in refs(p["c"][0]):
                    dep = True
                    break
                child = p
                p = f.par(p)
            if not dep:
                y = x
                while y is not None and y["id"] not in m.before:
                    y = f.par(y)
                st = m.before.get(y["id"], frozenset()) if y is not None else frozenset()
                dep = any(fct[0] in ("T", "F", "R") and "reverse" in fct[-1] for fct in st)
            if not dep:
                bad.append(f.loc(x))
    chk.inst(rule, f, "reads-depend-on-reverse", not bad and n >= 4, "%d reads of oldvalue/newvalue, each selected by `reverse`%s" % (n, "" if not bad else " -- raw reads at %s" % bad[:4]))
    pairs = {}
    for n2 in f.walk():
        if n2["k"] == "Cond" and lv(strip(n2["c"][0])) == "reverse":
            t, e = strip(n2["c"][1]), strip(n2["c"][2])
            if t["k"] == "Member" and e["k"] == "Member":
                par = f.par(n2)
                tgt = None
                while par is not None and tgt is None:
                    if par["k"] == "Var":
                        tgt = par["n"]
                    a2 = assigned(par)
                    if a2:
                        tgt = lv(a2[0])
                    par = f.par(par)
                pairs.setdefault(n2.get("l"), []).append((tgt, t["f"], e["f"]))
    sel = [x for v in pairs.values() for x in v]
    if len(sel) >= 2:
        olds = [x for x in sel if x[1] == "newvalue" and x[2] == "oldvalue"]
        news = [x for x in sel if x[1] == "oldvalue" and x[2] == "newvalue"]
        ok = len(olds) == len(news) and len(olds) + len(news) == len(sel)
        chk.inst(rule, f, "arms-select-opposite", ok, "%d selections by `reverse ? : `: as many `reverse ? newvalue : oldvalue` (%d) as `reverse ? oldvalue : newvalue` (%d)" % (len(sel), len(olds), len(news)))

