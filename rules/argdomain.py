"""R-ARGDOMAIN: a number converted from input text reaches a callee's parameter only inside the domain the public entry point enforces.

The public wrapper of an internal function normalises a parameter before handing it on (hwloc_cpukinds_register():
`if (forced_efficiency < 0) forced_efficiency = HWLOC_CPUKIND_EFFICIENCY_UNKNOWN;` in front of hwloc_internal_cpukinds_register()).
The NORMALISATION is discovered by evaluation: the wrapper is explored with the parameter seeded to an out-of-range probe (-5)
and the value that reaches the internal call is observed (-1): the internal function is therefore only ever given values in
{normalised probe} U [0, ...) by the API.  Every other caller that passes a local converted from text (atoi, strtol ...) is explored with
the conversion returning the probe; the probe itself must not reach the call."""
from prog import *
import peval

PROBE = -5
CONV = {"atoi", "atol", "strtol", "strtoul", "strtoull", "strtoll"}


def run(chk, P, callee, argidx, wrapper, wrapper_unit, units, rule="R-ARGDOMAIN"):
    w = P.need_func(wrapper, wrapper_unit)
    wcalls = [c for c in w.calls((callee,))]
    if not chk.need(bool(wcalls), "%s: %s no longer calls %s" % (rule, wrapper, callee)):
        return 0
    a0 = strip(args(wcalls[0])[argidx])
    if not chk.need(a0 is not None and a0["k"] == "Ref", "%s: %s does not pass a plain variable as argument %d of %s" % (rule, wrapper, argidx, callee)):
        return 0
    seen = []
    def obs(nd, env):
        if nd["id"] == wcalls[0]["id"]:
            seen.append(peval.Evaluator(w, env).ev(args(nd)[argidx]))
    env = {a0["n"]: PROBE}
    for p in w.params:
        t = w.unit.types[p["t"]]
        if p["n"] != a0["n"] and not t.get("ptr") and "w" in t:
            env[p["n"]] = 0
    peval.PathEval(P, w, env, is_effect=lambda *z: False, through_effects=True, observe=obs, track=set(env), maxstates=50000).run()
    norm = set(seen)
    if not chk.need(bool(norm) and None not in norm and PROBE not in norm, "%s: %s does not normalise an out-of-range %s before calling %s (values reaching the call with the probe %d: %s)" % (rule, wrapper, a0["n"], callee, PROBE, sorted(map(str, norm)))):
        return 0
    n = 0
    for u in units:
        for f in P.unit(u).funcs(only_main=True):
            if f.entry is None or f.name == wrapper:
                continue
            for c in f.calls((callee,)):
                a = strip(args(c)[argidx]) if len(args(c)) > argidx else None
                if a is None or a["k"] != "Ref":
                    continue
                conv = False
                for x in f.walk():
                    aa = assigned(x)
                    if aa and aa[1] == "=" and aa[2] is not None and lv(aa[0]) == a["n"]:
                        r = strip(aa[2])
                        if r is not None and r["k"] == "Call" and r.get("fn") in CONV:
                            conv = True
                if not conv:
                    continue
                got = []
                def obs2(nd, env, c=c, f=f, got=got):
                    if nd["id"] == c["id"]:
                        got.append(peval.Evaluator(f, env).ev(args(nd)[argidx]))
                try:
                    peval.PathEval(P, f, {}, is_effect=lambda *z: False, through_effects=True, observe=obs2, call_values={k: PROBE for k in CONV}, track={a["n"]}, maxstates=100000).run()
                except AnalysisBroken as ex:
                    chk.broke("%s: %s not evaluable (%s)" % (rule, f.name, ex))
                    continue
                n += 1
                bad = PROBE in got
                chk.inst(rule, f, "%s(arg%d=%s)" % (callee, argidx, a["n"]), not bad,
                         "%s() normalises an out-of-range value (%d becomes %s) before %s(); `%s` comes from a text conversion here: with the conversion returning %d the call is reached with %s"
                         % (wrapper, PROBE, sorted(norm), callee, a["n"], PROBE, "a normalised value only" if not bad else "%d itself: the internal function stores a value the API never produces (ranked as a huge unsigned efficiency)" % PROBE), loc=f.loc(c))
    return n
