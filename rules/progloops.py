"""R-PROG: loop progress.  For loops whose condition reads only scalar locals/parameters (no calls, no
memory dereference): every CFG path from the loop body back to the loop condition must change the state
the loop carries: assign a variable that is live at the loop head, store to memory, or call a function
that may have a side effect.  A path that returns to the condition having changed nothing that the next
iteration can observe repeats forever."""
from prog import *
import peval

NOEFFECT = set(peval.PURE) | {"hwloc_debug"}


def cond_vars(f, cond):
    """-> set of (name, did) if the condition is in scope (only scalar locals/params), else None"""
    out = set()
    for n in subnodes(cond):
        k = n["k"]
        if k in ("Call", "StmtExpr"):
            return None
        if k == "Member" or k == "Sub" or (k == "Unary" and n["op"] == "*"):
            return None
        if assigned(n) is not None:
            return None     # condition with side effect makes its own progress
        if k == "Ref":
            if n.get("dk") in ("local", "param"):
                out.add((n["n"], n["did"]))
            elif n.get("dk") in ("enum", "func"):
                pass
            else:
                return None
    return out


def run(chk, P, units, rule="R-PROG", only_funcs=None):
    nloops = 0
    for u in units:
        for f in P.unit(u).funcs(only_main=True):
            if only_funcs is not None and f.name not in only_funcs:
                continue
            if f.entry is None:
                continue
            ordn = 0
            for loop in f.walk():
                if loop["k"] not in ("While", "For", "Do"):
                    continue
                cond = loop["c"][0] if loop["k"] == "While" else (loop["c"][1] if loop["k"] == "For" else loop["c"][1])
                if cond is None:
                    continue
                if cval(cond) is not None:
                    continue      # while(1): leaves by break/return; do{}while(0)
                vs = cond_vars(f, cond)
                if not vs:
                    continue
                # head block = block whose terminator is this loop statement
                heads = [b for b, blk in f.blocks.items() if blk.get("t") == loop["id"]]
                if not heads:
                    continue
                ordn += 1
                nloops += 1
                dids = set(d for _, d in vs)
                names = set(n for n, _ in vs)
                live = f.liveness()
                dom = f.dominators()
                carried = set(dids)
                for H in heads:
                    carried |= live.get(H, set())
                inloop = set(b for b in f.blocks if b in dom and any(H in dom[b] for H in heads))
                # blocks that make progress
                prog_blocks = set()
                for b in inloop:
                    blk = f.blocks[b]
                    for e in blk["e"]:
                        n = f.nodes[e]
                        a = assigned(n)
                        if a:
                            t = strip(a[0])
                            if t["k"] == "Ref" and t.get("dk") in ("local", "param"):
                                if t.get("did") in carried:
                                    prog_blocks.add(b)
                            elif not peval.local_store(f, a[0]):
                                prog_blocks.add(b)      # store to memory
                            else:
                                # store into a local aggregate: carried if the aggregate is live
                                r = t
                                while r["k"] in ("Member", "Sub"):
                                    r = strip(r["c"][0])
                                if r["k"] == "Ref" and r.get("did") in carried:
                                    prog_blocks.add(b)
                        if n["k"] == "Unary" and n["op"] == "&" and strip(n["c"][0])["k"] == "Ref" and strip(n["c"][0]).get("did") in carried:
                            prog_blocks.add(b)
                        if n["k"] == "DeclStmt":
                            for v in n["c"]:
                                if v.get("did") in dids:
                                    prog_blocks.add(b)
                        if n["k"] == "Call" and n.get("fn") not in NOEFFECT:
                            prog_blocks.add(b)
                bad = None
                for H in heads:
                    blk = f.blocks[H]
                    # the condition may be split over several blocks (&&, ||): all of them branch on the same statement
                    start = blk["s"][0] if blk["s"] else None
                    if loop["k"] == "Do":
                        start = blk["s"][0] if blk["s"] else None
                    if start is None:
                        continue
                    # search body entry -> any head, avoiding progress blocks
                    seen = set()
                    stack = [(start, (start,))]
                    while stack:
                        b, path = stack.pop()
                        if b in seen:
                            continue
                        seen.add(b)
                        if b in prog_blocks or (b not in inloop and b not in heads):
                            continue
                        if b in heads:
                            bad = path
                            break
                        for s in f.blocks[b]["s"]:
                            if s is not None:
                                stack.append((s, path + (s,) if len(path) < 30 else path))
                    if bad:
                        break
                detail = "loop on (%s) at %s" % (src(cond), f.loc(loop))
                if bad:
                    lines = []
                    for b in bad[:12]:
                        es = f.blocks[b]["e"]
                        if es:
                            lines.append(f.loc(f.nodes[es[0]]))
                    detail += ": a path through the body returns to the condition having changed nothing the next iteration can observe: no assignment to %s or to any other variable live at the loop head, no store, no call (blocks at %s)" % (sorted(names), ", ".join(lines))
                chk.inst(rule, f, "loop(%s)#%d" % (",".join(sorted(names)), ordn), bad is None, detail, loc=f.loc(loop))
    return nloops
