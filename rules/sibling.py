"""R-SIBLING: two walkers over the same objects (one counts the objects that pass a filter, the other returns the i-th of them)
must apply the SAME filter.  Decided by evaluation over the finite set of predicate valuations:

  * atoms: the predicate calls made inside the loop of either function (hwloc_bitmap_iszero(obj->cpuset), hwloc_bitmap_intersects(
    obj->cpuset, cpuset), ...), keyed by callee and arguments after renaming parameters by position and the loop object to $o;
  * every valuation of the atoms that the bitmap axioms allow (an empty set intersects nothing) is forced through call_values and
    each function is explored by constant propagation; the object is ACCEPTED when an element inside the loop other than the
    advance of the loop object is reached that assigns something or returns (n++, i++, return obj), REJECTED otherwise;
  * the two accept sets must be equal.  Order of tests, merged or split conditions, De Morgan forms and helpers do not matter."""
import re, itertools
from prog import *
import peval


def _loopvar(f):
    for n in f.walk():
        a = assigned(n)
        if a and a[1] == "=" and a[2] is not None and strip(a[2])["k"] == "Call" and lv(a[0]) and f.in_loop(n) and f.unit.types[strip(a[2])["t"]].get("ptr"):
            return lv(a[0])
    return None


def _norm(f, lvname, text):
    for i, p in enumerate(f.params):
        text = re.sub(r"\b%s\b" % re.escape(p["n"]), "$%d" % i, text)
    if lvname:
        text = re.sub(r"\b%s\b" % re.escape(lvname), "$o", text)
    return text


def _atoms(f, lvname, advance):
    out = {}
    for c in f.calls():
        if c.get("fn") is None or c["fn"] in advance or not f.in_loop(c):
            continue
        t = f.unit.types[c["t"]]
        if t.get("ptr") or t.get("s") == "void":
            continue
        out[c["id"]] = "%s(%s)" % (c["fn"], ", ".join(_norm(f, lvname, src(strip(a))) for a in args(c)))
    return out


def _feasible(val):
    # bitmap axiom: an empty set intersects nothing
    for k, v in val.items():
        m = re.match(r"hwloc_bitmap_iszero\((.*)\)$", k)
        if m and v:
            x = m.group(1)
            for k2, v2 in val.items():
                m2 = re.match(r"hwloc_bitmap_intersects\((.*)\)$", k2)
                if m2 and v2 and x in [s.strip() for s in m2.group(1).split(",")]:
                    return False
    return True


def filter_agreement(chk, P, unit, name_a, name_b, rule="R-SIBLING", min_atoms=1):
    fs = [P.need_func(name_a, unit), P.need_func(name_b, unit)]
    lvs = [_loopvar(f) for f in fs]
    if not chk.need(all(lvs), "%s: loop object of %s / %s not found" % (rule, name_a, name_b)):
        return 0
    adv = set()
    for f, lvn in zip(fs, lvs):
        for n in f.walk():
            a = assigned(n)
            if a and lv(a[0]) == lvn and a[2] is not None and strip(a[2])["k"] == "Call":
                adv.add(strip(a[2]).get("fn"))
    atoms = [_atoms(f, lvn, adv) for f, lvn in zip(fs, lvs)]
    keys = sorted(set(atoms[0].values()) | set(atoms[1].values()))
    # a predicate that is a function of the walkers' own unit (not a library predicate) and is consulted by one walker only is most likely the other walker's tests
    # moved into a helper: its result is not independent of the remaining predicates, so the valuations cannot be compared
    for k in keys:
        g = P.func(k.split("(")[0])
        if g is not None and g.entry is not None and g.unit is fs[0].unit and (k in atoms[0].values()) != (k in atoms[1].values()):
            chk.broke("%s: %s is consulted by only one of %s / %s: filters not comparable by valuation (tests moved into a helper on one side?)" % (rule, k, name_a, name_b))
            return 0
    if not chk.need(len(keys) >= min_atoms and len(keys) <= 10, "%s: %d filter predicates found in %s / %s" % (rule, len(keys), name_a, name_b)):
        return 0
    fns = set(k.split("(")[0] for k in keys)
    accept = [set(), set()]
    nval = 0
    for combo in itertools.product((0, 1), repeat=len(keys)):
        val = dict(zip(keys, combo))
        if not _feasible(val):
            continue
        nval += 1
        for j, f in enumerate(fs):
            hit = []
            # temporaries declared inside the loop body do not outlive the iteration: assigning them accepts nothing
            temps = set(v["n"] for v in f.walk() if v["k"] == "Var" and f.in_loop(v))
            def obs(n, env, f=f, hit=hit, lvn=lvs[j], temps=temps):
                if hit:
                    return
                a = assigned(n)
                if (n["k"] == "Return" or (a is not None and lv(a[0]) != lvn and lv(a[0]) not in temps)) and f.in_loop(n):
                    hit.append(f.loc(n))
            cv = {fn: (lambda c, a, m=atoms[j], val=val: val.get(m.get(c["id"]))) for fn in fns}
            try:
                peval.PathEval(P, f, {}, is_effect=lambda *z: False, through_effects=True, observe=obs, call_values=cv, maxstates=20000).run()
            except AnalysisBroken as ex:
                chk.broke("%s: %s not evaluable (%s)" % (rule, f.name, ex))
                return 0
            if hit:
                accept[j].add(combo)
    if not chk.need(accept[0] and accept[1] and len(accept[0]) < nval, "%s: the filters of %s / %s are trivial under evaluation (accepting %d and %d of %d valuations)"
                    % (rule, name_a, name_b, len(accept[0]), len(accept[1]), nval)):
        return 0
    diff = sorted(accept[0] ^ accept[1])
    why = ""
    if diff:
        d = diff[0]
        why = "; they disagree when " + ", ".join("%s%s" % ("" if v else "!", k) for k, v in zip(keys, d)) + ": accepted by %s only" % (name_a if d in accept[0] else name_b)
    chk.inst(rule, fs[0], "filter-agreement:" + name_b, not diff, "%s() and %s() accept the same objects under each of the %d feasible valuations of their %d filter predicates (%d accepted)%s"
             % (name_a, name_b, nval, len(keys), len(accept[0]), why))
    return nval
