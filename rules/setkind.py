"""R-SETKIND: CPU sets and NUMA-node sets are never mixed.  Every bitmap-typed expression whose name says which kind of
set it is (…cpuset… / …nodeset…) must meet only expressions of the same kind in binary bitmap operations, and must be
passed only to parameters of the same kind.  A wrong-variable slip (allowed_cpuset tested against droppednodeset,
obj->cpuset passed with rootnodeset where obj->nodeset is meant) is a kind clash."""
from prog import *
import re

BINOPS = {"hwloc_bitmap_isincluded": (0, 1), "hwloc_bitmap_intersects": (0, 1), "hwloc_bitmap_isequal": (0, 1), "hwloc_bitmap_compare": (0, 1),
          "hwloc_bitmap_compare_first": (0, 1), "hwloc_bitmap_compare_inclusion": (0, 1), "hwloc_bitmap_copy": (0, 1),
          "hwloc_bitmap_and": (0, 1, 2), "hwloc_bitmap_or": (0, 1, 2), "hwloc_bitmap_andnot": (0, 1, 2), "hwloc_bitmap_xor": (0, 1, 2), "hwloc_bitmap_not": (0, 1)}


def kind_of_name(name):
    n = name.lower()
    c = "cpuset" in n or n.endswith("cpus") or n in ("cpu_set",)
    d = "nodeset" in n or n.endswith("nodes_set")
    if c and not d:
        return "cpu"
    if d and not c:
        return "node"
    return None


def kind_of_expr(f, e):
    e = strip(e)
    if e is None:
        return None
    if e["k"] == "Call":
        fn = e.get("fn") or ""
        if "complete_cpuset" in fn or "topology_cpuset" in fn or "allowed_cpuset" in fn:
            return "cpu"
        if "complete_nodeset" in fn or "topology_nodeset" in fn or "allowed_nodeset" in fn:
            return "node"
        return None
    k = lv(e)
    if k is None:
        return None
    last = re.split(r"->|\.", k)[-1]
    last = re.sub(r"\[.*\]$", "", last).strip("()*")
    return kind_of_name(last)


def run(chk, P, units, rule="R-SETKIND", exceptions=None):
    exceptions = exceptions or {}
    n = 0
    for u in units:
        for f in P.unit(u).funcs(only_main=False):
            if f.file != P.unit(u).path and not f.file.endswith(".h"):
                continue
            k = 0
            for c in f.calls():
                fn = c.get("fn")
                if fn is None:
                    continue
                a = args(c)
                clash = None
                if fn in BINOPS:
                    ks = [(i, kind_of_expr(f, a[i])) for i in BINOPS[fn] if i < len(a)]
                    ks = [(i, x) for i, x in ks if x]
                    if len(ks) >= 2:
                        n += 1
                        k += 1
                        if len(set(x for _, x in ks)) > 1:
                            clash = "%s mixes %s" % (fn, ", ".join("%s (%s set)" % (src(a[i]), x) for i, x in ks))
                        key = "%s#%d" % (fn, k)
                        exc = exceptions.get((f.name, fn))
                        if clash and exc:
                            chk.inst(rule, f, key, True, "frozen exception: %s" % exc, loc=f.loc(c), nontrivial=False)
                        else:
                            chk.inst(rule, f, key, not clash, clash or "operands of one kind (%s)" % ks[0][1], loc=f.loc(c))
                    continue
                g = P.func(fn)
                if g is None:
                    continue
                for i, p in enumerate(g.params):
                    if i >= len(a):
                        break
                    pk = kind_of_name(p["n"])
                    ak = kind_of_expr(f, a[i])
                    if pk and ak:
                        n += 1
                        k += 1
                        key = "%s:arg%d#%d" % (fn, i, k)
                        bad = pk != ak
                        exc = exceptions.get((f.name, fn))
                        if bad and exc:
                            chk.inst(rule, f, key, True, "frozen exception: %s" % exc, loc=f.loc(c), nontrivial=False)
                        else:
                            chk.inst(rule, f, key, not bad, ("argument %s is a %s set but parameter `%s` of %s is a %s set" % (src(a[i]), ak, p["n"], fn, pk)) if bad else "kind %s" % pk, loc=f.loc(c))
    return n


HEADS = ("first_child", "memory_first_child", "io_first_child", "misc_first_child")


def listkind(chk, P, units, rule="R-LISTKIND"):
    """the four child lists are never confused: an `if (p->X_first_child)` block that works on child lists works on list X
    (a copy-pasted guard testing the I/O list around code that moves the Misc list is a clash)"""
    n = 0
    for u in units:
        for f in P.unit(u).funcs(only_main=True):
            k = 0
            for x in f.walk():
                if x["k"] != "If":
                    continue
                c = strip(x["c"][0])
                while c is not None and c["k"] == "Unary" and c["op"] == "!":
                    c = strip(c["c"][0])
                if c is None or c["k"] != "Member" or c["f"] not in HEADS or c.get("rec") != "hwloc_obj":
                    continue
                body = x["c"][1]
                used = set()
                for y in subnodes(body):
                    if y["k"] == "Member" and y.get("rec") == "hwloc_obj" and y["f"] in HEADS:
                        used.add(y["f"])
                if not used:
                    continue
                k += 1
                n += 1
                chk.inst(rule, f, "if(%s)#%d" % (c["f"], k), c["f"] in used,
                         "block guarded by `%s` works on child list(s) %s" % (src(c), sorted(used)), loc=f.loc(x))
    return n


ARITY_OF = {"first_child": "arity", "memory_first_child": "memory_arity", "io_first_child": "io_arity", "misc_first_child": "misc_arity"}
SPLICERS = ("append_siblings_list", "prepend_siblings_list", "insert_siblings_list")


def arity_pairing(chk, P, units, rule="R-ARITY"):
    """sibling agreement inside one function: where a function keeps the arity counters in step with the child lists it splices
    (Y->K_arity updated next to splice(&Y->K_first_child, ...)) for at least two of its splices, it does so for ALL of them
    (functions that leave the arities to a later hwloc_connect_children(), like unlink_and_free_single_object, pair none)"""
    n = 0
    for u in units:
        for f in P.unit(u).funcs(only_main=True):
            sites = []
            for c in f.calls(SPLICERS):
                a0 = strip(args(c)[0])
                if a0["k"] != "Unary" or a0["op"] != "&":
                    continue
                m = strip(a0["c"][0])
                if m["k"] != "Member" or m["f"] not in ARITY_OF:
                    continue
                owner = lv(m["c"][0])
                want = "%s->%s" % (owner, ARITY_OF[m["f"]])
                # the enclosing statement list: climb to the nearest Compound/If body
                p = f.par(c)
                scope = None
                while p is not None:
                    if p["k"] in ("For", "While", "Do"):
                        scope = p
                        break
                    p = f.par(p)
                paired = False
                # the counter of THIS list of THIS object is updated somewhere in the same loop iteration (or in the function
                # when the splice is not in a loop): the update may sit next to the splice or be hoisted out of its guard
                for y in (subnodes(scope) if scope is not None else f.walk()):
                    if True:
                        a = assigned(y)
                        if a and lv(a[0]) == want:
                            paired = True
                sites.append((c, want, paired))
            npaired = sum(1 for s in sites if s[2])
            if npaired < 2:
                continue
            k = 0
            for c, want, paired in sites:
                k += 1
                n += 1
                chk.inst(rule, f, "splice#%d:%s" % (k, want), paired, "%s keeps arities in step with the lists it splices (%d of %d splices): %s(...) must be accompanied by an update of %s" % (
                    f.name, npaired, len(sites), c.get("fn"), want), loc=f.loc(c))
    return n
