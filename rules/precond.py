"""R-PRECOND: a callee's asserted precondition on a scalar parameter (assert(param OP CONSTANT)) holds at every call site.

With assertions enabled a violated precondition aborts the process; in the XML import code the argument may come from the
file.  At each call site the argument is a constant that satisfies the assertion, or the relation is a must-fact there (the
caller tested it on every path), or the caller has the same asserted precondition on the parameter it forwards."""
from prog import *
import must, peval


def scalar_asserts(g):
    """[(param index, op, constant, text)] for assert(param OP const) at the top level of g"""
    out = []
    names = [p["n"] for p in g.params]
    for n in g.walk():
        if n["k"] == "Call" and n.get("fn") == "__assert_fail":
            p = g.par(n)
            while p is not None and p["k"] != "If":
                p = g.par(p)
            if p is None:
                continue
            c = strip(p["c"][0])
            if c["k"] == "Binary" and c["op"] in ("!=", "==", "<", ">", "<=", ">="):
                l, r = strip(c["c"][0]), strip(c["c"][1])
                if l["k"] == "Ref" and l.get("dk") == "param" and cval(r) is not None and l["n"] in names:
                    T = g.unit.types[g.params[names.index(l["n"])]["t"]]
                    if not T.get("ptr"):
                        out.append((names.index(l["n"]), c["op"], cval(r), src(c)))
    return out


def holds(op, a, b):
    return {"!=": a != b, "==": a == b, "<": a < b, ">": a > b, "<=": a <= b, ">=": a >= b}[op]


def run(chk, P, units=None, rule="R-PRECOND"):
    n = 0
    cache = {}
    for f in P.all_funcs():
        if units is not None and os.path.basename(f.file) not in units:
            continue
        if f.entry is None:
            continue
        m = None
        k = 0
        for c in f.calls():
            g = P.func(c.get("fn")) if c.get("fn") else None
            if g is None or g.entry is None:
                continue
            if g.name not in cache:
                cache[g.name] = scalar_asserts(g)
            for (pi, op, cv, txt) in cache[g.name]:
                if pi >= len(args(c)):
                    continue
                a = strip(args(c)[pi])
                k += 1
                n += 1
                cons = "%s(arg%d):%s#%d" % (g.name, pi, txt.replace(" ", ""), k)
                v = cval(a)
                if v is not None:
                    chk.inst(rule, f, cons, holds(op, v, cv), "constant argument %s %s the callee's assert(%s)" % (src(a), "satisfies" if holds(op, v, cv) else "VIOLATES", txt), loc=f.loc(c), nontrivial=False)
                    continue
                ak = lv(a)
                # decided by evaluation where the assertion excludes one value: with the argument seeded to that value the
                # call must be unreachable (any form of guard is understood: ==, ranges, switch, helper predicates)
                if ak is not None and op == "!=":
                    hit = []
                    def obs(nd, env, cid=c["id"], hit=hit):
                        if nd["id"] == cid:
                            hit.append(1)
                    try:
                        peval.PathEval(P, f, {ak: cv}, is_effect=lambda *x: False, through_effects=True, observe=obs, track={ak}, maxstates=100000).run()
                        if not hit:
                            chk.inst(rule, f, cons, True, "argument `%s` of %s(): with %s == %d the call is unreachable, the callee's assert(%s) holds" % (src(a), g.name, ak, cv, txt), loc=f.loc(c))
                            continue
                    except AnalysisBroken:
                        pass
                if m is None:
                    m = must.Must(f).run()
                st = m.before.get(c["id"], frozenset())
                ok = False
                why = ""
                if ak is not None:
                    for fct in st:
                        if fct[0] in ("R", "T") and fct[1].replace(" ", "") in ("%s%s%d" % (ak, op, cv), "%s%s%s" % (ak, op, txt.split(op)[-1].strip())):
                            ok, why = True, "tested on every path (%s)" % fct[1]
                        if fct[0] == "F" and op == "!=" and fct[1].replace(" ", "") in ("%s==%d" % (ak, cv), "%s==%s" % (ak, txt.split(op)[-1].strip())):
                            ok, why = True, "tested on every path (not %s)" % fct[1]
                    # the caller asserts the same on the forwarded parameter
                    if not ok and f.name in cache or True:
                        mine = cache.get(f.name)
                        if mine is None:
                            mine = cache[f.name] = scalar_asserts(f)
                        names = [p["n"] for p in f.params]
                        for (pj, op2, cv2, txt2) in mine:
                            if names[pj] == ak and op2 == op and cv2 == cv:
                                ok, why = True, "the caller asserts the same precondition on its own parameter"
                chk.inst(rule, f, cons, ok, "argument `%s` of %s(): the callee's assert(%s) %s" % (src(a), g.name, txt, why if ok else "is not established at this call site (no test of the argument on every path): a value from the input aborts the process"), loc=f.loc(c))
    return n
