"""R-SIZEOF: a block operation on typed objects measures the object it operates on.

memcpy/memmove/memcmp/memset(dst, .., [n *] sizeof(X)): the size measured by the single sizeof in the length equals the size of what
dst (and src) point to, when both are pointers to objects of known size (records, scalars other than char/void).  A copy-pasted
line that keeps the neighbour's sizeof copies too little (the copy silently loses the tail of the structure) or too much."""
from prog import *

FUNCS = ("memcpy", "memmove", "memcmp", "memset")


def _pointee_size(f, e):
    e = strip(e)
    if e is None or "t" not in e:
        return None, None
    T = f.unit.types
    t = T[e["t"]]
    if t.get("arr"):
        # an array operand: the whole array (sizeof(array)) -- element-wise operations on arrays are not judged
        return t["sz"], t["s"]
    if not t.get("ptr"):
        return None, None
    rec = t.get("prec")
    if rec:
        for x in T:
            if x.get("rec") == rec and not x.get("arr") and not x.get("ptr") and x.get("sz"):
                return x["sz"], t["s"]
        return None, None
    s = t["s"].replace("const ", "").replace("restrict", "").replace("__", "").strip()
    if not s.endswith("*"):
        return None, None
    base = s[:-1].strip()
    if base in ("char", "void", "unsigned char", "signed char") or base.endswith("*"):
        return (8 if base.endswith("*") else None), t["s"]
    for x in T:
        if x.get("s") == base and x.get("sz") and not x.get("ptr"):
            return x["sz"], t["s"]
    return None, None


def run(chk, P, units, rule="R-SIZEOF"):
    n = 0
    for u in units:
        for f in P.unit(u).funcs(only_main=True):
            if f.entry is None:
                continue
            k = 0
            for c in f.calls(FUNCS):
                a = args(c)
                if len(a) != 3:
                    continue
                so = [s for s in subnodes(a[2]) if s["k"] == "SizeOf"]
                if len(so) != 1 or cval(so[0]) is None:
                    continue
                msz = cval(so[0])
                ptrs = [a[0]] if c["fn"] == "memset" else [a[0], a[1]]
                sizes = [(_pointee_size(f, p), src(strip(p))) for p in ptrs]
                known = [(sz, tn, tx) for (sz, tn), tx in sizes if sz]
                if not known:
                    continue
                k += 1
                n += 1
                bad = [(sz, tn, tx) for sz, tn, tx in known if sz != msz]
                chk.inst(rule, f, "%s#%d" % (c["fn"], k), not bad, "%s(%s, .., %s): the sizeof measures %d bytes, the size of what the pointers point to%s"
                         % (c["fn"], src(strip(a[0]))[:40], src(a[2])[:50], msz, "" if not bad else " -- but %s (%s) points to objects of %d bytes" % (bad[0][2][:40], bad[0][1], bad[0][0])), loc=f.loc(c))
    return n
