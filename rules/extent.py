"""R-EXTENT: sibling agreement on the extent of bulk operations over one array field.

For every (record, pointer field) every bulk operation in the library whose pointer argument is that field --
malloc/calloc/realloc assigned to it, memcpy/memmove/memcmp/memset over it -- has an element count that is a
product of factors.  The *signature* of an extent is the multiset of the factors' root names (last identifier
component: dist->nbobjs, olddist->nbobjs and a local nbobjs all give `nbobjs`; sizeof factors dropped).
All operations on the same field must agree on the signature (Engler-style cross-check: a memcmp over nbobjs
elements of an array that is everywhere else nbobjs*nbobjs long is wrong)."""
from prog import *
import re


def factors(e):
    e = strip(e)
    if e["k"] == "Binary" and e["op"] == "*":
        return factors(e["c"][0]) + factors(e["c"][1])
    return [e]


def single_defs(f):
    """locals with exactly one definition (initialiser or one assignment) and never address-taken: name -> defining expression"""
    cache = getattr(f, "_xdefs", None) if hasattr(f, "__dict__") else None
    defs, cnt = {}, {}
    for n in f.walk():
        if n["k"] == "Var" and n.get("dk", "local") != "param":
            if n.get("c") and n["c"][0] is not None:
                defs[n["n"]] = n["c"][0]
                cnt[n["n"]] = cnt.get(n["n"], 0) + 1
        a = assigned(n)
        if a:
            k = lv(a[0])
            if k:
                cnt[k] = cnt.get(k, 0) + 1
                if a[1] == "=" and a[2] is not None:
                    defs.setdefault(k, a[2])
        if n["k"] == "Unary" and n["op"] == "&":
            k = lv(n["c"][0])
            if k:
                cnt[k] = cnt.get(k, 0) + 2
    params = set(p["n"] for p in f.params)
    return {k: v for k, v in defs.items() if cnt.get(k, 0) == 1 and k not in params and k.isidentifier()}


def signature(e, defs=None, depth=0):
    sig = []
    for x in factors(e):
        x = strip(x)
        # a named temporary holding a size (size_t values_size = nbobjs*nbobjs*sizeof(..)) stands for its definition
        if defs and depth < 3 and x["k"] == "Ref" and x["n"] in defs:
            d = strip(defs[x["n"]])
            if d is not None and (d["k"] == "Binary" and d["op"] == "*" or d["k"] == "SizeOf"):
                sig.extend(signature(d, defs, depth + 1))
                continue
        if x["k"] == "SizeOf":
            continue
        v = cval(x)
        if v is not None:
            if v != 1:
                sig.append("#%d" % v)
            continue
        k = lv(x)
        if k is None:
            sig.append("?" + src(x))
        else:
            sig.append(re.split(r"->|\.", k)[-1].strip("()*"))
    return tuple(sorted(sig))


def field_of(f, e):
    e = strip(e)
    if e is not None and e["k"] == "Member" and "rec" in e:
        t = f.type_of(e)
        if t and t.get("ptr"):
            return (e["rec"], e["f"])
    return None


def collect(P, units):
    ops = {}   # (rec, field) -> [(signature, function, loc, op)]
    for u in units:
        for f in P.unit(u).funcs(only_main=True):
            defs = single_defs(f)
            for n in f.walk():
                if n["k"] == "Call":
                    fn = n.get("fn")
                    a = args(n)
                    if fn in ("memcpy", "memmove", "memcmp") and len(a) == 3:
                        for p in a[:2]:
                            fld = field_of(f, p)
                            if fld:
                                ops.setdefault(fld, []).append((signature(a[2], defs), f.name, f.loc(n), fn))
                    elif fn == "memset" and len(a) == 3:
                        fld = field_of(f, a[0])
                        if fld:
                            ops.setdefault(fld, []).append((signature(a[2], defs), f.name, f.loc(n), fn))
                a_ = assigned(n)
                if a_ and a_[1] == "=" and a_[2] is not None:
                    r = strip(a_[2])
                    fld = field_of(f, a_[0])
                    if fld and r["k"] == "Call":
                        fn = r.get("fn")
                        ar = args(r)
                        ext = None
                        if fn == "malloc" and ar:
                            ext = ar[0]
                        elif fn == "calloc" and len(ar) == 2:
                            ext = ar[0] if strip(ar[1])["k"] == "SizeOf" else ar[1]
                        elif fn == "realloc" and len(ar) == 2:
                            ext = ar[1]
                        elif fn in ("hwloc_tma_malloc", "hwloc_tma_calloc") and len(ar) == 2:
                            ext = ar[1]
                        if ext is not None:
                            ops.setdefault(fld, []).append((signature(ext, defs), f.name, f.loc(n), fn))
    return ops


def run(chk, P, units, fields=None, rule="R-EXTENT", exceptions=None):
    """fields: restrict to these (rec, field); exceptions {(rec, field, function): reason}"""
    exceptions = exceptions or {}
    ops = collect(P, units)
    n = 0
    for fld, lst in sorted(ops.items()):
        if fields is not None and fld not in fields:
            continue
        if len(lst) < 2:
            continue
        cnt = {}
        for sig, fn, loc, op in lst:
            cnt[sig] = cnt.get(sig, 0) + 1
        major = max(cnt.items(), key=lambda kv: kv[1])[0]
        for i, (sig, fn, loc, op) in enumerate(lst):
            n += 1
            ok = sig == major
            exc = exceptions.get((fld[0], fld[1], fn))
            if not ok and exc:
                chk.inst(rule, fn, "%s.%s@%s#%d" % (fld[0], fld[1], op, i), True, "frozen exception: %s" % exc, loc=loc, nontrivial=False)
            else:
                chk.inst(rule, fn, "%s.%s@%s#%d" % (fld[0], fld[1], op, i), ok,
                         "%s over %s.%s has extent %s; the other %d operations on this field use %s" % (op, fld[0], fld[1], "*".join(sig) or "1", cnt[major], "*".join(major) or "1"), loc=loc)
    return n


def counted_loops(chk, P, units, rule="R-EXTENT"):
    """counted loops with constant bounds over a fixed-size array FIELD cover the whole array [0, N): a per-slot initialisation, copy
    or release that stops early leaves the last slots stale (the duplicate of a topology without its last special level).
    Arrays that the program also indexes by a non-constant expression of an enum type (type_depth[obj->type], type_filter[type])
    are exempt: loops over sub-ranges of the enumeration are meaningful there.  Bounds are the compiler's constants (cval), the
    loop form is `for (i = lo; i </<=/!= K; i++)` with the array indexed by exactly i in the body; other loops are not judged."""
    # arrays indexed by an enum-typed non-constant expression anywhere in the program
    enum_indexed = set()
    for f in P.all_funcs(only_main=False):
        T = f.unit.types
        for s in f.walk():
            if s["k"] == "Sub":
                b = strip(s["c"][0])
                if b is None or b["k"] != "Member" or not T[b["t"]].get("arr"):
                    continue
                ix = s["c"][1]
                if cval(ix) is None:
                    x = ix
                    while x is not None and x["k"] == "Cast":
                        if "t" in x and T[x["t"]].get("en"):
                            break
                        x = x["c"][0]
                    if x is not None and "t" in x and T[x["t"]].get("en"):
                        enum_indexed.add((b.get("rec"), b["f"]))
    n = 0
    perf = {}
    for u in units:
        for f in P.unit(u).funcs(only_main=True):
            if f.entry is None:
                continue
            T = f.unit.types
            for lp in f.walk():
                if lp["k"] != "For" or len(lp["c"]) < 4:
                    continue
                init, cond, inc, body = lp["c"][:4]
                if cond is None or cond["k"] != "Binary" or cond["op"] not in ("<", "<=", "!="):
                    continue
                iv, K = lv(cond["c"][0]), cval(cond["c"][1])
                if iv is None or K is None:
                    continue
                if cond["op"] == "<=":
                    K += 1
                ia = assigned(inc) if inc is not None else None
                if not ia or lv(ia[0]) != iv or ia[1] != "++":
                    continue
                lo = None
                if init is not None:
                    a = assigned(init)
                    if a and lv(a[0]) == iv and a[1] == "=":
                        lo = cval(a[2])
                    elif init["k"] == "DeclStmt":
                        for v in init["c"]:
                            if v["n"] == iv and v.get("c"):
                                lo = cval(v["c"][0])
                if lo is None:
                    continue
                # the induction variable is not written in the body
                if any(assigned(s) and lv(assigned(s)[0]) == iv for s in subnodes(body)):
                    continue
                arrs = {}
                for s in subnodes(body):
                    if s["k"] == "Sub" and lv(s["c"][1]) == iv:
                        b = strip(s["c"][0])
                        if b is not None and b["k"] == "Member" and T[b["t"]].get("arr") and (b.get("rec"), b["f"]) not in enum_indexed:
                            arrs[(b.get("rec"), b["f"])] = T[b["t"]]["arr"]
                for (rec, fld), N in sorted(arrs.items(), key=str):
                    n += 1
                    ok = lo == 0 and K == N
                    perf[(f.name, fld)] = perf.get((f.name, fld), 0) + 1
                    chk.inst(rule, f, "loop:%s.%s#%d" % (rec, fld, perf[(f.name, fld)]), ok, "the counted loop over the %d slots of %s.%s covers [%d, %d)%s"
                             % (N, rec, fld, lo, K, "" if ok else ": not the whole array"), loc=f.loc(lp))
    return n
