"""R-CONSUMED: a pointer handed to a function that takes ownership of it is not released again by the caller.

"Takes ownership" is DISCOVERED per (function, pointer parameter) by exploring the function path by path: a parameter is consumed on
a path when it is handed to a releaser (free, hwloc_bitmap_free, ...), stored into memory that outlives the call (`X->f = p`), or
handed to a function already classified as consuming it (on the outcome on which that function consumes it).  A function consumes
a parameter
    'always'  when every exit has consumed it (hwloc_internal_distances_add: attached on success, freed on failure),
    'onok'    when every successful exit has and no failing exit has (hwloc_backend_distances_add_values stores the arrays),
    'onfail'  when every failing exit has and no successful one has (R-RELFAIL's contract).
Callers are then explored with the callee outcomes forked into failed / succeeded; a named pointer is marked consumed on the
outcomes on which the callee consumed it, until it is re-assigned.  Handing a consumed pointer to a releaser, or to a consuming
function again, is the violation: the block is released twice (or released while the topology still links it)."""
from prog import *
import peval
import uaf

_SUM = {}
_OWN = {}


def owning_fields(P):
    """(record, field) pairs some function of the program hands to a releaser: storing a pointer there transfers ownership
    (a back pointer such as state->parent is never released through the field and does not)"""
    if "v" in _OWN:
        return _OWN["v"]
    own = set()
    for f in P.all_funcs(only_main=False):
        for c in f.calls(tuple(k for k, v in uaf.RELEASE.items() if v is not None)):
            a = args(c)
            i = uaf.RELEASE[c["fn"]]
            if i < len(a):
                t = strip(a[i])
                if t is not None and t["k"] == "Member" and t.get("rec"):
                    own.add((t["rec"], t["f"]))
    _OWN["v"] = own
    return own


def _flag_vars(f):
    """locals only ever assigned constants or call results: cheap to track, and they carry the error codes that correlate branches"""
    flagv = {}
    for n in f.walk():
        tgt = rhs = None
        a = assigned(n)
        if a and lv(a[0]) and strip(a[0])["k"] == "Ref":
            tgt, rhs = lv(a[0]), (a[2] if a[1] == "=" else False)
        elif n["k"] == "Var" and n.get("c") and n["c"][0] is not None:
            tgt, rhs = n["n"], n["c"][0]
        if tgt is None:
            continue
        good = rhs is not False and rhs is not None and (cval(rhs) is not None or strip(rhs)["k"] == "Call")
        flagv[tgt] = flagv.get(tgt, True) and good
    return set(k for k, v in flagv.items() if v)


def consumes(P, g, depth=0):
    """{param index: 'always' | 'onok' | 'onfail'}"""
    if g.name in _SUM:
        return _SUM[g.name]
    _SUM[g.name] = {}
    if g.entry is None or depth > 4:
        return {}
    T = g.unit.types
    cands = {p["n"]: i for i, p in enumerate(g.params) if T[p["t"]].get("ptr") and not T[p["t"]].get("fp")}
    if not cands:
        return {}
    sub = {}       # call id -> [(param name, how)]
    stores = {}    # assignment id -> param name
    own = owning_fields(P)
    for n in g.walk():
        if n["k"] == "Call":
            fn = n.get("fn")
            a = args(n)
            if fn in uaf.RELEASE and uaf.RELEASE[fn] is not None:
                i = uaf.RELEASE[fn]
                if i < len(a) and lv(a[i]) in cands and strip(a[i])["k"] == "Ref":
                    sub.setdefault(n["id"], []).append((lv(a[i]), "always"))
            elif fn:
                h = P.func(fn)
                if h is None or h is g or h.entry is None:
                    continue
                for i, how in consumes(P, h, depth + 1).items():
                    if i < len(a) and lv(a[i]) in cands and strip(a[i])["k"] == "Ref":
                        sub.setdefault(n["id"], []).append((lv(a[i]), how))
        a = assigned(n)
        if a and a[1] == "=" and a[2] is not None:
            r = strip(a[2])
            t = strip(a[0])
            if r is not None and r["k"] == "Ref" and r["n"] in cands and t["k"] == "Member" and (t.get("rec"), t["f"]) in own and (t.get("arrow") or not peval.local_store(g, a[0])):
                stores[n["id"]] = r["n"]
    if not sub and not stores:
        return {}
    names = set(pn for v in sub.values() for pn, _ in v) | set(stores.values())
    exits = {pn: [] for pn in names}
    def obs(n, env):
        if n["id"] in stores:
            env["?" + stores[n["id"]]] = 1
            return
        if n["k"] == "Call" and n["id"] in sub:
            for pn, how in sub[n["id"]]:
                if how == "always":
                    env["?" + pn] = 1
            return
        a = assigned(n)
        if a and lv(a[0]) in names and not env.get("?" + lv(a[0])):
            env["?" + lv(a[0])] = 2      # re-assigned before it was consumed: what reaches the exits is another pointer
    def hook(c, kind, upd, env):
        for pn, how in sub.get(c["id"], ()):
            if (how == "onok" and kind == "ok") or (how == "onfail" and kind == "fail"):
                upd["?" + pn] = 1
    rt = T[g.d["ret"]]
    def obx(kind, n, env):
        v = None
        if kind == "return" and n is not None and n.get("c") and n["c"][0] is not None:
            v = peval.Evaluator(g, env).ev(n["c"][0])
        for pn in names:
            exits[pn].append((v, env.get("?" + pn, 0)))
    try:
        peval.PathEval(P, g, {}, is_effect=lambda *z: False, through_effects=True, observe=obs, observe_exit=obx, fork_hook=hook, maxstates=30000, track=_flag_vars(g)).run()
    except AnalysisBroken:
        return {}
    out = {}
    isfail = (lambda v: v == 0) if rt.get("ptr") else (lambda v: v < 0)
    for pn in names:
        ex = exits[pn]
        if not ex or any(d == 2 for v, d in ex):
            continue
        if all(d == 1 for v, d in ex):
            out[cands[pn]] = "always"
        elif rt["s"] != "void" and all(v is not None for v, d in ex):
            got = [v for v, d in ex if d == 1]
            kept = [v for v, d in ex if d == 0]
            if got and kept and all(isfail(v) for v in got) and not any(isfail(v) for v in kept):
                out[cands[pn]] = "onfail"
            elif got and kept and not any(isfail(v) for v in got) and all(isfail(v) for v in kept):
                out[cands[pn]] = "onok"
    _SUM[g.name] = out
    return out


def run(chk, P, units, rule="R-CONSUMED"):
    nsites = 0
    found = {}
    for u in units:
        for f in P.unit(u).funcs(only_main=True):
            if f.entry is None:
                continue
            sites = {}       # call id -> [(key, how)]
            for c in f.calls():
                g = P.func(c["fn"]) if c.get("fn") else None
                if g is None or g is f or g.entry is None:
                    continue
                for i, how in consumes(P, g).items():
                    if i < len(args(c)):
                        k = lv(args(c)[i])
                        if k is not None and strip(args(c)[i])["k"] == "Ref" and strip(args(c)[i]).get("dk") in ("local", "param"):
                            sites.setdefault(c["id"], []).append((k, how))
                            found.setdefault(g.name, {})[i] = how
            if not sites:
                continue
            keys = set(k for v in sites.values() for k, _ in v)
            bad = {}
            def obs(n, env, f=f, keys=keys, bad=bad, sites=sites):
                a = assigned(n)
                if a and lv(a[0]) in keys:
                    env.pop("?" + lv(a[0]), None)
                    return
                if n["k"] == "DeclStmt":
                    for v in n["c"]:
                        if v["n"] in keys:
                            env.pop("?" + v["n"], None)
                    return
                if n["k"] != "Call":
                    return
                fn = n.get("fn")
                a = args(n)
                rel = []
                if fn in uaf.RELEASE and uaf.RELEASE[fn] is not None and uaf.RELEASE[fn] < len(a):
                    rel.append(lv(a[uaf.RELEASE[fn]]))
                for k, how in sites.get(n["id"], ()):
                    rel.append(k)
                for k in rel:
                    if k in keys and env.get("?" + k):
                        bad.setdefault((k, env["?" + k]), (f.loc(n), fn))
                # an unconditional consumer marks its argument here (both outcomes)
                for k, how in sites.get(n["id"], ()):
                    if how == "always":
                        env["?" + k] = n["id"]
            def hook(c, kind, upd, env, sites=sites):
                for k, how in sites.get(c["id"], ()):
                    if (how == "onok" and kind == "ok") or (how == "onfail" and kind == "fail") or how == "always":
                        upd["?" + k] = c["id"]
            try:
                peval.PathEval(P, f, {}, is_effect=lambda *z: False, through_effects=True, observe=obs, fork_hook=hook, maxstates=150000, track=set(keys) | _flag_vars(f)).run()
            except AnalysisBroken as ex:
                chk.broke("%s: %s not evaluable (%s)" % (rule, f.name, ex))
                continue
            ordn = {}
            for cid in sorted(sites):
                c = f.nodes[cid]
                for k, how in sites[cid]:
                    nsites += 1
                    ordn[(k, c["fn"])] = ordn.get((k, c["fn"]), 0) + 1
                    hit = bad.get((k, cid))
                    when = {"always": "in every case", "onok": "when it succeeds", "onfail": "when it fails"}[how]
                    chk.inst(rule, f, "%s@%s#%d" % (k, c["fn"], ordn[(k, c["fn"])]), hit is None,
                             "%s() takes ownership of `%s` %s (discovered by exploring it): the caller does not release it again afterwards%s"
                             % (c["fn"], k, when, "" if hit is None else " -- but it is handed to %s() at %s after the call at line %s consumed it: the block is released twice" % (hit[1], hit[0], c.get("l"))), loc=f.loc(c))
    return nsites, found


def dangling(chk, P, units, rule="R-DANGLE"):
    """`X->f = p` stores a local pointer into a field the program releases through (ownership moves to X); if the function then
    releases p itself, the field must have been re-assigned before the function returns -- otherwise X keeps a dangling pointer
    that its destructor releases a second time.  Decided on explored paths: store, release of the same local, no later store to
    the field, exit."""
    own = owning_fields(P)
    nsites = 0
    for u in units:
        for f in P.unit(u).funcs(only_main=True):
            if f.entry is None:
                continue
            stores = {}     # assignment id -> (field key, local)
            for n in f.walk():
                a = assigned(n)
                if a and a[1] == "=" and a[2] is not None:
                    r = strip(a[2])
                    t = strip(a[0])
                    if (r is not None and r["k"] == "Ref" and r.get("dk") == "local" and t["k"] == "Member" and (t.get("rec"), t["f"]) in own
                            and (t.get("arrow") or not peval.local_store(f, a[0])) and lv(a[0])):
                        stores[n["id"]] = (lv(a[0]), r["n"])
            if not stores:
                continue
            rel = [c for c in f.calls(tuple(k for k, v in uaf.RELEASE.items() if v is not None)) if lv(args(c)[uaf.RELEASE[c["fn"]]]) in set(p for _, p in stores.values())]
            if not rel:
                nsites += len(stores)
                for sid, (fk, p) in sorted(stores.items()):
                    chk.inst(rule, f, "store:%s=%s" % (fk, p), True, "`%s` receives the local `%s`; the function never releases `%s` itself" % (fk, p, p), loc=f.loc(f.nodes[sid]), nontrivial=False)
                continue
            fkeys = set(fk for fk, _ in stores.values())
            locs = set(p for _, p in stores.values())
            bad = {}
            def obs(n, env, stores=stores, fkeys=fkeys, locs=locs):
                if n["id"] in stores:
                    fk, p = stores[n["id"]]
                    env["?in:" + fk] = p
                    env.pop("?dg:" + fk, None)
                    return
                if n["k"] == "DeclStmt":
                    for v in n["c"]:
                        if v["n"] in locs:
                            for fk in fkeys:
                                if env.get("?in:" + fk) == v["n"]:
                                    env.pop("?in:" + fk, None)     # a new instance of the local: it names another block now
                    return
                a = assigned(n)
                if a:
                    k = lv(a[0])
                    if k in fkeys:
                        env.pop("?in:" + k, None)
                        env.pop("?dg:" + k, None)
                    elif k in locs:
                        for fk in fkeys:
                            if env.get("?in:" + fk) == k:
                                env.pop("?in:" + fk, None)     # the local now names another block; the field keeps the old one
                    return
                if n["k"] == "Call" and n.get("fn") in uaf.RELEASE and uaf.RELEASE[n["fn"]] is not None:
                    k = lv(args(n)[uaf.RELEASE[n["fn"]]])
                    for fk in fkeys:
                        if k is not None and env.get("?in:" + fk) == k:
                            env["?dg:" + fk] = n["id"]
            def obx(kind, n, env, bad=bad, fkeys=fkeys, f=f):
                for fk in fkeys:
                    if env.get("?dg:" + fk):
                        bad.setdefault(fk, (env["?dg:" + fk], f.loc(n) if n is not None else f.name))
            try:
                peval.PathEval(P, f, {}, is_effect=lambda *z: False, through_effects=True, observe=obs, observe_exit=obx, maxstates=60000, track=_flag_vars(f)).run()
            except AnalysisBroken as ex:
                # too many states with the flag variables tracked (large discovery functions): explore again without them -- a superset
                # of the paths, so silence there is still a proof; a report found only in that coarser run is not trusted
                bad.clear()
                try:
                    peval.PathEval(P, f, {}, is_effect=lambda *z: False, through_effects=True, observe=obs, observe_exit=obx, maxstates=300000, track=set()).run()
                except AnalysisBroken as ex2:
                    chk.broke("%s: %s not evaluable (%s)" % (rule, f.name, ex2))
                    continue
                if bad:
                    chk.broke("%s: %s is too large to explore with its flag variables tracked, and the coarser exploration cannot exclude a released block left in %s" % (rule, f.name, sorted(bad)))
                    continue
            done = set()
            for sid, (fk, p) in sorted(stores.items()):
                if fk in done:
                    continue
                done.add(fk)
                nsites += 1
                hit = bad.get(fk)
                chk.inst(rule, f, "store:%s=%s" % (fk, p), hit is None,
                         "`%s` receives the local `%s`: no exit is reached with `%s` released by this function and the field still holding it%s"
                         % (fk, p, p, "" if hit is None else " -- but `%s` is released at line %s and the exit at %s is reached with the field unchanged: its owner releases the block again" % (p, f.nodes[hit[0]].get("l"), hit[1])), loc=f.loc(f.nodes[sid]))
    return nsites
