"""R-ATOMIC: a function documented to leave its object untouched on failure must not reach a failure return on a
path that already wrote memory outliving the call.  Decided by exploring all CFG paths with constant propagation
(lib/peval.py, dirty-path mode): each path carries whether an observable write happened."""
from prog import *
import peval


def topo_writes(E, arg_indices=(0,), ignore_paths=(), include_free=True):
    """effect predicate: store/call that may write (or free) memory reachable from the given parameters or a global"""
    def pred(f, n, env):
        S = E.node_effects(f, n)
        items = list(S.mod) + (list(S.free) if include_free else [])
        for r in items:
            if r[0] == "arg" and r[1] in arg_indices:
                if r[2] and r[2][0] in ignore_paths:
                    continue
                return True
            if r[0] in ("glob",):
                return True
        return False
    return pred


def check(chk, P, E, fname, unit, pred, rule="R-ATOMIC", env=None, fail=None, construct="no-write-before-failure", maxstates=40000, only_errno=None):
    f = P.need_func(fname, unit)
    # inside an evaluated helper the parameters are the helper's own: there every write through a parameter or to a global counts
    inner = topo_writes(E, arg_indices=tuple(range(16)))
    pe = peval.PathEval(P, f, env or {}, is_effect=pred, dirty_paths=True, fail_value=fail, maxstates=maxstates, callee_effect=inner)
    out = pe.run()
    fails = [t for t in out.terminals if t[0] == "return" and t[4]]
    if only_errno is not None:
        fails = [t for t in fails if t[2] == only_errno or (isinstance(t[2], frozenset) and str(only_errno) in t[2])]
    bad = [t for t in fails if t[5] is not None]
    detail = "%d failure returns, none reachable after a write" % len(fails)
    if bad:
        detail = "failure return at %s is reachable after the write at %s" % (bad[0][3], bad[0][5])
    chk.inst(rule, f, construct, not bad and len(fails) >= 1, detail)
    return len(fails)
