"""R-PIPE: the load pipeline establishes each invariant on every success path: stage order in hwloc_discover (only orderings
backed by a data dependency are required) and the refresh tail / failure path of hwloc_topology_load."""
from prog import *
import must

ORDER = [  # (earlier, later): `later` may only run after `earlier` completed on every path
    ("propagate_nodeset", "fixup_sets"), ("fixup_sets", "hwloc__reconnect"), ("propagate_nodeset", "hwloc__reconnect"),
    ("hwloc__reconnect", "hwloc_pci_discovery_prepare"), ("hwloc__reconnect", "hwloc_filter_bridges"), ("hwloc_filter_bridges", "remove_empty"),
    ("remove_empty", "propagate_total_memory"), ("remove_empty", "hwloc_propagate_symmetric_subtree"), ("remove_empty", "hwloc_set_group_depth"),
]
SUCCESS_NEEDS = ("propagate_nodeset", "fixup_sets", "hwloc__reconnect", "hwloc_filter_bridges", "remove_empty", "propagate_total_memory",
                 "hwloc_propagate_symmetric_subtree", "hwloc_set_group_depth")


def discover(chk, P, rule="R-PIPE"):
    f = P.need_func("hwloc_discover", "topology.c")
    m = must.Must(f, track_calls=set(x for p in ORDER for x in p) | set(SUCCESS_NEEDS) | {"remove_unused_sets"}).run()
    n = 0
    for a, b in ORDER:
        sites = list(f.calls(b))
        if not sites:
            chk.inst(rule, f, "%s<%s" % (a, b), False, "stage %s() is no longer called by hwloc_discover" % b)
            n += 1
            continue
        # for stages called twice (reconnect) the FIRST call is the one constrained by earlier stages, the LAST by later ones
        site = sites[0] if b != "hwloc__reconnect" else sites[0]
        st = m.before.get(site["id"], frozenset())
        n += 1
        chk.inst(rule, f, "%s<%s" % (a, b), any(x[0] == "call" and x[1] == a for x in st), "%s() runs only after %s() completed on every path" % (b, a), loc=f.loc(site))
    # second reconnect: after remove_empty, with KEEPSTRUCTURE, before the three propagations
    rc = list(f.calls("hwloc__reconnect"))
    ok2 = len(rc) == 2
    if ok2:
        st2 = m.before.get(rc[1]["id"], frozenset())
        ok2 = any(x[0] == "call" and x[1] == "remove_empty" for x in st2) and cval(args(rc[1])[1]) not in (None, 0)
    chk.inst(rule, f, "second-reconnect", ok2, "levels are rebuilt a second time (KEEPSTRUCTURE) after empty objects were removed")
    n += 1
    k = 0
    for r in returns(f):
        st = m.before.get(r["id"])
        if st is None or not r.get("c") or cval(r["c"][0]) != 0:
            continue
        k += 1
        for c in SUCCESS_NEEDS:
            n += 1
            chk.inst(rule, f, "success#%d:%s" % (k, c), any(x[0] == "call" and x[1] == c for x in st), "the success return is reached only after %s()" % c, loc=f.loc(r))
    chk.need(k >= 1, "R-PIPE: hwloc_discover has no `return 0`")
    # remove_unused_sets iff !INCLUDE_DISALLOWED
    for c in f.calls("remove_unused_sets"):
        st = m.before.get(c["id"], frozenset())
        n += 1
        chk.inst(rule, f, "disallowed-removed", any(x[0] == "F" and "HWLOC_TOPOLOGY_FLAG_INCLUDE_DISALLOWED" in x[1] for x in st), "remove_unused_sets() runs exactly when INCLUDE_DISALLOWED is unset", loc=f.loc(c))
    # allowed sets clipped to the root sets on every path to the propagation
    ands = [c for c in f.calls("hwloc_bitmap_and") if lv(args(c)[0]) in ("topology->allowed_cpuset", "topology->allowed_nodeset")]
    n += 1
    chk.inst(rule, f, "allowed-clipped", len(ands) == 2 and all(lv(args(c)[1]) == lv(args(c)[0]) for c in ands), "allowed_cpuset/allowed_nodeset are intersected with the root sets (found %d)" % len(ands))
    return n


def load_tail(chk, P, rule="R-PIPE"):
    f = P.need_func("hwloc_topology_load", "topology.c")
    m = must.Must(f).run()
    n = 0
    # failure path re-initialises
    fails = [r for r in returns(f) if r.get("c") and cval(r["c"][0]) == -1]
    out_lab = [x for x in f.walk() if x["k"] == "Label" and x.get("label") == "out"]
    if out_lab:
        calls = set(c.get("fn") for c in f.calls() if c.get("l", 0) >= out_lab[0].get("l", 0))
        n += 1
        need = {"hwloc_topology_clear", "hwloc_topology_setup_defaults", "hwloc_backends_disable_all"}
        chk.inst(rule, f, "failure-reinit", need <= calls, "the failure path clears the topology, restores defaults and disables the backends (found %s)" % sorted(need & calls))
    # state becomes LOADED only after discovery and the refreshes
    for x in f.walk():
        a = assigned(x)
        if a and lv(a[0]) == "topology->state" and a[2] is not None and "IS_LOADED" in src(a[2]) and a[1] in ("|=", "="):
            st = m.before.get(x["id"], frozenset())
            n += 1
            chk.inst(rule, f, "loaded-after-discover", any(y[0] == "call" and y[1] == "hwloc_discover" for y in st), "the LOADED state bit is set only after hwloc_discover() completed", loc=f.loc(x))
    return n


def reconnect_complete(chk, P, rule="R-PIPE"):
    f = P.need_func("hwloc__reconnect", "topology.c")
    # nothing to reconnect when the topology was not modified: V(c) = c ran, or `topology->modified` was false
    canon = [((lambda fct, c=c: (fct[0] == "call" and fct[1] == c) or (fct[0] == "F" and fct[1] == "topology->modified")), ("V", c, frozenset()))
             for c in ("hwloc_connect_children", "hwloc_connect_levels", "hwloc_connect_special_levels")]
    m = must.Must(f, canon=canon).run()
    n = 0
    for x in f.walk():
        a = assigned(x)
        if a and lv(a[0]) == "topology->modified" and a[2] is not None and cval(a[2]) == 0:
            st = m.before.get(x["id"], frozenset())
            for c in ("hwloc_connect_children", "hwloc_connect_levels", "hwloc_connect_special_levels"):
                n += 1
                chk.inst(rule, f, "modified-cleared-after:" + c, ("V", c, frozenset()) in st, "`modified` is cleared only after %s() ran (or nothing was modified)" % c, loc=f.loc(x))
    chk.need(n >= 3, "R-PIPE: hwloc__reconnect no longer clears topology->modified after the three connect passes")
    return n
