"""R-RELFAIL: a pointer handed to a function that releases it on its failing paths is not used after that call failed.

"On failure, the handle is freed" is a contract that callers must honour: after the failed call the pointer dangles, the caller
may only drop it (typically `handle = NULL; goto out;` in front of a common cleanup that cancels a non-NULL handle).

Decided by evaluation.  Releasing callees are DISCOVERED: a function is explored path by path and each exit records whether the
parameter was handed to a releaser (free, hwloc_bitmap_free, ..., or a discovered function that releases that parameter on every
path) -- "releases on failure" means every failing exit released it and no successful exit did.  Each caller that passes a named
pointer to such a function is explored with the callee outcomes forked into failed / succeeded; on the failed outcome the pointer
is marked released until it is re-assigned; handing it to any call or dereferencing it while marked is the violation.  Tests of
the pointer value itself (`if (handle)`) are not uses."""
from prog import *
import peval
import uaf

_SUM = {}


def releases(P, g, depth=0):
    """{param index: 'always' | 'onfail'} for pointer parameters of g"""
    if g.name in _SUM:
        return _SUM[g.name]
    _SUM[g.name] = {}
    if g.entry is None or depth > 3:
        return {}
    T = g.unit.types
    cands = {p["n"]: i for i, p in enumerate(g.params) if T[p["t"]].get("ptr")}
    if not cands:
        return {}
    # local aliases of a parameter:  struct X *dist = handle;
    alias = {}
    for n in g.walk():
        if n["k"] == "Var" and n.get("c") and n["c"][0] is not None and lv(n["c"][0]) in cands:
            alias[n["n"]] = lv(n["c"][0])
    reassigned = set()
    for n in g.walk():
        a = assigned(n)
        if a and lv(a[0]) in alias:
            reassigned.add(lv(a[0]))
    alias = {k: v for k, v in alias.items() if k not in reassigned}
    def pname(k):
        return k if k in cands else alias.get(k)
    hits = set()
    for c in g.calls():
        fn = c.get("fn")
        if fn in uaf.RELEASE and uaf.RELEASE[fn] is not None:
            idxs = [uaf.RELEASE[fn]]
        else:
            h = P.func(fn) if fn else None
            if h is None or h is g or h.entry is None:
                continue
            idxs = [i for i, how in releases(P, h, depth + 1).items() if how == "always"]
        for i in idxs:
            if i < len(args(c)) and pname(lv(args(c)[i])):
                hits.add((c["id"], pname(lv(args(c)[i]))))
    if not hits:
        return {}
    byc = {}
    for cid, pn in hits:
        byc.setdefault(cid, set()).add(pn)
    names = set(pn for _, pn in hits)
    exits = {pn: [] for pn in names}
    def obs(n, env):
        if n["k"] == "Call" and n["id"] in byc:
            for pn in byc[n["id"]]:
                env["?" + pn] = 1
        a = assigned(n)
        if a and lv(a[0]) in names:
            env["?" + lv(a[0])] = 2
    rt = T[g.d["ret"]]
    def obx(kind, n, env):
        v = None
        if kind == "return" and n.get("c") and n["c"][0] is not None:
            v = peval.Evaluator(g, env).ev(n["c"][0])
        for pn in names:
            exits[pn].append((v, env.get("?" + pn, 0)))
    try:
        peval.PathEval(P, g, {}, is_effect=lambda *z: False, through_effects=True, observe=obs, observe_exit=obx, maxstates=30000, track=set()).run()
    except AnalysisBroken:
        return {}
    out = {}
    isfail = (lambda v: v == 0) if rt.get("ptr") else (lambda v: v < 0)
    for pn in names:
        ex = exits[pn]
        if not ex or any(d == 2 for v, d in ex):
            continue
        if all(d == 1 for v, d in ex):
            out[cands[pn]] = "always"
        elif rt["s"] != "void" and all(v is not None for v, d in ex):
            rel = [v for v, d in ex if d == 1]
            keep = [v for v, d in ex if d == 0]
            if rel and keep and all(isfail(v) for v in rel) and not any(isfail(v) for v in keep):
                out[cands[pn]] = "onfail"
    _SUM[g.name] = out
    return out


def run(chk, P, units, rule="R-RELFAIL"):
    nsites = 0
    found = {}
    for u in units:
        for f in P.unit(u).funcs(only_main=True):
            if f.entry is None:
                continue
            sites = []
            for c in f.calls():
                g = P.func(c["fn"]) if c.get("fn") else None
                if g is None or g is f or g.entry is None:
                    continue
                for i, how in releases(P, g).items():
                    if how == "onfail" and i < len(args(c)):
                        k = lv(args(c)[i])
                        if k is not None and strip(args(c)[i])["k"] == "Ref":
                            sites.append((c["id"], k))
                            found[g.name] = i
            if not sites:
                continue
            byc = {}
            for cid, k in sites:
                byc.setdefault(cid, []).append(k)
            keys = set(k for _, k in sites)
            bad = {}
            def obs(n, env, f=f, keys=keys, bad=bad, byc=byc):
                a = assigned(n)
                if a and lv(a[0]) in keys:
                    env.pop("?" + lv(a[0]), None)
                    return
                if n["k"] == "DeclStmt":
                    for v in n["c"]:
                        if v["n"] in keys:
                            env.pop("?" + v["n"], None)
                    return
                use = None
                if n["k"] == "Call":
                    for x in args(n):
                        if lv(x) in keys and env.get("?" + lv(x)):
                            use = (lv(x), "passed to %s()" % (n.get("fn") or "a function pointer"))
                elif n["k"] in ("Member", "Unary", "Sub"):
                    base = None
                    if n["k"] == "Member" and n.get("arrow"):
                        base = lv(n["c"][0])
                    elif n["k"] == "Unary" and n["op"] == "*":
                        base = lv(n["c"][0])
                    elif n["k"] == "Sub":
                        base = lv(n["c"][0])
                    if base in keys and env.get("?" + base):
                        use = (base, "dereferenced (%s)" % src(n)[:40])
                if use:
                    bad.setdefault((use[0], env["?" + use[0]]), (f.loc(n), use[1]))
            def hook(c, kind, upd, env, byc=byc):
                if kind == "fail":
                    for k in byc.get(c["id"], ()):
                        upd["?" + k] = c["id"]
            flagv = {}
            for n in f.walk():
                tgt = rhs = None
                a = assigned(n)
                if a and lv(a[0]) and strip(a[0])["k"] == "Ref":
                    tgt, rhs = lv(a[0]), (a[2] if a[1] == "=" else False)
                elif n["k"] == "Var" and n.get("c") and n["c"][0] is not None:
                    tgt, rhs = n["n"], n["c"][0]
                if tgt is None:
                    continue
                good = rhs is not False and rhs is not None and (cval(rhs) is not None or strip(rhs)["k"] == "Call")
                flagv[tgt] = flagv.get(tgt, True) and good
            track = set(k for k, v in flagv.items() if v) | keys
            try:
                peval.PathEval(P, f, {}, is_effect=lambda *z: False, through_effects=True, observe=obs, fork_hook=hook, maxstates=150000, track=track).run()
            except AnalysisBroken as ex:
                chk.broke("%s: %s not evaluable (%s)" % (rule, f.name, ex))
                continue
            ordn = {}
            for cid, k in sites:
                nsites += 1
                c = f.nodes[cid]
                ordn[(k, c["fn"])] = ordn.get((k, c["fn"]), 0) + 1
                hit = bad.get((k, cid))
                chk.inst(rule, f, "%s@%s#%d" % (k, c["fn"], ordn[(k, c["fn"])]), hit is None,
                         "%s() releases `%s` when it fails: the caller does not use it after a failed call%s"
                         % (c["fn"], k, "" if hit is None else " -- but it is %s at %s after the call at line %s failed" % (hit[1], hit[0], c.get("l"))), loc=f.loc(c))
    return nsites, found
