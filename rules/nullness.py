"""R-NULLATTR: nullness dataflow for optional local pointers.

A local pointer that is explicitly initialised/assigned NULL somewhere in the function is *optional*.
State per optional variable: NULL / NONNULL / MAYBE (join of the two).  Branch tests refine it.
Obligation: every use that needs a non-NULL pointer (dereference, argument of a libc/hwloc function that
dereferences it unconditionally) is reached only in state NONNULL.
Callees of the program are summarised by the same analysis: parameter k *requires* non-NULL if the callee
uses it in a non-NULL-requiring way on a path where it has not tested it."""
from prog import *

NULL, NONNULL, MAYBE = 0, 1, 2

# external functions: indices of pointer parameters that must not be NULL
EXT_NONNULL = {
    "strcmp": (0, 1), "strncmp": (0, 1), "strcasecmp": (0, 1), "strncasecmp": (0, 1), "strlen": (0,), "strdup": (0,), "atoi": (0,), "atof": (0,),
    "atol": (0,), "strtoul": (0,), "strtoull": (0,), "strtol": (0,), "sscanf": (0, 1), "strstr": (0, 1), "strchr": (0,), "strrchr": (0,),
    "memcpy": (0, 1), "memmove": (0, 1), "strcpy": (0, 1), "strncpy": (0, 1), "strspn": (0, 1), "strcspn": (0, 1), "memcmp": (0, 1),
    "fopen": (0,), "opendir": (0,), "fputs": (0,),
}


def _j(a, b):
    return a if a == b else MAYBE


class NullFlow(Flow):
    def __init__(self, func, tracked, requires, params_maybe=()):
        Flow.__init__(self, func)
        self.tracked = tracked            # set of did
        self.requires = requires          # callable(fn name) -> tuple of param indices or None
        self.params_maybe = set(params_maybe)
        self.uses = {}                    # construct -> (ok, detail, loc)
        self._n = {}
        self._c = {}

    def init(self):
        st = {}
        for d in self.params_maybe:
            st[d] = MAYBE
        return st

    def join(self, a, b):
        out = {}
        for k in set(a) | set(b):
            if k in a and k in b:
                out[k] = _j(a[k], b[k])
            else:
                # declared on one path only (scopes): unknown on the other -> MAYBE
                out[k] = MAYBE
        return out

    def val(self, st, e):
        """nullness of expression e"""
        e = strip(e)
        if e is None:
            return NONNULL
        if cval(e) == 0 and e["k"] in ("Int", "Cast") or (cval(e) == 0 and e["k"] not in ("Ref", "Member", "Call")):
            return NULL
        if e["k"] == "Ref" and e.get("did") in st:
            return st[e["did"]]
        if e["k"] == "Cond":
            return _j(self.val(st, e["c"][1]), self.val(st, e["c"][2]))
        return NONNULL

    def elem(self, st, n):
        k = n["k"]
        f = self.f
        if k == "DeclStmt":
            new = None
            for v in n["c"]:
                if v["did"] in self.tracked:
                    init = v["c"][0] if v.get("c") else None
                    new = new if new is not None else dict(st)
                    new[v["did"]] = self.val(st, init) if init is not None else MAYBE
            return new if new is not None else st
        a = assigned(n)
        if a is not None:
            t = strip(a[0])
            if t["k"] == "Ref" and t.get("did") in self.tracked and a[1] == "=":
                new = dict(st)
                new[t["did"]] = self.val(st, a[2])
                return new
            # dereference on the left: *x = .. / x->f = .. / x[i] = ..
            return st
        if k == "Call":
            fn = n.get("fn")
            req = self.requires(fn) if fn else None
            new = None
            for i, x in enumerate(args(n)):
                x2 = strip(x)
                if x2 is None:
                    continue
                # &var passed: callee may assign it (out-parameter): unknown afterwards -> NONNULL/MAYBE? keep MAYBE
                if x2["k"] == "Unary" and x2["op"] == "&":
                    r = strip(x2["c"][0])
                    if r["k"] == "Ref" and r.get("did") in self.tracked:
                        # out-parameter: set by the callee on its success path (which the caller tests)
                        new = new if new is not None else dict(st)
                        new[r["did"]] = NONNULL
                    continue
                if req and i in req:
                    base = x2
                    if base["k"] == "Binary" and base["op"] in ("+", "-"):
                        base = strip(base["c"][0])
                    if base["k"] == "Ref" and base.get("did") in self.tracked:
                        self.use(st, base, n, "argument %d of %s" % (i, fn))
            return new if new is not None else st
        if k in ("Member",) and n.get("arrow"):
            b = strip(n["c"][0])
            if b["k"] == "Ref" and b.get("did") in self.tracked:
                self.use(st, b, n, "dereference %s" % src(n))
        elif k == "Unary" and n["op"] == "*":
            b = strip(n["c"][0])
            if b["k"] == "Binary" and b["op"] in ("+", "-"):
                b = strip(b["c"][0])
            if b["k"] == "Ref" and b.get("did") in self.tracked:
                self.use(st, b, n, "dereference %s" % src(n))
        elif k == "Sub":
            b = strip(n["c"][0])
            if b["k"] == "Ref" and b.get("did") in self.tracked:
                self.use(st, b, n, "dereference %s" % src(n))
        return st

    def use(self, st, ref, node, what):
        if not self.recording:
            return
        name = ref["n"]
        v = st.get(ref["did"], NONNULL)
        key = (node["id"], ref["did"])
        c = self._c.get(key)
        if c is None:
            self._n[name] = self._n.get(name, 0) + 1
            c = self._c[key] = "%s@%s#%d" % (name, what.split(" of ")[-1].split(" ")[0] if "argument" in what else "deref", self._n[name])
        ok = v == NONNULL
        if c in self.uses and not self.uses[c][0]:
            return
        self.uses[c] = (ok, "%s: %s is %s here" % (what, name, ("NULL", "non-NULL", "possibly NULL")[v]), self.f.loc(node))

    def edge(self, st, blk, cond, truth):
        if not isinstance(truth, bool):
            return st
        new = None
        for atom, t in edge_facts(cond, truth):
            l, op, r = rel(atom, t)
            for a, b in ((l, r), (r, l)):
                a2 = strip(a)
                if a2["k"] == "Binary" and a2["op"] == "=":
                    a2 = strip(a2["c"][0])       # (x = f()) != NULL
                if a2["k"] == "Ref" and a2.get("did") in self.tracked and cval(b) == 0 and op in ("!=", "=="):
                    new = new if new is not None else dict(st)
                    val = NONNULL if op == "!=" else NULL
                    cur = st.get(a2["did"], MAYBE)
                    if (cur == NULL and val == NONNULL) or (cur == NONNULL and val == NULL):
                        return None      # infeasible edge
                    new[a2["did"]] = val
        return new if new is not None else st


class NullFlowPS(Flow):
    """NullFlow made path-sensitive on the function's correlated *stable conditions* (see lib/paths.py): the state is
    a set of disjuncts {valuation of tracked stable conditions -> nullness state}."""
    MAXD = 256

    def __init__(self, func, tracked, requires, params_maybe=()):
        Flow.__init__(self, func)
        import paths
        self.base = NullFlow(func, tracked, requires, params_maybe)
        self.akeys = paths.assigned_keys(func)
        self.paths = paths
        ac = paths.assign_counts(func)
        self.once = set(k for k, v in ac.items() if v == 1 and k.isidentifier())
        # stable conditions that guard at least two branches
        cnt = {}
        for b, blk in func.blocks.items():
            if blk.get("tc") is None or len(blk["s"]) != 2:
                continue
            cond = branch_cond(func, blk)
            for atom, t in edge_facts(cond, True):
                txt = paths.stable_text(func, atom, self.akeys, self.once)
                if txt is not None:
                    cnt[txt] = cnt.get(txt, 0) + 1
        for b, blk in func.blocks.items():
            if blk.get("tk") == "SwitchStmt" and blk.get("tc") is not None:
                sw = func.nodes.get(blk["tc"])
                t0 = paths.stable_text(func, sw, self.akeys, self.once)
                if t0 is not None:
                    for s2 in blk["s"]:
                        if s2 is None:
                            continue
                        lab = func.nodes.get(func.blocks[s2].get("lab")) if func.blocks[s2].get("lab") is not None else None
                        if lab is not None and lab["k"] == "Case" and cval(lab["c"][0]) is not None:
                            txt = "%s == #%d" % (t0, cval(lab["c"][0]))
                            cnt[txt] = cnt.get(txt, 0) + 1
        self.conds = set(sorted([c for c, k in cnt.items() if k >= 2], key=lambda c: -cnt[c])[:5])

    @property
    def uses(self):
        return self.base.uses

    def dkey(self, facts, v):
        return (facts, frozenset((d, x) for d, x in v.items() if x != MAYBE))

    def join(self, a, b):
        out = dict(a)
        for k, v in b.items():
            if k in out:
                out[k] = self.base.join(out[k], v)
            else:
                out[k] = v
        if len(out) > self.MAXD:
            # collapse: forget the valuations
            m = None
            for v in out.values():
                m = v if m is None else self.base.join(m, v)
            out = {(frozenset(), frozenset()): m}
        return out

    def init(self):
        v = self.base.init()
        return {self.dkey(frozenset(), v): v}

    def elem(self, st, n):
        self.base.recording = self.recording
        out = {}
        for k, v in st.items():
            v2 = self.base.elem(v, n)
            k2 = self.dkey(k[0], v2)
            out[k2] = self.base.join(out[k2], v2) if k2 in out else v2
        return out

    def edge(self, st, blk, cond, truth):
        facts = []
        if isinstance(truth, bool):
            for atom, t in edge_facts(cond, truth):
                txt = self.paths.stable_text(self.f, atom, self.akeys, self.once)
                if txt is not None and txt in self.conds:
                    facts.append((txt, t))
        elif truth[1] is not None:
            t0 = self.paths.stable_text(self.f, cond, self.akeys, self.once)
            if t0 is not None:
                txt = "%s == #%d" % (t0, truth[1])
                if txt in self.conds:
                    facts.append((txt, True))
        out = {}
        for k, v in st.items():
            if any((txt, not t) in k[0] for txt, t in facts):
                continue
            v2 = self.base.edge(v, blk, cond, truth) if isinstance(truth, bool) else v
            if v2 is None:
                continue
            k2 = self.dkey(frozenset(k[0] | set(facts)) if facts else k[0], v2)
            out[k2] = self.base.join(out[k2], v2) if k2 in out else v2
        return out if out else None


class Nullness(object):
    def __init__(self, P):
        self.P = P
        self._req = {}

    def optional_locals(self, f):
        """locals of pointer type that are assigned/initialised NULL somewhere"""
        out = set()
        for n in f.walk():
            if n["k"] == "Var":
                t = f.unit.types[n["t"]]
                if t.get("ptr") and not n.get("static"):
                    init = n["c"][0] if n.get("c") else None
                    if init is not None and cval(strip(init)) == 0 and strip(init)["k"] != "Ref":
                        out.add(n["did"])
            a = assigned(n)
            if a and a[1] == "=":
                t = strip(a[0])
                if t["k"] == "Ref" and t.get("dk") == "local" and a[2] is not None and cval(strip(a[2])) == 0:
                    tt = f.type_of(t)
                    if tt and tt.get("ptr"):
                        out.add(t["did"])
        return out

    def requires(self, fn):
        """param indices of fn that must not be NULL"""
        if fn in EXT_NONNULL:
            return EXT_NONNULL[fn]
        if fn in self._req:
            return self._req[fn]
        self._req[fn] = ()
        g = self.P.func(fn)
        if g is None or g.entry is None:
            return ()
        pdids = [p["did"] for p in g.params]
        ptr = [i for i, p in enumerate(g.params) if g.unit.types[p["t"]].get("ptr")]
        if not ptr:
            return ()
        # path-sensitive, like the analysis of the callers: a parameter used only under a condition that the callee itself
        # correlates with its NULL test (type == INFO && !name -> error ... case INFO: strdup(name)) is not required non-NULL
        try:
            fl = NullFlowPS(g, set(pdids[i] for i in ptr), self.requires, params_maybe=[pdids[i] for i in ptr])
            fl.run()
        except AnalysisBroken:
            try:
                fl = NullFlow(g, set(pdids[i] for i in ptr), self.requires, params_maybe=[pdids[i] for i in ptr])
                fl.run()
            except AnalysisBroken:
                return ()
        bad = set()
        names = {p["n"]: i for i, p in enumerate(g.params)}
        for c, (ok, detail, loc) in fl.uses.items():
            if not ok:
                nm = c.split("@")[0]
                if nm in names:
                    bad.add(names[nm])
        # a parameter the callee never tests and uses => requires non-NULL; one it tests somewhere is treated as tolerated
        # only if all its uses are guarded (bad empty for it)
        self._req[fn] = tuple(sorted(bad))
        return self._req[fn]

    def run(self, chk, unit, rule="R-NULLATTR", funcs=None, exceptions=None):
        exceptions = exceptions or {}
        n_vars = n_uses = 0
        for f in self.P.unit(unit).funcs(only_main=True):
            if funcs is not None and f.name not in funcs:
                continue
            if f.entry is None:
                continue
            opt = self.optional_locals(f)
            if not opt:
                continue
            n_vars += len(opt)
            fl = NullFlowPS(f, opt, self.requires)
            fl.run()
            for c, (ok, detail, loc) in sorted(fl.uses.items()):
                n_uses += 1
                nm = c.split("@")[0]
                exc = exceptions.get((f.name, nm))
                if not ok and exc:
                    chk.inst(rule, f, c, True, "frozen exception: %s (%s)" % (exc, detail), loc=loc, nontrivial=False)
                else:
                    chk.inst(rule, f, c, ok, detail, loc=loc)
        return n_vars, n_uses


NULLABLE_FIELDS = {("hwloc_obj", "name"), ("hwloc_obj", "subtype"), ("hwloc_distances_s", "name"), ("hwloc_internal_distances_s", "name")}


def nullable_fields(chk, P, units, rule="R-NULLFIELD", exceptions=None):
    """object names and subtypes are optional: every use as a string (strcmp, strlen, strdup, ...) is dominated by a test of
    the same field"""
    import must
    exceptions = exceptions or {}
    n = 0
    for un in units:
        for f in P.unit(un).funcs(only_main=False):
            if f.entry is None:
                continue
            sites = []
            for c in f.calls():
                req = EXT_NONNULL.get(c.get("fn"))
                if not req:
                    continue
                for i in req:
                    a = args(c)
                    if i < len(a):
                        x = strip(a[i])
                        if x is not None and x["k"] == "Member" and (x.get("rec"), x["f"]) in NULLABLE_FIELDS:
                            sites.append((c, x))
            if not sites:
                continue
            m = must.Must(f).run()
            k = 0
            for c, x in sites:
                st = m.before.get(c["id"])
                if st is None:
                    continue
                k += 1
                n += 1
                txt = src(x)
                ok = must.nonnull(st, txt)
                if not ok:
                    # already handed to a string function on every path before (same belief), or asserted
                    ok = any(fct[0] == "call" and fct[1] in EXT_NONNULL and txt in fct[2] for fct in st)
                exc = exceptions.get((f.name, x["f"]))
                if not ok and exc:
                    chk.inst(rule, f, "%s(%s)#%d" % (c["fn"], txt, k), True, "frozen exception: %s" % exc, loc=f.loc(c), nontrivial=False)
                else:
                    chk.inst(rule, f, "%s(%s)#%d" % (c["fn"], txt, k), ok, "%s may be NULL: its use in %s() must be dominated by a test of it" % (txt, c["fn"]), loc=f.loc(c))
    return n
