"""R-LINKFREE: an object handed to an insertion function is never released afterwards by its creator (typestate).

hwloc_alloc_setup_object() -> [unlinked] -> insertion -> [consumed].  The insertion functions take ownership in every case:
they link the object, merge it into an existing one and free it, or free it on failure.  A later
hwloc_free_unlinked_object(x) on the same variable frees a linked object (the tree then links freed memory) or frees twice.
May-dataflow: x is 'consumed' after a call of a consuming function with x as the object argument on SOME path; re-assigning x
clears it.  The low-level inserters that only report (result == obj iff linked) are handled through the must-fact
`result != obj` at the release site."""
from prog import *
import must, paths

CONSUME = {"hwloc__insert_object_by_cpuset": 2, "hwloc__attach_memory_object": 2, "hwloc_insert_object_by_parent": 2,
           "hwloc_pcidisc_tree_insert_by_busid": 1, "hwloc_topology_insert_group_object": 1}
REPORT = {"hwloc___insert_object_by_cpuset": 2, "hwloc___attach_memory_object_by_nodeset": 2}
RELEASE = ("hwloc_free_unlinked_object",)


class _Consumed(Flow):
    def __init__(self, f):
        Flow.__init__(self, f)
        self.at = {}

    def init(self):
        return frozenset()

    def join(self, a, b):
        return a | b

    def elem(self, st, n):
        if n["k"] == "Call":
            fn = n.get("fn")
            if fn in RELEASE and self.recording:
                self.at[n["id"]] = st
            idx = CONSUME.get(fn, REPORT.get(fn))
            if idx is not None and len(args(n)) > idx:
                k = lv(args(n)[idx])
                if k:
                    return st | {(k, fn, n.get("l", 0), n["id"])}
            return st
        if n["k"] == "DeclStmt":
            names = set(v["n"] for v in n["c"])
            return frozenset(x for x in st if x[0] not in names)
        a = assigned(n)
        if a:
            k = lv(a[0])
            if k:
                return frozenset(x for x in st if x[0] != k)
        return st


def run(chk, P, units=None, rule="R-LINKFREE"):
    n = 0
    for f in P.all_funcs():
        if units is not None and os.path.basename(f.file) not in units:
            continue
        rel = list(f.calls(RELEASE))
        if not rel or f.entry is None:
            continue
        if f.name in CONSUME or f.name in REPORT:
            own = True
        fl = _Consumed(f).run()
        m = None
        for c in rel:
            k = lv(args(c)[0])
            if k is None or c["id"] not in fl.at:
                continue
            n += 1
            hits = [x for x in fl.at[c["id"]] if x[0] == k]
            ok = True
            why = "no insertion of `%s` reaches this release" % k
            for (key, fn, line, cid) in hits:
                if m is None:
                    m = must.Must(f).run()
                st = m.before.get(c["id"], frozenset())
                call = f.nodes[cid]
                if fn in REPORT:
                    # released only when the inserter reported that it did not link the object
                    res = None
                    p = f.par(call)
                    while p is not None and p["k"] == "Cast":
                        p = f.par(p)
                    if p is not None and assigned(p) and assigned(p)[1] == "=":
                        res = lv(assigned(p)[0])
                    elif p is not None and p["k"] == "Var":
                        res = p["n"]
                    ne = ("%s != %s" % (res, key), "%s != %s" % (key, res))
                    eq = ("%s == %s" % (res, key), "%s == %s" % (key, res))
                    good = res is not None and any((x[0] in ("R", "T") and x[1] in ne) or (x[0] == "F" and x[1] in eq) for x in st)
                    if good:
                        why = "released only under `%s != %s` (the inserter reported that it did not link it)" % (res, key)
                        continue
                # path-sensitive second opinion: is the release reachable from the insertion on a path consistent with the
                # conditions that hold at the insertion and are not modified afterwards?
                stc = m.before.get(cid, frozenset())
                after = paths.assigned_after(f, call)
                assume = [(x[1], x[0] == "T") for x in stc if x[0] in ("T", "F") and not any(
                    (a == nm or a.startswith(nm + "->") or a.startswith(nm + ".")) for a in after for nm in x[-1])]
                # re-normalise the assumed texts the way reach() renders conditions
                b_from = f.elem_block.get(cid, (None,))[0]
                b_to = f.elem_block.get(c["id"], (None,))[0]
                if b_from is not None and b_to is not None and b_from != b_to:
                    kill = set(b for b, blk in f.blocks.items() for e in blk["e"] if assigned(f.nodes[e]) and lv(assigned(f.nodes[e])[0]) == key)
                    w = paths.reach(f, b_from, lambda b: b == b_to, avoid=kill, assume=assume, akeys=after)
                    if w is None:
                        why = "an insertion of `%s` exists (%s at line %s) but no feasible path leads from it to this release (correlated conditions %s)" % (
                            key, fn, line, sorted(t for t, v in assume)[:4])
                        continue
                ok = False
                why = "`%s` may already have been handed to %s() at line %s on a path to this release: the object is linked (or already freed) there" % (key, fn, line)
                break
            chk.inst(rule, f, "release:%s#%d" % (k, sum(1 for c2 in rel if c2.get("l", 0) <= c.get("l", 0) and lv(args(c2)[0]) == k)), ok, why, loc=f.loc(c))
    return n
