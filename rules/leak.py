"""R-LEAK: a local allocation is released, stored or handed over on every path to a return (may-dataflow).

v = malloc/calloc/strdup/hwloc_bitmap_alloc/hwloc_bitmap_dup/... makes the LOCAL variable v the owner.  Ownership ends when v is
passed to any call (release or hand-over: conservative), stored anywhere (x = v, p->f = v, *out = v), returned, or known to be
NULL on the edge taken.  A return reached while v still owns its allocation leaks it.  Path search with correlated stable
conditions discards infeasible reports (as in R-UAF)."""
from prog import *
import must, paths

ALLOC = ("malloc", "calloc", "strdup", "hwloc_bitmap_alloc", "hwloc_bitmap_alloc_full", "hwloc_bitmap_dup", "hwloc_alloc_setup_object", "hwloc_tma_malloc", "hwloc_tma_calloc", "hwloc_tma_strdup")


NONRETAIN = {"strcmp", "strncmp", "strcasecmp", "strncasecmp", "hwloc_strncasecmp", "strlen", "sscanf", "snprintf", "sprintf", "fprintf", "printf", "memcpy", "memcmp",
             "memset", "strtoul", "strtoull", "strtol", "atoi", "atof", "strcpy", "strncpy", "strcat", "fwrite", "fread", "write", "read", "fputs", "puts", "qsort", "strspn",
             "strcspn", "__builtin_memset", "fgets", "readlink", "readlinkat", "vsnprintf", "strdup"}


class _Own(Flow):
    def __init__(self, f, E=None):
        Flow.__init__(self, f)
        self.E = E
        self.leaks = []
        self.locals = set()
        for n in f.walk():
            if n["k"] == "Var" and n.get("dk", "local") != "param" and not n.get("static"):
                self.locals.add(n["n"])

    def init(self):
        return frozenset()

    def join(self, a, b):
        return a | b

    def _mentions(self, e, key):
        return any(lv(x) == key for x in subnodes(e) if x["k"] in ("Ref",))

    def elem(self, st, n):
        k = n["k"]
        if k == "Return":
            e = n["c"][0] if n.get("c") else None
            for (v, nid) in st:
                if e is not None and self._mentions(e, v):
                    continue
                if self.recording:
                    self.leaks.append((n, v, nid))
            return st
        if k == "Call":
            # a call that receives v ends v's ownership when the callee may release or retain it: per the effect summaries
            # (frees the object / stores or returns the pointer), unknown callees conservatively, plain readers never
            gone = set()
            fn = n.get("fn")
            S = self.E.sum.get(fn) if (self.E is not None and fn) else None
            for i, a in enumerate(args(n)):
                for (v, nid) in st:
                    if not self._mentions(a, v):
                        continue
                    direct = lv(a) == v
                    if fn in NONRETAIN:
                        continue
                    if S is not None and direct and self.f.unit is not None and self.E.P.func(fn) is not None:
                        frees = ("arg", i, ()) in S.free
                        stores = any(("arg", i, ()) in vals for vals in S.pst.values()) or ("arg", i, ()) in getattr(S, "ret", ())
                        if not frees and not stores:
                            continue
                    gone.add(v)
            if gone:
                st = frozenset(x for x in st if x[0] not in gone)
            return st
        tgt = rhs = None
        if k == "DeclStmt":
            for v in n["c"]:
                init = v["c"][0] if v.get("c") else None
                if init is not None:
                    st = self._assign(st, v["n"], init, n)
            return st
        a = assigned(n)
        if a:
            key = lv(a[0])
            if a[1] == "=" and a[2] is not None:
                return self._assign(st, key, a[2], n)
        return st

    def _assign(self, st, key, rhs, n):
        r = strip(rhs)
        # the value of an owner flows somewhere: stored / aliased -> ownership handed over
        gone = set(v for (v, nid) in st if self._mentions(rhs, v) and v != key)
        if gone:
            st = frozenset(x for x in st if x[0] not in gone)
        if key is not None:
            st = frozenset(x for x in st if x[0] != key)      # re-assigned (a leak by overwrite is not reported here)
            if key in self.locals and r is not None and r["k"] == "Call" and r.get("fn") in ALLOC:
                st = st | {(key, n["id"])}
        return st

    def edge(self, st, blk, cond, truth):
        if not isinstance(truth, bool) or not st:
            return st
        for atom, t in edge_facts(cond, truth):
            l, op, r = rel(atom, t)
            for (a, o, b) in ((l, op, r), (r, SWAP[op], l)):
                k = lv(a)
                if k is not None and cval(b) == 0 and o == "==":
                    st = frozenset(x for x in st if x[0] != k)
        return st


def run(chk, P, E, units=None, rule="R-LEAK"):
    n = 0
    for f in P.all_funcs():
        if units is not None and os.path.basename(f.file) not in units:
            continue
        if f.entry is None or not any(c.get("fn") in ALLOC for c in f.calls()):
            continue
        fl = _Own(f, E).run()
        n += sum(1 for c in f.calls(ALLOC))
        m = None
        seen = set()
        for (ret, v, nid) in fl.leaks:
            if (v, nid, ret["id"]) in seen:
                continue
            seen.add((v, nid, ret["id"]))
            an = f.nodes[nid]
            if m is None:
                m = must.Must(f).run()
            stc = m.before.get(nid, frozenset())
            after = paths.assigned_after(f, an)
            assume = [(x[1], x[0] == "T") for x in stc if x[0] in ("T", "F") and not any((a == nm or a.startswith(nm + "->") or a.startswith(nm + ".")) for a in after for nm in x[-1])]
            b_from = f.elem_block.get(nid, (None,))[0]
            b_to = f.elem_block.get(ret["id"], (None,))[0]
            feasible = True
            if b_from is not None and b_to is not None and b_from != b_to:
                # blocks where v's ownership ends: any element that passes v to a call, stores it, or re-assigns it
                kill = set()
                for b, blk in f.blocks.items():
                    for e in blk["e"]:
                        x = f.nodes[e]
                        if x["k"] == "Call" and x.get("fn") not in NONRETAIN and any(lv(y) == v for a2 in args(x) for y in subnodes(a2) if y["k"] == "Ref"):
                            S2 = E.sum.get(x.get("fn")) if x.get("fn") else None
                            ends = True
                            if S2 is not None and P.func(x.get("fn")) is not None:
                                ends = any(lv(a2) == v and ((("arg", i2, ()) in S2.free) or any(("arg", i2, ()) in vals for vals in S2.pst.values()) or ("arg", i2, ()) in getattr(S2, "ret", ())) for i2, a2 in enumerate(args(x))) or any(lv(a2) != v and any(lv(y) == v for y in subnodes(a2) if y["k"] == "Ref") for a2 in args(x))
                            if ends:
                                kill.add(b)
                        a3 = assigned(x)
                        if a3 and (lv(a3[0]) == v or (a3[2] is not None and any(lv(y) == v for y in subnodes(a3[2]) if y["k"] == "Ref"))) and x["id"] != nid:
                            kill.add(b)
                kill.discard(b_from)
                # the NULL edge right after the allocation is not a leak path: assume v non-NULL
                assume = assume + [(v, True)]
                feasible = paths.reach(f, b_from, lambda b: b == b_to, avoid=kill, assume=assume, akeys=set(after) - {v}) is not None
            if not feasible:
                continue
            chk.inst(rule, f, "leak:%s@return#%d" % (v, sum(1 for r2 in returns(f) if (r2.get("l", 0), r2["id"]) <= (ret.get("l", 0), ret["id"]))), False,
                     "`%s` allocated at line %s is neither released, stored nor handed over on a path to this return" % (v, an.get("l")), loc=f.loc(ret))
        k = 0
        for c in f.calls(ALLOC):
            k += 1
            chk.inst(rule, f, "alloc#%d:%s" % (k, c["fn"]), True, "examined", loc=f.loc(c), nontrivial=True)
    return n
