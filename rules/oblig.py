"""R-OBLIG: obligations created by an effect: every success return of an entry point is dominated by the calls that
re-establish derived state (each possibly under its own NO_* flag test).  R-WRITER: who may write a field."""
from prog import *
import must


def flag_or_call(flag, callee):
    """canonical fact V(callee): the call ran, or its NO_* flag is set (then it has nothing to do)"""
    V = ("V", callee, frozenset())
    return (lambda fct: (fct[0] == "call" and fct[1] == callee) or (fct[0] == "T" and flag in fct[1] and "flags" in fct[1])), V


def success_needs(chk, P, fname, unit, calls=(), flagged=(), rule="R-OBLIG", success=lambda v: v == 0, extra_canon=()):
    """calls: callee names that must have completed; flagged: (NO_* flag name, callee) pairs"""
    f = P.need_func(fname, unit)
    canon = [flag_or_call(fl, c) for fl, c in flagged] + list(extra_canon)
    m = must.Must(f, canon=canon).run()
    n = 0
    k = 0
    for r in returns(f):
        st = m.before.get(r["id"])
        if st is None:
            continue
        e = r["c"][0] if r.get("c") else None
        v = cval(e) if e is not None else 0
        if v is None or not success(v):
            continue
        k += 1
        for c in calls:
            n += 1
            ok = any(fct[0] == "call" and fct[1] == c for fct in st)
            chk.inst(rule, f, "return#%d:%s" % (k, c), ok, "success return at %s must be preceded on every path by %s()" % (f.loc(r), c), loc=f.loc(r))
        for fl, c in flagged:
            n += 1
            ok = ("V", c, frozenset()) in st
            chk.inst(rule, f, "return#%d:%s" % (k, c), ok, "success return at %s must be preceded on every path by %s() unless %s is set" % (f.loc(r), c, fl), loc=f.loc(r))
    if k == 0:
        chk.broke("%s: no success return found in %s" % (rule, fname))
    return n


def writers(chk, P, units, record, field, owners, rule="R-WRITER", fixture=None):
    """stores to <record>.<field> only in the owner functions (zero expected elsewhere)"""
    n = 0
    seen_owner = set()
    for u in units:
        for f in P.unit(u).funcs(only_main=False):
            k = 0
            for x in f.walk():
                a = assigned(x)
                if not a:
                    continue
                t = strip(a[0])
                if t["k"] == "Member" and t.get("rec") == record and t["f"] == field:
                    k += 1
                    n += 1
                    ok = f.name in owners
                    if ok:
                        seen_owner.add(f.name)
                    chk.inst(rule, f, "store:%s.%s#%d" % (record, field, k), ok,
                             "store to %s.%s in %s" % (record, field, "owner %s (%s)" % (f.name, owners[f.name]) if ok else "%s, which is not one of the owners %s" % (f.name, sorted(owners))), loc=f.loc(x))
    return n, seen_owner
