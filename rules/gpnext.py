"""R-GPNEXT: an identifier imported from input keeps the allocator ahead of it.

gp_index values are unique because hwloc_alloc_setup_object() hands out topology->next_gp_index++.  A function that stores an
identifier converted from input (obj->gp_index = strtoull(...)) must leave next_gp_index above the stored value, otherwise the
next object allocated gets an identifier that is already taken.

Decided by evaluation at the boundary: the function is explored with topology->next_gp_index seeded to K and the conversion
forced to return K (the imported identifier equals the allocator's next value); at every exit reached after such a store,
next_gp_index must be K + 1 or more.  Both `>=`/`>` slips and a branch that forgets the update are caught; how the update is
written (if/else, max(), helper) does not matter."""
from prog import *
import peval

K = 100


def run(chk, P, units, rule="R-GPNEXT", field="gp_index", nextkey_field="next_gp_index"):
    n = 0
    for u in units:
        for f in P.unit(u).funcs(only_main=True):
            if f.entry is None:
                continue
            stores = []
            for s in f.walk():
                a = assigned(s)
                if a and a[1] == "=" and a[2] is not None and strip(a[0])["k"] == "Member" and strip(a[0])["f"] == field and strip(a[0]).get("rec") == "hwloc_obj":
                    calls = [c for c in subnodes(a[2]) if c["k"] == "Call" and c.get("fn")]
                    if calls:
                        stores.append((s, lv(a[0]), calls))
            if not stores:
                continue
            # the allocator field as this function names it: <topology parameter>->next_gp_index
            nextkeys = set(lv(m) for m in f.walk() if m["k"] == "Member" and m["f"] == nextkey_field and lv(m))
            tparam = [p["n"] for p in f.params if f.unit.types[p["t"]].get("prec") == "hwloc_topology"]
            nk = sorted(nextkeys)[0] if nextkeys else ("%s->%s" % (tparam[0], nextkey_field) if tparam else None)
            if not chk.need(nk is not None, "%s: %s stores an imported %s but has no topology to keep %s for" % (rule, f.name, field, nextkey_field)):
                continue
            cv = {c["fn"]: K for _, _, cs in stores for c in cs}
            keys = set(k for _, k, _ in stores)
            res = {}
            def obs(nd, env, res=res):
                for s, k, _ in stores:
                    if nd["id"] == s["id"]:
                        env["#st"] = s["id"]
            def obx(kind, nd, env, res=res, nk=nk):
                sid = env.get("#st")
                if sid is None:
                    return
                k = [k for s, k, _ in stores if s["id"] == sid][0]
                if env.get(k) != K:
                    return
                v = env.get(nk)
                ok = v is not None and v > K
                res[sid] = res.get(sid, True) and ok
            try:
                peval.PathEval(P, f, {nk: K}, is_effect=lambda *z: False, through_effects=True, observe=obs, observe_exit=obx, call_values=cv,
                               track=keys | {nk}, maxstates=100000).run()
            except AnalysisBroken as ex:
                chk.broke("%s: %s not evaluable (%s)" % (rule, f.name, ex))
                continue
            for i, (s, k, cs) in enumerate(stores):
                n += 1
                if s["id"] not in res:
                    chk.broke("%s: the store %s = %s(..) in %s was not reached with the boundary value" % (rule, k, cs[0]["fn"], f.name))
                    continue
                chk.inst(rule, f, "%s=%s()#%d" % (field, cs[0]["fn"], i + 1), res[s["id"]],
                         "with %s == %d and the imported identifier == %d, every exit after `%s = %s(..)` leaves %s above it%s"
                         % (nk, K, K, k, cs[0]["fn"], nk, "" if res[s["id"]] else " -- but an exit is reached with the allocator not moved past the imported identifier: the next object created gets a duplicate %s" % field), loc=f.loc(s))
    return n
