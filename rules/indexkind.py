"""R-INDEXKIND: a set indexed by the os_index of the objects of an array is never indexed by the array position itself.

Contradiction rule (two beliefs about one set in one function): if a function passes `A[v]->os_index` as the bit index of a set S to
hwloc_bitmap_set / _isset / _clr, then S is a set of OS indexes and `v` is a position in A; a call on the same S whose bit index is the
bare `v` confuses the two (they agree only when the objects happen to be numbered 0..n-1 in array order).  The wrong test
typically guards an optimisation ("already taken?") and silently skips an element."""
from prog import *

OPS = ("hwloc_bitmap_set", "hwloc_bitmap_isset", "hwloc_bitmap_clr")


def run(chk, P, units=None, rule="R-INDEXKIND"):
    n = 0
    for f in P.all_funcs():
        if units is not None and os.path.basename(f.file) not in units:
            continue
        if f.entry is None:
            continue
        by_os = {}      # set key -> {position variable: array text}
        bare = {}       # set key -> [(variable, call)]
        for c in f.calls(OPS):
            a = args(c)
            if len(a) < 2:
                continue
            S = lv(a[0])
            if S is None:
                continue
            e = strip(a[1])
            if e is None:
                continue
            if e["k"] == "Member" and e["f"] == "os_index":
                b = strip(e["c"][0])
                if b is not None and b["k"] == "Sub":
                    i = strip(b["c"][1])
                    if i is not None and i["k"] == "Ref":
                        by_os.setdefault(S, {})[i["n"]] = src(strip(b["c"][0]))
            elif e["k"] == "Ref":
                bare.setdefault(S, []).append((e["n"], c))
        for S, vars_ in by_os.items():
            n += 1
            hits = [(v, c) for (v, c) in bare.get(S, []) if v in vars_]
            chk.inst(rule, f, "set:" + S, not hits,
                     "`%s` is indexed by the os_index of the elements of %s: no call on it uses the array position itself as the bit index%s"
                     % (S, ", ".join("%s[%s]" % (arr, v) for v, arr in sorted(vars_.items())),
                        "" if not hits else " -- but %s at %s does: position and os_index agree only when the objects are numbered in array order" % (src(hits[0][1])[:60], f.loc(hits[0][1]))),
                     loc=f.loc(hits[0][1]) if hits else None)
    return n
