"""R-MOVED: an object whose contents a callee has moved away (and zeroed) is not used as a live object afterwards.

"Moving" functions are DISCOVERED: a function that executes memset(p, 0, sizeof(*p)) on a pointer parameter p on every path
(hwloc_replace_linked_object(old, new) copies `new` over `old` and clears `new` "so that we may free it").  After such a call the
argument denotes an empty shell: the only thing a caller may do with it is release it.  May-dataflow on the argument's lvalue
(killed by re-assignment): returning it, dereferencing it or handing it to anything but a releaser is reported -- the caller of
the caller would receive a zeroed object that is not part of the tree."""
from prog import *
import must
import uaf


def movers(P, units):
    out = {}
    for u in units:
        for f in P.unit(u).funcs(only_main=True):
            if f.entry is None:
                continue
            params = {p["n"]: i for i, p in enumerate(f.params)}
            m = None
            for c in f.calls(("memset",)):
                a = args(c)
                if len(a) == 3 and lv(a[0]) in params and cval(a[1]) == 0:
                    sz = strip(a[2])
                    if sz is not None and sz["k"] == "SizeOf":
                        # on every path to the exit?
                        if m is None:
                            m = must.Must(f, track_calls={"memset"}).run()
                        ends = [m.before.get(r["id"]) for r in returns(f)] or [m.inb.get(f.exit)]
                        ends = [e for e in ends if e is not None]
                        if f.exit in m.inb:
                            ends.append(m.inb[f.exit])
                        if ends and all(any(fc[0] == "call" and fc[1] == "memset" and fc[2] and fc[2][0] == lv(a[0]) for fc in e) for e in ends):
                            out[f.name] = params[lv(a[0])]
    return out


class _Moved(Flow):
    def __init__(self, f, M):
        Flow.__init__(self, f)
        self.M = M
        self.uses = []

    def init(self):
        return frozenset()

    def join(self, a, b):
        return a | b

    def elem(self, st, n):
        k = n["k"]
        if k == "Call":
            fn = n.get("fn")
            if st and self.recording and not (fn in uaf.RELEASE):
                for a in args(n):
                    for (key, cid) in st:
                        if lv(a) == key:
                            self.uses.append((n, key, cid, "handed to %s()" % (fn or "a function pointer")))
            if fn in self.M and len(args(n)) > self.M[fn]:
                key = lv(args(n)[self.M[fn]])
                if key:
                    return st | {(key, n["id"])}
            return st
        if k == "DeclStmt":
            names = set(v["n"] for v in n["c"])
            return frozenset(x for x in st if x[0] not in names)
        a = assigned(n)
        if a:
            key = lv(a[0])
            if key:
                st = frozenset(x for x in st if x[0] != key)
            if st and self.recording and a[2] is not None:
                for (k2, cid) in st:
                    if lv(a[2]) == k2:
                        self.uses.append((n, k2, cid, "stored into %s" % src(a[0])[:40]))
            return st
        if st and self.recording:
            if k == "Return" and n.get("c") and n["c"][0] is not None:
                for (key, cid) in st:
                    if lv(n["c"][0]) == key:
                        self.uses.append((n, key, cid, "returned to the caller"))
            elif k == "Member" and n.get("arrow"):
                for (key, cid) in st:
                    if lv(n["c"][0]) == key:
                        self.uses.append((n, key, cid, "dereferenced (%s)" % src(n)[:40]))
        return st


def run(chk, P, units, rule="R-MOVED"):
    M = movers(P, units)
    n = 0
    for u in units:
        for f in P.unit(u).funcs(only_main=True):
            if f.entry is None:
                continue
            calls = [c for c in f.calls(tuple(M)) if c.get("fn") in M]
            if not calls:
                continue
            fl = _Moved(f, M).run()
            k = 0
            for c in calls:
                key = lv(args(c)[M[c["fn"]]]) if len(args(c)) > M[c["fn"]] else None
                if key is None:
                    continue
                k += 1
                n += 1
                hits = [u9 for u9 in fl.uses if u9[2] == c["id"]]
                chk.inst(rule, f, "%s@%s#%d" % (key, c["fn"], k), not hits,
                         "%s() moves the contents of `%s` away and zeroes it: afterwards the caller only releases it%s"
                         % (c["fn"], key, "" if not hits else " -- but it is %s at %s: a zeroed object that is not part of the tree reaches the user" % (hits[0][3], f.loc(hits[0][0]))), loc=f.loc(c))
    return n, M
