"""R-EXH: every consumer of hwloc_bitmap_compare_inclusion's result handles all five outcomes per the specification
table.  Decided by exploring the consumer with the call's result forced to each enumerator (and to an out-of-range
value) -- independent of whether the code uses if-chains or a switch."""
from prog import *
import peval, dup


def _val(P, f, name):
    v = f.unit.enum_consts.get(name)
    return v if v is not None else dup.macro_value(P, name)

VALUES = ("HWLOC_BITMAP_EQUAL", "HWLOC_BITMAP_INCLUDED", "HWLOC_BITMAP_CONTAINS", "HWLOC_BITMAP_INTERSECTS", "HWLOC_BITMAP_DIFFERENT")


def get_by_cpuset(chk, P, rule="R-EXH"):
    f = P.need_func("hwloc_cpukinds_get_by_cpuset", "cpukinds.c")
    E = f.unit.enum_consts
    spec = {"HWLOC_BITMAP_EQUAL": "id", "HWLOC_BITMAP_INCLUDED": "id", "HWLOC_BITMAP_CONTAINS": "EXDEV", "HWLOC_BITMAP_INTERSECTS": "EXDEV", "HWLOC_BITMAP_DIFFERENT": "next"}
    n = 0
    for name in VALUES:
        v = _val(P, f, name)
        if v is None:
            chk.broke("%s: constant %s vanished" % (rule, name))
            continue
        out = peval.PathEval(P, f, {"flags": 0}, is_effect=lambda ff, x, env: False, through_effects=True,
                             call_values={"hwloc_bitmap_compare_inclusion": v, "hwloc_bitmap_iszero": 0}).run()
        oks = [t for t in out.terminals if t[0] == "return" and not t[4]]
        exdev = [t for t in out.terminals if t[0] == "return" and t[4] and t[2] == peval.EXDEV]
        enoent = [t for t in out.terminals if t[0] == "return" and t[4] and t[2] == peval.ENOENT]
        got = "id" if oks and not exdev else ("EXDEV" if exdev and not oks else ("next" if not oks and not exdev else "mixed"))
        n += 1
        chk.inst(rule, f, "outcome:" + name, got == spec[name] and bool(enoent),
                 "with compare_inclusion == %s the function %s; specified: %s; ENOENT only after the loop: %s" % (
                     name, {"id": "returns the kind index", "EXDEV": "fails with EXDEV", "next": "goes on to the next kind", "mixed": "does both"}[got], spec[name], bool(enoent)))
    return n


def internal_register(chk, P, rule="R-EXH"):
    f = P.need_func("hwloc_internal_cpukinds_register", "cpukinds.c")
    E = f.unit.enum_consts
    spec = {"HWLOC_BITMAP_INTERSECTS": "split", "HWLOC_BITMAP_INCLUDED": "split", "HWLOC_BITMAP_CONTAINS": "merge", "HWLOC_BITMAP_EQUAL": "merge", "HWLOC_BITMAP_DIFFERENT": "skip"}
    n = 0
    for name in VALUES:
        v = _val(P, f, name)
        if v is None:
            chk.broke("%s: constant %s vanished" % (rule, name))
            continue
        out = peval.PathEval(P, f, {"flags": 0}, is_effect=lambda ff, x, env: False, through_effects=True, maxstates=60000,
                             call_values={"hwloc_bitmap_compare_inclusion": v}, markers=("hwloc_bitmap_and", "hwloc_bitmap_andnot", "hwloc_bitmap_alloc")).run()
        succ = [t for t in out.terminals if t[0] == "return" and not t[4]]
        withand = [t for t in succ if "hwloc_bitmap_and" in t[5]]
        withandnot = [t for t in succ if "hwloc_bitmap_andnot" in t[5]]
        if withand and all(("hwloc_bitmap_andnot" in t[5] and "hwloc_bitmap_alloc" in t[5]) for t in withand):
            got = "split"
        elif withandnot and not withand:
            got = "merge"
        elif not withand and not withandnot:
            got = "skip"
        else:
            got = "mixed"
        n += 1
        chk.inst(rule, f, "outcome:" + name, got == spec[name], "with compare_inclusion == %s registration does a %s (specified: %s)" % (name, got, spec[name]))
    # split arm removes the intersection from BOTH the old kind and the incoming set
    cnt = 0
    for c in f.calls("hwloc_bitmap_andnot"):
        cnt += 1
    chk.inst(rule, f, "split-removes-both", cnt >= 3, "three andnot calls: old kind minus new, incoming minus new (split), incoming minus old (merge) -- found %d" % cnt)
    return n + 1
