"""R-WORDCOVER: the word loops of a bitmap operation tile the words without a gap.

The operations of bitmap.c that look at every word of their operands do so with a head loop over the common words and tail loops
over the words only the longer operand has (isequal, intersects, isincluded, or/and/andnot/xor, compare, compare_first), or with a
first word, a loop over the middle words and a last word (set_range, clr_range).  Each loop covers a range [lo, hi) of word indexes
(for (i = lo; i < hi; i++), or downwards for (i = hi-1; i >= lo; i--)); single accesses ulongs[e] outside the loops cover [e, e+1).
No gap: the lower end of every range is 0, the upper end of another range, or just above a single access.  `i > min_count` for
`i >= min_count` in a downward tail loop leaves word min_count unread although every index stays in range (so the bound analysis
R-WORDIDX cannot see it): the result is wrong exactly when the sets differ in that word.

Ranges are compared as linear forms (rules/zone.py).  A function with a word loop that is not a counted `for` in one of these forms
is not judged (counted as out of scope)."""
from prog import *
import zone


def _key(l):
    return (tuple(sorted(l[0].items())), l[1]) if l is not None else None


def _plus(l, k):
    return (l[0], l[1] + k) if l is not None else None


def run(chk, P, unit="bitmap.c", rule="R-WORDCOVER"):
    n = 0
    skipped = []
    for f in P.unit(unit).funcs(only_main=True):
        if f.entry is None:
            continue
        ranges = []      # (lo, hi, loc, text)
        unknown = False
        loopvars = set()
        for lp in f.walk():
            if lp["k"] not in ("For", "While", "Do"):
                continue
            body = lp["c"][-1]
            ivs = set(lv(s["c"][1]) for s in subnodes(body) if s["k"] == "Sub" and strip(s["c"][0]) is not None and strip(s["c"][0])["k"] == "Member"
                      and strip(s["c"][0])["f"] == "ulongs" and strip(s["c"][1]) is not None and strip(s["c"][1])["k"] == "Ref")
            ivs.discard(None)
            if not ivs:
                continue
            if lp["k"] != "For" or len(lp["c"]) < 4 or lp["c"][1] is None or lp["c"][1]["k"] != "Binary":
                # an inner/outer loop of another kind that indexes words with a variable
                if not any(a["k"] == "For" for a in f.ancestors(lp)):
                    unknown = True
                continue
            init, cond, inc, _ = lp["c"][:4]
            iv = lv(cond["c"][0])
            if iv not in ivs:
                continue
            loopvars.add(iv)
            start = None
            if init is not None:
                for s in subnodes(init):
                    a = assigned(s)
                    if a and lv(a[0]) == iv and a[1] == "=":
                        start = zone.lin(f, a[2])
                    elif s["k"] == "Var" and s["n"] == iv and s.get("c") and s["c"][0] is not None:
                        start = zone.lin(f, s["c"][0])
            bound = zone.lin(f, cond["c"][1])
            ia = assigned(inc) if inc is not None else None
            d = (1 if ia[1] == "++" else -1 if ia[1] == "--" else None) if (ia and lv(ia[0]) == iv) else None
            op = cond["op"]
            lo = hi = None
            if start is not None and bound is not None and d == 1 and op in ("<", "<=", "!="):
                lo, hi = start, (bound if op != "<=" else _plus(bound, 1))
            elif start is not None and bound is not None and d == -1 and op in (">=", ">"):
                lo, hi = (bound if op == ">=" else _plus(bound, 1)), _plus(start, 1)
            if lo is None or any(assigned(s) and lv(assigned(s)[0]) == iv for s in subnodes(lp["c"][3])):
                unknown = True
                continue
            ranges.append((lo, hi, f.loc(lp), "%s in [%s, %s)" % (iv, src(strip(cond["c"][1])) if d == -1 and op == ">=" else zone.optext(cond["c"][1]), "..")))
        if len(ranges) < 2:
            continue
        if unknown:
            skipped.append(f.name)
            continue
        # single accesses outside the loops
        points = []
        for s in f.walk():
            if s["k"] == "Sub" and strip(s["c"][0]) is not None and strip(s["c"][0])["k"] == "Member" and strip(s["c"][0])["f"] == "ulongs":
                ix = strip(s["c"][1])
                inside_own_loop = ix is not None and ix["k"] == "Ref" and any(a["k"] == "For" and len(a["c"]) >= 4 and a["c"][1] is not None and a["c"][1]["k"] == "Binary"
                                                                              and lv(a["c"][1]["c"][0]) == ix["n"] for a in f.ancestors(s))
                if ix is not None and not inside_own_loop:
                    # also the position a search loop stopped at, used after that loop:  ulongs[first] = ..;  for (i = first+1; ..)
                    l = zone.lin(f, ix)
                    if l is not None:
                        points.append(l)
        his = set(_key(h) for _, h, _, _ in ranges) | set(_key(_plus(p, 1)) for p in points)
        k = 0
        for lo, hi, loc, txt in ranges:
            k += 1
            n += 1
            ok = _key(lo) == ((), 0) or _key(lo) in his
            def show(l):
                return " + ".join(("%s" % t if c == 1 else "%d*%s" % (c, t)) for t, c in sorted(l[0].items())) + ((" %+d" % l[1]) if l[1] or not l[0] else "")
            chk.inst(rule, f, "range#%d" % k, ok, "the word loop covers [%s, %s): its lower end is 0, the upper end of another word loop of the function, or just above a single access%s"
                     % (show(lo), show(hi), "" if ok else " -- it is none of these: the word(s) below %s are read by no loop (the other ranges end at %s)"
                        % (show(lo), ", ".join(sorted(show((dict(a), b)) for a, b in his if a is not None)))), loc=loc)
    return n, skipped
