"""R-SUPERSETGUARD: when only the complete set of an object meets the dropped set, restrict still updates the complete set and visits the children.

complete_cpuset is a superset of cpuset (complete_nodeset of nodeset): PUs that are offline or disallowed live in the complete set
only.  restrict_object_by_cpuset()/by_nodeset() subtract the dropped set from both sets of an object and recurse below it under a
guard; the guard must be decided by the LARGER set, otherwise an object whose complete set alone meets the dropped set is skipped
with its whole subtree and the complete sets are no longer "previous ∩ S".  Decided by a scenario evaluation, not by the shape of
the guard: every set predicate (intersects / isincluded / iszero / isequal) given `obj->complete_X` answers "meets the dropped
set", given `obj->X` answers "does not"; under that scenario the subtraction from obj->complete_X must be reached, and so must the
recursive call."""
from prog import *
import peval


def run(chk, P, rule="R-SUPERSETGUARD"):
    n = 0
    for fname, small, big in (("restrict_object_by_cpuset", "cpuset", "complete_cpuset"), ("restrict_object_by_nodeset", "nodeset", "complete_nodeset")):
        f = P.need_func(fname, "topology.c")
        def pred(c, a, big=big, small=small):
            t = src(strip(args(c)[0])) if args(c) else ""
            fn = c.get("fn")
            meets = None
            if t.endswith("->" + big):
                meets = True
            elif t.endswith("->" + small):
                meets = False
            if meets is None:
                return None
            if fn == "hwloc_bitmap_intersects":
                return 1 if meets else 0
            if fn == "hwloc_bitmap_isincluded":
                return 0          # neither set lies inside the dropped set in this scenario
            if fn == "hwloc_bitmap_iszero":
                return 0
            return None
        hit = {"andnot": False, "rec": False}
        def obs(nd, env, hit=hit, big=big, fname=fname):
            if nd["k"] != "Call":
                return
            if nd.get("fn") == "hwloc_bitmap_andnot" and args(nd) and src(strip(args(nd)[0])).endswith("->" + big):
                hit["andnot"] = True
            if nd.get("fn") == fname:
                hit["rec"] = True
        cv = {k: pred for k in ("hwloc_bitmap_intersects", "hwloc_bitmap_isincluded", "hwloc_bitmap_iszero")}
        cv[fname] = 0
        try:
            peval.PathEval(P, f, {}, is_effect=lambda *z: False, through_effects=True, observe=obs, call_values=cv, maxstates=100000,
                           track=set(v9["n"] for v9 in f.walk() if v9["k"] == "Var" and "w" in f.unit.types[v9["t"]] and not f.unit.types[v9["t"]].get("ptr"))).run()
        except AnalysisBroken as ex:
            chk.broke("%s: %s not evaluable (%s)" % (rule, fname, ex))
            continue
        n += 1
        ok = hit["andnot"] and hit["rec"]
        chk.inst(rule, f, "only-%s-meets-dropped" % big, ok,
                 "scenario: obj->%s meets the dropped set, obj->%s does not: %s still subtracts the dropped set from obj->%s (%s) and recurses into the children (%s)"
                 % (big, small, fname, big, "reached" if hit["andnot"] else "NOT reached", "reached" if hit["rec"] else "NOT reached: the guard is decided by the smaller set, objects holding only offline or disallowed PUs of the dropped set are skipped with their subtree"))
    return n
