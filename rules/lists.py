"""Small structural rules for distances / memattrs / cpukinds (C13-C15)."""
from prog import *
import must


def guarded_kill(chk, P, rule="R-GUARDKILL"):
    """distances transforms: a store of NULL into objs[x] must be control-dependent on is_nvswitch(objs[x]) -- transforms
    keep every non-switch object"""
    u = P.unit("distances.c")
    n = 0
    for f in u.funcs(only_main=True):
        if "transform" not in f.name:
            continue
        m = None
        for x in f.walk():
            a = assigned(x)
            if not a or a[2] is None or cval(strip(a[2])) != 0:
                continue
            t = strip(a[0])
            if t["k"] != "Sub":
                continue
            base = lv(t["c"][0]) or ""
            if not base.endswith("objs"):
                continue
            if m is None:
                m = must.Must(f).run()
            st = m.before.get(x["id"])
            if st is None:
                continue
            n += 1
            txt = src(t)
            guards = [fct[1] for fct in st if fct[0] == "T" and fct[1].startswith("is_nvswitch(")]
            ok = ("is_nvswitch(%s)" % txt) in guards
            # removal of objects the caller nulled (REMOVE_NULL compaction) is not a kill: target must be a NULL store
            chk.inst(rule, f, "kill:%s#%d" % (txt, n), ok, "`%s = NULL` must be dominated by is_nvswitch(%s) having held (guards here: %s)" % (txt, txt, guards), loc=f.loc(x))
    return n


def refresh_first(chk, P, rule="R-REFRESHFIRST"):
    """every reader of the distances list refreshes it first (on the same topology): the consumer call / list walk is
    dominated by hwloc_internal_distances_refresh(topology)"""
    n = 0
    for fname, unit, topo in (("hwloc__distances_get", "distances.c", "topology"), ("hwloc_topology_export_xml", "topology-xml.c", "topology"),
                              ("hwloc_topology_export_xmlbuffer", "topology-xml.c", "topology"), ("hwloc_topology_diff_build", "diff.c", None),
                              ("hwloc_shmem_topology_write", "shmem.c", "topology")):
        f = P.need_func(fname, unit)
        m = must.Must(f, track_calls={"hwloc_internal_distances_refresh"}).run()
        consumers = []
        for x in f.walk():
            if x["k"] == "Member" and x.get("f") == "first_dist" and x.get("rec") == "hwloc_topology":
                consumers.append(x)
            if x["k"] == "Call" and x.get("fn") is None:
                ce = strip(x["c"][0])
                if ce["k"] == "Member" and ce.get("rec") == "hwloc_xml_callbacks":
                    consumers.append(x)
            if x["k"] == "Call" and x.get("fn") in ("hwloc__topology_dup",):
                consumers.append(x)
        if not consumers:
            chk.broke("%s: %s no longer reads the distances list" % (rule, fname))
            continue
        k = 0
        for c in consumers:
            st = m.before.get(c["id"])
            if st is None:
                continue
            k += 1
            n += 1
            ok = any(fct[0] == "call" and fct[1] == "hwloc_internal_distances_refresh" for fct in st)
            chk.inst(rule, f, "refresh-before#%d" % k, ok, "%s at %s must be preceded on every path by hwloc_internal_distances_refresh()" % (src(c)[:50], f.loc(c)), loc=f.loc(c))
    return n


def sibling_prep(chk, P, pairs, rule="R-SIBLING"):
    """sibling entry points (file vs buffer variants) make the same preparatory calls"""
    n = 0
    for (a, b, unit) in pairs:
        fa, fb = P.need_func(a, unit), P.need_func(b, unit)
        ca = set(c.get("fn") for c in fa.calls() if c.get("fn") and not c.get("fn").startswith("__"))
        cb = set(c.get("fn") for c in fb.calls() if c.get("fn") and not c.get("fn").startswith("__"))
        ign = {"fprintf", "strcmp", "getenv", "free", "strlen"}
        da, db = (ca - cb) - ign, (cb - ca) - ign
        n += 1
        chk.inst(rule, fa, "same-calls:%s~%s" % (a, b), not da and not db, "siblings must make the same direct calls; only in %s: %s; only in %s: %s" % (a, sorted(da), b, sorted(db)))
    return n


def list_unlink(chk, P, funcs, unit, rule="R-UNLINK"):
    """doubly linked list removal updates both neighbours or head/tail in all cases"""
    n = 0
    for fname in funcs:
        f = P.need_func(fname, unit)
        keys = set()
        for x in f.walk():
            a = assigned(x)
            if a:
                k = lv(a[0])
                if k:
                    keys.add(re.sub(r"^[A-Za-z_0-9]+->", "", k) if "->" in k else k)
        need = {"prev->next", "first_dist", "next->prev", "last_dist"}
        have = set()
        for k in keys:
            for nd in need:
                if k.endswith(nd) or (nd == "next->prev" and k.endswith("->prev") and not k.endswith("prev->prev")) or (nd == "prev->next" and k.endswith("->next") and "prev" in k):
                    have.add(nd)
        # keys were stripped of their first component: recompute on the full lvalues
        full = set(lv(assigned(x)[0]) for x in f.walk() if assigned(x) and lv(assigned(x)[0]))
        if any(k.endswith("->prev") for k in full):
            have.add("next->prev")
        n += 1
        chk.inst(rule, f, "unlink-complete", have == need, "removal updates prev->next / first_dist and next->prev / last_dist (found %s)" % sorted(have))
    return n


import re
