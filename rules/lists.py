"""Small structural rules for distances / memattrs / cpukinds (C13-C15)."""
from prog import *
import must


def guarded_kill(chk, P, rule="R-GUARDKILL"):
    """distances transforms: a store of NULL into objs[x] must be control-dependent on is_nvswitch(objs[x]) -- transforms
    keep every non-switch object"""
    u = P.unit("distances.c")
    n = 0
    for f in u.funcs(only_main=True):
        if "transform" not in f.name:
            continue
        m = None
        for x in f.walk():
            a = assigned(x)
            if not a or a[2] is None or cval(strip(a[2])) != 0:
                continue
            t = strip(a[0])
            if t["k"] != "Sub":
                continue
            base = lv(t["c"][0]) or ""
            if not base.endswith("objs"):
                continue
            if m is None:
                m = must.Must(f).run()
            st = m.before.get(x["id"])
            if st is None:
                continue
            n += 1
            txt = src(t)
            guards = [fct[1] for fct in st if fct[0] == "T" and fct[1].startswith("is_nvswitch(")]
            ok = ("is_nvswitch(%s)" % txt) in guards
            # removal of objects the caller nulled (REMOVE_NULL compaction) is not a kill: target must be a NULL store
            chk.inst(rule, f, "kill:%s#%d" % (txt, n), ok, "`%s = NULL` must be dominated by is_nvswitch(%s) having held (guards here: %s)" % (txt, txt, guards), loc=f.loc(x))
    return n


def refresh_first(chk, P, rule="R-REFRESHFIRST", only=None):
    """every reader of the distances list refreshes it first (on the same topology): the consumer call / list walk is
    dominated by hwloc_internal_distances_refresh(topology)"""
    n = 0
    for fname, unit, topo in (("hwloc__distances_get", "distances.c", "topology"), ("hwloc_topology_export_xml", "topology-xml.c", "topology"),
                              ("hwloc_topology_export_xmlbuffer", "topology-xml.c", "topology"), ("hwloc_topology_diff_build", "diff.c", None),
                              ("hwloc_shmem_topology_write", "shmem.c", "topology")):
        if only is not None and fname not in only:
            continue
        f = P.need_func(fname, unit)
        m = must.Must(f, track_calls={"hwloc_internal_distances_refresh"}).run()
        consumers = []
        for x in f.walk():
            if x["k"] == "Member" and x.get("f") == "first_dist" and x.get("rec") == "hwloc_topology":
                consumers.append(x)
            if x["k"] == "Call" and x.get("fn") is None:
                ce = strip(x["c"][0])
                if ce["k"] == "Member" and ce.get("rec") == "hwloc_xml_callbacks":
                    consumers.append(x)
            if x["k"] == "Call" and x.get("fn") in ("hwloc__topology_dup",):
                consumers.append(x)
        if not consumers:
            chk.broke("%s: %s no longer reads the distances list" % (rule, fname))
            continue
        k = 0
        for c in consumers:
            st = m.before.get(c["id"])
            if st is None:
                continue
            k += 1
            n += 1
            # the refresh must be of the SAME topology whose list is read (hwloc_topology_diff_build reads two of them)
            if c["k"] == "Member":
                want = src(strip(c["c"][0]))
            elif c.get("fn") == "hwloc__topology_dup":
                want = src(strip(args(c)[1])) if len(args(c)) > 1 else None
            else:
                want = src(strip(args(c)[0])) if args(c) else None
            ok = any(fct[0] == "call" and fct[1] == "hwloc_internal_distances_refresh" and (want is None or (fct[2] and fct[2][0] == want)) for fct in st)
            chk.inst(rule, f, "refresh-before#%d" % k, ok, "%s at %s must be preceded on every path by hwloc_internal_distances_refresh(%s)" % (src(c)[:50], f.loc(c), want or ""), loc=f.loc(c))
    return n


def sibling_prep(chk, P, pairs, rule="R-SIBLING"):
    """sibling entry points (file vs buffer variants) make the same preparatory calls"""
    n = 0
    for (a, b, unit) in pairs:
        fa, fb = P.need_func(a, unit), P.need_func(b, unit)
        ca = set(c.get("fn") for c in fa.calls() if c.get("fn") and not c.get("fn").startswith("__"))
        cb = set(c.get("fn") for c in fb.calls() if c.get("fn") and not c.get("fn").startswith("__"))
        ign = {"fprintf", "strcmp", "getenv", "free", "strlen"}
        da, db = (ca - cb) - ign, (cb - ca) - ign
        n += 1
        chk.inst(rule, fa, "same-calls:%s~%s" % (a, b), not da and not db, "siblings must make the same direct calls; only in %s: %s; only in %s: %s" % (a, sorted(da), b, sorted(db)))
    return n


def unlinkers(P, unit, head="first_dist", tail="last_dist"):
    """functions that remove a node from the doubly linked list: they assign the list head/tail or a neighbour's link from the
    removed node's own links (X->next / X->prev, possibly cached in a local); appenders assign the head/tail from the new node"""
    out = []
    for f in P.unit(unit).funcs(only_main=True):
        if f.entry is None:
            continue
        # locals caching a node's link:  next = dist->next
        linkvars = set()
        for n in f.walk():
            tgt = rhs = None
            a = assigned(n)
            if a and a[1] == "=" and a[2] is not None:
                tgt, rhs = lv(a[0]), strip(a[2])
            elif n["k"] == "Var" and n.get("c") and n["c"][0] is not None:
                tgt, rhs = n["n"], strip(n["c"][0])
            if tgt and rhs is not None and rhs["k"] == "Member" and rhs["f"] in ("next", "prev"):
                linkvars.add(tgt)
        hit = False
        for n in f.walk():
            a = assigned(n)
            if not a or a[1] != "=" or a[2] is None:
                continue
            k = lv(a[0]) or ""
            r = strip(a[2])
            from_link = (r["k"] == "Member" and r["f"] in ("next", "prev")) or (r["k"] == "Ref" and r["n"] in linkvars)
            if from_link and (k.endswith("->" + head) or k.endswith("->" + tail) or k.endswith("->prev->next") or k.endswith("->next->prev")
                              or (k.split("->")[0] in linkvars and k.endswith(("->prev", "->next")))):
                hit = True
        if hit:
            out.append(f)
    return out


def list_unlink(chk, P, funcs, unit, rule="R-UNLINK", head="first_dist", tail="last_dist"):
    """doubly linked list removal updates both neighbours or head/tail in all cases.  funcs: names that MUST be among the
    discovered unlinkers (anchors); every discovered unlinker is checked."""
    n = 0
    found = unlinkers(P, unit, head, tail)
    names = [f.name for f in found]
    # the removal code may live in the named functions or in a helper extracted from them: what matters is that removal
    # sites are still recognised at all (floor in the property module), not where they live
    chk.notes.append("%s: removal sites of the %s/%s list found in %s" % (rule, head, tail, names))
    for f in found:
        full = set(lv(assigned(x)[0]) for x in f.walk() if assigned(x) and assigned(x)[1] == "=" and lv(assigned(x)[0]))
        have = set()
        for k in full:
            if k.endswith("->" + head):
                have.add(head)
            if k.endswith("->" + tail):
                have.add(tail)
            if k.endswith("->next") and k.count("->") >= 1 and not k.endswith("->" + head):
                have.add("prev->next")
            if k.endswith("->prev"):
                have.add("next->prev")
        need = {"prev->next", head, "next->prev", tail}
        n += 1
        chk.inst(rule, f, "unlink-complete", have == need, "removing a node updates the predecessor's next or the list head AND the successor's prev or the list tail "
                 "(found writes to %s; missing %s)" % (sorted(have), sorted(need - have)))
    return n


import re
