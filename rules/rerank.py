"""R-RERANK: an operation that lowers an element count must be followed, on every path to the function's exit, by the call that
re-establishes a derived invariant over the remaining elements (kinds removed by a restrict are re-ranked), for every remaining
count for which that call is not a no-op.

Decided by evaluation: the function is explored by seeded constant propagation; when the count is lowered it is forked over the
given domain of remaining counts; each path remembers whether the call happened after the last lowering.  At each exit reached
with the count known to be in `needs` (counts where the callee does something) the call must have happened.  Guards in front of the
call are evaluated, not matched: `if (removed)`, `if (removed && nr)`, `if (nr_before != nr)` ... are all accepted when every exit
that needs the call has it."""
from prog import *
import peval


def run(chk, P, fname, unit, countkey, callee, needs, domain, rule="R-RERANK", construct="rerank-after-lowering", extra_track=()):
    f = P.need_func(fname, unit)
    lowered_sites = []
    def obs(n, env):
        a = assigned(n)
        if a is not None and lv(a[0]) == countkey and a[1] in ("--", "-=", "="):
            if a[1] == "=":
                return     # plain re-assignment: not judged
            env["#lowered"] = 1
            env.pop("#called", None)
            if n["id"] not in lowered_sites:
                lowered_sites.append(n["id"])
        elif n["k"] == "Call" and n.get("fn") == callee:
            env["#called"] = 1
    exits = []
    def obx(kind, n, env):
        if env.get("#lowered"):
            exits.append((kind, f.loc(n) if n is not None else "%s:end" % f.name, env.get(countkey), bool(env.get("#called"))))
    locals_ = set(v["n"] for v in f.walk() if v["k"] == "Var" and f.type_of(v).get("s") in ("int", "unsigned int", "_Bool"))
    try:
        peval.PathEval(P, f, {}, is_effect=lambda *z: False, through_effects=True, observe=obs, observe_exit=obx, split={countkey: tuple(domain)},
                       track={countkey} | set(extra_track) | locals_, maxstates=100000).run()
    except AnalysisBroken as ex:
        chk.broke("%s: %s not evaluable (%s)" % (rule, fname, ex))
        return 0
    if not chk.need(bool(lowered_sites), "%s: %s no longer lowers %s itself (moved to a helper?): not judged" % (rule, fname, countkey)):
        return 0
    judged = [e for e in exits if e[2] in needs]
    if not chk.need(bool(judged), "%s: no exit of %s reached with a known lowered %s" % (rule, fname, countkey)):
        return 0
    bad = [e for e in judged if not e[3]]
    chk.inst(rule, f, construct, not bad, "after %s is lowered (%d site%s) every exit reached with %s in %s has passed %s() since (%d exit states judged)%s"
             % (countkey, len(lowered_sites), "" if len(lowered_sites) == 1 else "s", countkey, sorted(needs), callee, len(judged),
                "; not so at %s with %s == %s" % (bad[0][1], countkey, bad[0][2]) if bad else ""))
    return len(judged)
