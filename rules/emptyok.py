"""R-EMPTYOK: a local filled through an out-parameter is not read when the callee succeeded without storing anything.

Some readers have three outcomes: failure (< 0), "found" (> 0, the out-parameter is stored) and "nothing there" (0, nothing is
stored).  They are DISCOVERED by exploring the callee: for a pointer parameter p, the exits are grouped by return value; a
non-negative value all of whose exits left *p untouched is an EMPTY value (provided some other value stores).  Every caller that
passes the address of a local declared without an initialiser is then explored with the callee's result forced to each empty
value: the caller's own tests of the result are evaluated (`if (ret <= 0) goto out;` cuts the path), and a read of the local that
is still reached is reported -- after `if (ret < 0) goto failed;` alone the local is indeterminate when the callee returned 0."""
from prog import *
import peval

_SUM = {}


def empty_values(P, g):
    """{param index: sorted empty values}"""
    if g.name in _SUM:
        return _SUM[g.name]
    _SUM[g.name] = {}
    T = g.unit.types
    rt = T[g.d["ret"]]
    if g.entry is None or rt.get("ptr") or rt["s"] == "void":
        return {}
    cands = {p["n"]: i for i, p in enumerate(g.params) if T[p["t"]].get("ptr") and not T[p["t"]].get("pconst")}
    def through(k, pn):
        return k is not None and (k in ("(*%s)" % pn, "%s[0]" % pn))
    stored = set()
    for n in g.walk():
        a = assigned(n)
        if a:
            for pn in cands:
                if through(lv(a[0]), pn):
                    stored.add(pn)
    if not stored:
        return {}
    exits = {pn: [] for pn in stored}
    def obs(n, env):
        a = assigned(n)
        if a:
            k = lv(a[0])
            for pn in stored:
                if through(k, pn):
                    env["?" + pn] = 0
                elif k == pn:
                    env["?" + pn] = 2
    def obx(kind, n, env):
        v = None
        if kind == "return" and n is not None and n.get("c") and n["c"][0] is not None:
            v = peval.Evaluator(g, env).ev(n["c"][0])
        for pn in stored:
            exits[pn].append((v, env.get("?" + pn)))
    try:
        peval.PathEval(P, g, {("?" + pn): 1 for pn in stored}, is_effect=lambda *z: False, through_effects=True, observe=obs, observe_exit=obx, maxstates=20000).run()
    except AnalysisBroken:
        return {}
    out = {}
    for pn in stored:
        ex = exits[pn]
        if any(v is None or d == 2 for v, d in ex):
            continue
        vals = sorted(set(v for v, d in ex if v >= 0))
        empty = [v for v in vals if all(d == 1 for v2, d in ex if v2 == v)]
        full = [v for v in vals if all(d == 0 for v2, d in ex if v2 == v)]
        if empty and full:
            out[cands[pn]] = empty
    _SUM[g.name] = out
    return out


def run(chk, P, units, rule="R-EMPTYOK"):
    n = 0
    found = {}
    for u in units:
        for f in P.unit(u).funcs(only_main=True):
            if f.entry is None:
                continue
            bare = set()
            for x in f.walk():
                if x["k"] == "Var" and (not x.get("c") or x["c"][0] is None) and x.get("dk") != "param":
                    bare.add(x["n"])
            for c in f.calls():
                g = P.func(c["fn"]) if c.get("fn") else None
                if g is None or g is f:
                    continue
                ev = empty_values(P, g)
                for i, vals in ev.items():
                    if i >= len(args(c)):
                        continue
                    a = strip(args(c)[i])
                    if a is None or a["k"] != "Unary" or a["op"] != "&":
                        continue
                    L = strip(a["c"][0])
                    if L is None or L["k"] != "Ref" or L["n"] not in bare:
                        continue
                    found[g.name] = vals
                    name = L["n"]
                    for v in vals:
                        bad = []
                        def obs(nd, env, c=c, name=name, bad=bad, f=f):
                            if nd["id"] == c["id"]:
                                env["?u"] = 1
                                return
                            a9 = assigned(nd)
                            if a9 and lv(a9[0]) == name:
                                env.pop("?u", None)
                                return
                            if nd["k"] == "Call" and nd["id"] != c["id"]:
                                for z in args(nd):
                                    z2 = strip(z)
                                    if z2 is not None and z2["k"] == "Unary" and z2["op"] == "&" and lv(z2["c"][0]) == name:
                                        env.pop("?u", None)
                            if nd["k"] == "Ref" and nd["n"] == name and env.get("?u"):
                                par = f.par(nd)
                                while par is not None and par["k"] == "Cast":
                                    par = f.par(par)
                                if par is not None and ((par["k"] == "Unary" and par["op"] == "&") or par["k"] == "SizeOf" or (assigned(par) and strip(assigned(par)[0]) is nd and assigned(par)[1] == "=")):
                                    return
                                bad.append(f.loc(nd))
                        flagv = {}
                        for y in f.walk():
                            tgt = rhs = None
                            a9 = assigned(y)
                            if a9 and lv(a9[0]) and strip(a9[0])["k"] == "Ref":
                                tgt, rhs = lv(a9[0]), (a9[2] if a9[1] == "=" else False)
                            elif y["k"] == "Var" and y.get("c") and y["c"][0] is not None:
                                tgt, rhs = y["n"], y["c"][0]
                            if tgt is None:
                                continue
                            good = rhs is not False and rhs is not None and (cval(rhs) is not None or strip(rhs)["k"] == "Call")
                            flagv[tgt] = flagv.get(tgt, True) and good
                        try:
                            peval.PathEval(P, f, {}, is_effect=lambda *z: False, through_effects=True, observe=obs, call_values={g.name: v},
                                           track=set(k for k, ok in flagv.items() if ok), maxstates=150000).run()
                        except AnalysisBroken as ex:
                            chk.broke("%s: %s not evaluable (%s)" % (rule, f.name, ex))
                            continue
                        n += 1
                        chk.inst(rule, f, "%s@%s=%d" % (name, g.name, v), not bad,
                                 "%s() returns %d without storing its out-parameter: `%s` is not read on the paths that follow that outcome%s"
                                 % (g.name, v, name, "" if not bad else " -- but it is read at %s: only the failed outcome (< 0) was excluded, the local is indeterminate there" % bad[0]), loc=f.loc(c))
    return n, found
