"""R-SLOTLEN: sibling agreement of the implementations stored in one function-pointer slot on length-delimited buffers.

For every slot (record, field) with at least two implementations and every adjacent parameter pair (pointer P, integer L named
*len*/*length*/*size*): if some implementation uses L, then every implementation that reads P must use L as well -- an
implementation that reads the buffer while ignoring its length treats a length-delimited buffer as a NUL-terminated string
(over-read, and more bytes than announced end up in the output)."""
import re
from prog import *

_LEN = re.compile(r"(len|length|size)$", re.I)


def _uses(f, pname):
    return any(n["k"] == "Ref" and n.get("dk") == "param" and n["n"] == pname for n in f.walk())


def run(chk, P, E, rule="R-SLOTLEN", records=None):
    n = 0
    for slot, fs in sorted(E.slots.items(), key=str):
        if records is not None and slot[0] not in records:
            continue
        impls = [P.func(x) for x in sorted(fs)]
        impls = [f for f in impls if f is not None and f.entry is not None]
        if len(impls) < 2:
            continue
        np_ = min(len(f.params) for f in impls)
        for k in range(np_ - 1):
            T0 = impls[0].unit.types
            p, l = impls[0].params[k], impls[0].params[k + 1]
            if not T0[p["t"]].get("ptr") or T0[l["t"]].get("ptr") or not _LEN.search(l["n"] or ""):
                continue
            if "char" not in T0[p["t"]].get("s", ""):
                continue     # only text buffers: a void* handed on to free()/munmap() is not "read"
            users = [f for f in impls if _uses(f, f.params[k + 1]["n"])]
            if not users:
                continue
            for f in impls:
                reads = _uses(f, f.params[k]["n"])
                ok = (not reads) or f in users
                n += 1
                chk.inst(rule, f, "%s.%s:%s/%s" % (slot[0], slot[1], f.params[k]["n"], f.params[k + 1]["n"]), ok,
                         "%s implements slot %s.%s: it reads the buffer `%s` %s its length `%s` (sibling %s uses the length)" % (
                             f.name, slot[0], slot[1], f.params[k]["n"], "and uses" if f in users else "but ignores", f.params[k + 1]["n"], users[0].name))
    return n
