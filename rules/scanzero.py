"""R-SCANZERO: a loop that examines every element of a caller-supplied array starts at element 0.

`for (i = c; i < n; i++) ... A[i] ...` with A a pointer parameter, n an integer parameter and c a constant > 0 skips A[0..c-1].
That is fine when the function deals with those elements separately (it mentions A[0] .. A[c-1] or A[i-1] somewhere: the first
element is the reference the others are compared with); when the function never looks at them at all, the skipped elements escape
the validation the loop performs (a NULL object in slot 0 is accepted while a NULL in any other slot is rejected)."""
from prog import *


def run(chk, P, units, rule="R-SCANZERO"):
    n = 0
    for u in units:
        for f in P.unit(u).funcs(only_main=True):
            if f.entry is None:
                continue
            T = f.unit.types
            ptrs = set(p["n"] for p in f.params if T[p["t"]].get("ptr"))
            ints = set(p["n"] for p in f.params if "w" in T[p["t"]] and not T[p["t"]].get("ptr"))
            if not ptrs or not ints:
                continue
            for x in f.walk():
                if x["k"] != "For" or len(x.get("c", ())) < 4:
                    continue
                init, cond, inc, body = x["c"][0], x["c"][1], x["c"][2], x["c"][3]
                if init is None or cond is None or body is None:
                    continue
                a = assigned(init) if init["k"] in ("Binary", "Unary") else None
                v = c0 = None
                if a and a[1] == "=" and strip(a[0])["k"] == "Ref":
                    v, c0 = strip(a[0])["n"], cval(a[2])
                elif init["k"] == "DeclStmt" and len(init["c"]) == 1 and init["c"][0].get("c"):
                    v, c0 = init["c"][0]["n"], cval(init["c"][0]["c"][0])
                if v is None or c0 is None:
                    continue
                cc = strip(cond)
                if cc["k"] != "Binary" or cc["op"] != "<" or strip(cc["c"][0])["k"] != "Ref" or strip(cc["c"][0])["n"] != v:
                    continue
                bound = strip(cc["c"][1])
                if bound["k"] != "Ref" or bound["n"] not in ints:
                    continue
                arrays = set()
                for y in subnodes(body):
                    if y["k"] == "Sub":
                        b, i = strip(y["c"][0]), strip(y["c"][1])
                        if b is not None and b["k"] == "Ref" and b["n"] in ptrs and i is not None and i["k"] == "Ref" and i["n"] == v:
                            arrays.add(b["n"])
                for A in sorted(arrays):
                    n += 1
                    if c0 <= 0:
                        chk.inst(rule, f, "scan:%s[%s]" % (A, v), True, "the loop over `%s[%s]` (%s < %s) starts at element %d" % (A, v, v, bound["n"], c0), loc=f.loc(x), nontrivial=False)
                        continue
                    # does the function look at the skipped elements elsewhere?
                    elsewhere = False
                    for y in f.walk():
                        if y["k"] == "Sub":
                            b, i = strip(y["c"][0]), strip(y["c"][1])
                            if b is not None and b["k"] == "Ref" and b["n"] == A and i is not None:
                                k = cval(i)
                                if k is not None and k < c0:
                                    elsewhere = True
                                if i["k"] == "Binary" and i["op"] == "-":
                                    elsewhere = True
                        if y["k"] == "Unary" and y["op"] == "*" and strip(y["c"][0]) is not None and strip(y["c"][0])["k"] == "Ref" and strip(y["c"][0])["n"] == A:
                            elsewhere = True
                    chk.inst(rule, f, "scan:%s[%s]" % (A, v), elsewhere,
                             "the loop over `%s[%s]` (%s < %s) starts at element %d: the function deals with the first %d element(s) elsewhere%s"
                             % (A, v, v, bound["n"], c0, c0, "" if elsewhere else " -- but it never looks at them: %s[0] escapes what the loop checks for every other element" % A), loc=f.loc(x))
    return n
