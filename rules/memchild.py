"""R-MEMCHILD: fixup_sets() gives EVERY kind of memory child its parent's cpuset.

Memory children (NUMA nodes and memory-side caches) share the cpuset and complete_cpuset of the normal parent they are attached to;
fixup_sets() re-establishes that after CPU-side parents were removed.  Decided by scenario evaluation over the memory types of the
enumeration (every type for which hwloc__obj_type_is_memory() folds to true): with the walked child's type bound to each of them, a
copy into `<child>->cpuset` and one into `<child>->complete_cpuset` from the parent's sets must be reached (in fixup_sets() itself or
in a helper it hands the child to).  `child->type == HWLOC_OBJ_NUMANODE` for the class predicate leaves memory-side caches -- and the
NUMA nodes below them -- with a stale, smaller cpuset (seeded twice independently)."""
from prog import *
import peval


def run(chk, P, rule="R-MEMCHILD"):
    f = P.need_func("fixup_sets", "topology.c")
    E = f.unit.enum_consts
    mem = [(k, E[k]) for k in ("HWLOC_OBJ_NUMANODE", "HWLOC_OBJ_MEMCACHE") if k in E]
    if not chk.need(len(mem) == 2, "%s: memory types not found in the enumeration" % rule):
        return 0
    # the walked child: a local of object type whose ->type is read (here or handed to a helper)
    T = f.unit.types
    locs = [x["n"] for x in f.walk() if x["k"] == "Var" and T[x["t"]].get("prec") == "hwloc_obj"]
    if not chk.need(bool(locs), "%s: fixup_sets has no local object variable" % rule):
        return 0
    n = 0
    for name, val in mem:
        got = set()
        def obs(nd, env, got=got):
            if nd["k"] == "Call" and nd.get("fn") == "hwloc_bitmap_copy" and len(args(nd)) == 2:
                d, s2 = src(strip(args(nd)[0])), src(strip(args(nd)[1]))
                for fld in ("complete_cpuset", "cpuset"):
                    if d.endswith("->" + fld) and s2.endswith("->" + fld) and d != s2:
                        got.add(fld)
                        break
        env = {}
        for v in locs:
            env["%s->type" % v] = val
        try:
            peval.PathEval(P, f, env, is_effect=lambda *z: False, through_effects=True, observe=obs, observe_callees=True, maxstates=100000,
                           call_values={"fixup_sets": 0}, track=set(env)).run()
        except AnalysisBroken as ex:
            chk.broke("%s: fixup_sets not evaluable (%s)" % (rule, ex))
            continue
        n += 1
        ok = got == {"cpuset", "complete_cpuset"}
        chk.inst(rule, f, "child-type:" + name, ok,
                 "with the walked child's type == %s, fixup_sets copies the parent's cpuset and complete_cpuset into the child (reached: %s)%s"
                 % (name, sorted(got) or "none", "" if ok else " -- a memory child of this type keeps a cpuset that differs from its parent's"))
    return n
