"""R-MULWIDTH: a product of numbers converted from input does not wrap in the narrow type it is computed in.

`malloc(n*n*sizeof(*v))` with `unsigned n = strtoul(text)` multiplies in 32 bits before the result is widened: with n == 65536 the
product is 0, the allocation is empty, every later bound test against `n*n` agrees with the wrapped value, and the consumers that
index with `i*n+j` run far outside the block.  The rule takes every multiplication that is computed in a type of at most 32 bits
and whose operands are all locals assigned from a text conversion (strtoul, strtoull, strtol, atoi, ...) in the same function.

Decided by evaluation at the boundary: the function is explored with every such conversion forced to return K = 2^(w/2) (the
smallest value whose square does not fit in w bits); the multiplication must not be reached with its operands still holding K.
How the input is bounded (`n > 0xffff`, `n >= 65536`, a division test, an early return in a helper evaluated with the value)
does not matter; a bound that lets K itself through (`n > 65536`) is reported."""
from prog import *
import peval

CONV = {"strtoul", "strtoull", "strtol", "strtoll", "atoi", "atol", "atoll"}


def narrow_products(f):
    """-> [(product node, [operand keys])]: multiplications in a type of <= 32 bits whose operands are all locals assigned from a conversion"""
    tainted = set()
    for s in f.walk():
        a = assigned(s)
        if a and a[1] == "=" and a[2] is not None:
            r = strip(a[2])
            t = strip(a[0])
            if t["k"] == "Ref" and t.get("dk") in ("local", "param") and r is not None and r["k"] == "Call" and r.get("fn") in CONV:
                tainted.add(t["n"])
        elif s["k"] == "Var" and s.get("c"):
            r = strip(s["c"][0])
            if r is not None and r["k"] == "Call" and r.get("fn") in CONV:
                tainted.add(s["n"])
    out = []
    if not tainted:
        return out
    for s in f.walk():
        if s["k"] == "Binary" and s["op"] in ("*", "*="):
            t = f.type_of(s)
            if not t or "w" not in t or t["w"] > 32 or t.get("ptr"):
                continue
            ops = [strip(c) for c in s["c"]]
            if all(o is not None and o["k"] == "Ref" and o["n"] in tainted for o in ops):
                out.append((s, [o["n"] for o in ops], t["w"]))
    return out


def run(chk, P, units, rule="R-MULWIDTH", funcs=None):
    n = 0
    for f in (funcs if funcs is not None else [g for u in units for g in P.unit(u).funcs(only_main=True)]):
        if f.entry is None:
            continue
        prods = narrow_products(f)
        if not prods:
            continue
        w = max(p[2] for p in prods)
        K = 1 << (w // 2)
        keys = set(k for _, ks, _ in prods for k in ks)
        reached = {}
        def obs(nd, env, reached=reached):
            for s, ks, _ in prods:
                if nd["id"] == s["id"] and all(env.get(k) == K for k in ks):
                    reached[s["id"]] = True
        try:
            peval.PathEval(P, f, {}, is_effect=lambda *z: False, through_effects=True, observe=obs, call_values={c: K for c in CONV},
                           track=set(keys), maxstates=200000).run()
        except AnalysisBroken as ex:
            chk.broke("%s: %s not evaluable (%s)" % (rule, f.name, ex))
            continue
        for i, (s, ks, ww) in enumerate(prods):
            n += 1
            bad = reached.get(s["id"], False)
            chk.inst(rule, f, "%s#%d" % (src(s).replace(" ", ""), i + 1), not bad,
                     "`%s` is computed in %d bits from input text; with the conversion returning %d the multiplication is %s"
                     % (src(s), ww, K, "not reached (the input is bounded first)" if not bad else
                        "reached: the product wraps (%d*%d == 2^%d), allocations and bound tests made with it are too small for the indexes computed from the operands" % (K, K, ww)),
                     loc=f.loc(s))
    return n
