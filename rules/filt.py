"""R-FILTER: type-filter guard at object creation.  R-NULLELEM: array elements tested for NULL in one place are not
dereferenced unguarded in another (Engler contradiction)."""
from prog import *
import must

UNFILTERABLE = ("HWLOC_OBJ_MACHINE", "HWLOC_OBJ_PU", "HWLOC_OBJ_NUMANODE")
CHECKS = ("hwloc_filter_check_keep_object_type", "hwloc_filter_check_pcidev_subtype_important", "hwloc_filter_check_osdev_subtype_important")


def _type_text(f, e):
    e = strip(e)
    return src(e)


_FLAGV = {}


def flag_vars(f):
    """locals that can only be non-zero when a filter check of one type passed: every assignment is the check of that type or the
    constant 0  (int need_memcaches = hwloc_filter_check_keep_object_type(topology, HWLOC_OBJ_MEMCACHE); ... need_memcaches = 0;)"""
    if f.name in _FLAGV:
        return _FLAGV[f.name]
    import re
    vals = {}
    for n in f.walk():
        tgt = rhs = None
        a = assigned(n)
        if a and lv(a[0]):
            tgt = lv(a[0])
            rhs = a[2] if a[1] == "=" else False
        elif n["k"] == "Var" and n.get("c") and n["c"][0] is not None:
            tgt, rhs = n["n"], n["c"][0]
        if tgt is None:
            continue
        if rhs is False or rhs is None:
            vals.setdefault(tgt, []).append(None)
            continue
        r = strip(rhs)
        if cval(r) == 0:
            vals.setdefault(tgt, []).append(0)
        elif r["k"] == "Call" and r.get("fn") == "hwloc_filter_check_keep_object_type" and len(args(r)) == 2:
            vals.setdefault(tgt, []).append(src(strip(args(r)[1])))
        else:
            vals.setdefault(tgt, []).append(None)
        # address-taken: give up
    for n in f.walk():
        if n["k"] == "Unary" and n["op"] == "&" and lv(n["c"][0]) in vals:
            vals[lv(n["c"][0])].append(None)
    out = {}
    for v, l in vals.items():
        ts = set(x for x in l if x != 0)
        if len(ts) == 1 and None not in ts:
            out[v] = list(ts)[0]
    _FLAGV[f.name] = out
    return out


def passed_types(st, f=None):
    """type texts T for which the must-facts prove that a filter check of T passed: direct test, test of type_filter[T], a flag
    variable assigned from the check (need_x = hwloc_filter_check_keep_object_type(topology, T); ... if (need_x)), or a filter value
    fetched by hwloc_topology_get_type_filter(topology, T, &f) and tested != KEEP_NONE"""
    out = set()
    asg = {}
    fetched = {}
    for fct in st:
        if fct[0] == "asg":
            asg[fct[1]] = fct[2]
        if fct[0] == "call" and fct[1] == "hwloc_topology_get_type_filter" and len(fct[2]) >= 3 and fct[2][2].startswith("&"):
            fetched[fct[2][2][1:]] = fct[2][1]
    import re
    fv = flag_vars(f) if f is not None else {}
    for fct in st:
        if fct[0] == "T" and fct[1] in fv:
            out.add(fv[fct[1]])
        if fct[0] == "T":
            m = re.match(r"hwloc_filter_check_keep_object_type\(.*, (\w+)\)$", fct[1])
            if m:
                out.add(m.group(1))
            rhs = asg.get(fct[1])
            if rhs:
                m = re.match(r"hwloc_filter_check_keep_object_type\(.*, (\w+)\)$", rhs)
                if m:
                    out.add(m.group(1))
                m = re.match(r"\(?(\w+) != HWLOC_TYPE_FILTER_KEEP_NONE\)?$", rhs)
                if m and m.group(1) in fetched:
                    out.add(fetched[m.group(1)])
        if fct[0] in ("T", "F", "R"):
            m = re.search(r"type_filter\[(\w+)\]", fct[1])
            if m:
                out.add(m.group(1))
            m = re.match(r"(\w+) != HWLOC_TYPE_FILTER_KEEP_NONE$", fct[1])
            if m and fct[0] in ("T", "R") and m.group(1) in fetched:
                out.add(fetched[m.group(1)])
            m = re.match(r"(\w+) == HWLOC_TYPE_FILTER_KEEP_NONE$", fct[1])
            if m and fct[0] == "F" and m.group(1) in fetched:
                out.add(fetched[m.group(1)])
    return out


def creation_sites(chk, P, units, rule="R-FILTER", exceptions=None):
    exceptions = exceptions or {}
    n = 0
    # pass 1: per function, creation sites and whether locally guarded
    pending = {}   # function name -> list of (site, type text)
    guarded_callsites = {}   # callee -> list of (caller f, call node, facts)
    allf = {}
    for u in units:
        for f in P.unit(u).funcs(only_main=True):
            allf[f.name] = f
    musts = {}
    def facts(f):
        m = musts.get(f.name)
        if m is None:
            m = musts[f.name] = must.Must(f, track_calls=set(CHECKS) | {"hwloc_filter_check_keep_object", "hwloc_topology_get_type_filter"}).run()
        return m
    for f in allf.values():
        sites = list(f.calls("hwloc_alloc_setup_object"))
        if not sites:
            continue
        m = facts(f)
        k = 0
        for c in sites:
            st = m.before.get(c["id"])
            if st is None:
                continue
            k += 1
            n += 1
            T = _type_text(f, args(c)[1])
            key = "create:%s#%d" % (T, k)
            if T in UNFILTERABLE:
                chk.inst(rule, f, key, True, "%s cannot be filtered out" % T, loc=f.loc(c), nontrivial=False)
                continue
            # the type expression is known, on every path, to equal a type that cannot be filtered out (an assertion or a test:
            # the abort branch of assert() does not continue)
            eqs = [u9 for u9 in UNFILTERABLE for fct in st if (fct[0] == "T" and fct[1] in ("%s == %s" % (T, u9), "%s == %s" % (u9, T))) or (fct[0] == "F" and fct[1] in ("%s != %s" % (T, u9), "%s != %s" % (u9, T)))]
            if eqs:
                chk.inst(rule, f, "create:%s#%d" % (eqs[0], k), True, "%s is known to be %s here (tested or asserted on every path), which cannot be filtered out" % (T, eqs[0]), loc=f.loc(c))
                continue
            # (a) dominated by a passed filter check of the same type
            ok = False
            how = ""
            for fct in st:
                if fct[0] == "T" and fct[1].startswith("hwloc_filter_check_keep_object_type(") and fct[1].endswith(", %s)" % T):
                    ok, how = True, "dominated by a passed hwloc_filter_check_keep_object_type(.., %s)" % T
                if fct[0] == "R" and "type_filter[%s]" % T in fct[1] and "KEEP_NONE" in fct[1]:
                    ok, how = True, "dominated by a test of type_filter[%s]" % T
                if fct[0] in ("T", "F") and "type_filter[%s]" % T in fct[1]:
                    ok, how = True, "dominated by a test of type_filter[%s]" % T
            if not ok and T in passed_types(st, f):
                ok, how = True, "dominated by a passed filter check of %s (through a flag variable or a fetched filter value)" % T
            # wrong-type guard: a filter check for ANOTHER constant type dominates and none for this one
            if not ok:
                # (b) followed by hwloc_filter_check_keep_object(topology, obj) before insertion: accept if the function calls it on the created object
                par = f.par(c)
                var = None
                a = assigned(par) if par is not None else None
                if a:
                    var = lv(a[0])
                elif par is not None and par["k"] == "Var":
                    var = par["n"]
                if var and any(lv(args(x)[1]) == var for x in f.calls("hwloc_filter_check_keep_object") if len(args(x)) > 1):
                    ok, how = True, "the new object goes through hwloc_filter_check_keep_object() before insertion"
            if ok:
                chk.inst(rule, f, key, True, how, loc=f.loc(c))
            else:
                pending.setdefault(f.name, []).append((c, T, key))
    # pass 2 (d): enclosing function only reachable from callers that passed the check for the same type
    for fname, lst in pending.items():
        f = allf[fname]
        callers = []
        for g in allf.values():
            for c in g.calls(fname):
                callers.append((g, c))
        for (c, T, key) in lst:
            exc = exceptions.get((fname, T)) or exceptions.get((fname, "*"))
            ok = False
            how = "no filter check of %s dominates this creation, none follows it, and not every caller of %s checks it" % (T, fname)
            if callers:
                def covered(fn2, T2, depth, seen):
                    """every caller of fn2 (in the analysed units) passed the check of T2 at its call site, or is itself covered"""
                    f2 = allf[fn2]
                    cs = [(g, cc) for g in allf.values() for cc in g.calls(fn2)]
                    if not cs or depth > 3:
                        return False
                    for g, cc in cs:
                        st = facts(g).before.get(cc["id"]) or frozenset()
                        Tg = T2
                        for i, p in enumerate(f2.params):
                            if p["n"] == T2 and i < len(args(cc)):
                                Tg = _type_text(g, args(cc)[i])
                        if Tg in UNFILTERABLE or Tg in passed_types(st, g) or \
                           any(fct[0] == "T" and fct[1].startswith("hwloc_filter_check_keep_object_type(") and fct[1].endswith(", %s)" % Tg) for fct in st):
                            continue
                        if g.name in seen or not covered(g.name, Tg, depth + 1, seen | {g.name}):
                            return False
                    return True
                if covered(fname, T, 0, {fname}):
                    ok, how = True, "every call chain into %s passes the filter check of %s before reaching it" % (fname, T)
            if ok and exc:
                chk.notes.append("%s: the frozen exception for (%s, %s) is no longer needed: %s" % (rule, fname, T, how))
            if not ok and exc:
                chk.inst(rule, f, key, True, "frozen exception: %s" % exc, loc=f.loc(c), nontrivial=False)
            else:
                chk.inst(rule, f, key, ok, how, loc=f.loc(c))
    return n


def null_elements(chk, P, units, rule="R-NULLELEM"):
    n = 0
    for u in units:
        for f in P.unit(u).funcs(only_main=True):
            if f.entry is None:
                continue
            sites = {}
            for x in f.walk():
                if x["k"] == "Member" and x.get("arrow"):
                    b = strip(x["c"][0])
                    if b["k"] == "Sub":
                        A = lv(b["c"][0])
                        if A:
                            sites.setdefault(A, []).append((x, src(b)))
            if not sites:
                continue
            m = None
            for A, lst in sites.items():
                if len(lst) < 2 or not A.isidentifier():
                    continue       # local / parameter arrays only
                if m is None:
                    m = must.Must(f).run()
                res = []
                for x, etxt in lst:
                    st = m.before.get(x["id"])
                    if st is None:
                        continue
                    res.append((x, etxt, must.nonnull(st, etxt)))
                # contradiction per element expression: A[j] is tested for NULL somewhere, so every dereference of A[j] needs it
                tested = set(etxt for _, etxt, g in res if g)
                # element expressions tested for NULL in any branch condition of the function
                for b, blk in f.blocks.items():
                    cnd = branch_cond(f, blk)
                    if cnd is None:
                        continue
                    for atom, t in edge_facts(cnd, True):
                        a2 = strip(atom)
                        if a2["k"] == "Sub" and lv(a2["c"][0]) == A:
                            tested.add(src(a2))
                        l, op, r = rel(atom, True)
                        if strip(l)["k"] == "Sub" and lv(strip(l)["c"][0]) == A and cval(r) == 0:
                            tested.add(src(strip(l)))
                if not tested:
                    continue
                k = 0
                for x, etxt, g in res:
                    if etxt not in tested:
                        continue
                    k += 1
                    n += 1
                    chk.inst(rule, f, "%s#%d" % (etxt, k), g, "%s is tested for NULL elsewhere in this function%s" % (etxt, "" if g else " but dereferenced here without a test"), loc=f.loc(x))
    return n
