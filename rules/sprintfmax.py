"""R-SPRINTF: unbounded sprintf() into a fixed-size local buffer fits for the longest text its format can produce.

For every `sprintf(B [+ off], "format", args...)` whose destination is a local char array of known size: the longest output of the
format is computed from the conversions and the C types of the arguments (%u 10, %d 11, %lu/%llu 20, %x by the argument's width,
%f by the argument's original type (a float prints at most 47 characters, a double 317), %c 1, %s from the argument: a string
literal, a conditional of literals, or a call of a function all of whose returns are string literals -- otherwise the site is not
judged).  The function is then explored with every sprintf forced to return that maximum and counters computed exactly, so that
an offset accumulated in a counted loop (`len += sprintf(tmp+len, ..)` up to N times per line) reaches its worst case: at every
sprintf reached, offset + maximum + 1 must not exceed the size of the buffer."""
import re
from prog import *
import peval

INTMAX = {8: 3, 16: 5, 32: 10, 64: 20}


def _strmax(P, f, n, depth=0):
    n = strip(n)
    if n is None:
        return None
    if n["k"] == "Str":
        return len(n.get("s", ""))
    if n["k"] == "Cond":
        a, b = _strmax(P, f, n["c"][1], depth), _strmax(P, f, n["c"][2], depth)
        return None if a is None or b is None else max(a, b)
    if n["k"] == "Call" and n.get("fn") and depth < 2:
        g = P.func(n["fn"])
        if g is None or g.entry is None:
            return None
        best = 0
        rets = list(returns(g))
        if not rets:
            return None
        for r in rets:
            v = _strmax(P, g, r["c"][0], depth + 1) if r.get("c") else None
            if v is None:
                return None
            best = max(best, v)
        return best
    return None


def maxlen(P, f, call, ev=None):
    """longest output of sprintf(dst, fmt, ...) or None when it cannot be bounded; with an evaluator, an integer argument whose
    value is known on the explored path counts with its own digits (`sprintf(tmp2, "%lu", len)` with len <= 300)"""
    a = args(call)
    if len(a) < 2:
        return None
    fmts = []
    fn = strip(a[1])
    if fn["k"] == "Str":
        fmts = [fn.get("s", "")]
    elif fn["k"] == "Cond" and strip(fn["c"][1])["k"] == "Str" and strip(fn["c"][2])["k"] == "Str":
        fmts = [strip(fn["c"][1]).get("s", ""), strip(fn["c"][2]).get("s", "")]
    else:
        return None
    best = 0
    for fmt in fmts:
        total = 0
        ai = 2
        pos = 0
        for m in re.finditer(r"%([-+ #0]*)(\d+|\*)?(?:\.(\d+|\*))?(hh|h|ll|l|z|j|t|L)?([diouxXcsfgeEp%])", fmt):
            total += m.start() - pos
            pos = m.end()
            flags, width, prec, lenm, conv = m.groups()
            if conv == "%":
                total += 1
                continue
            if width == "*" or prec == "*" or ai >= len(a):
                return None
            arg = a[ai]
            ai += 1
            t = f.type_of(strip(arg)) or f.type_of(arg)
            w = None
            known = ev.ev(arg) if (ev is not None and conv in "diouxX") else None
            if known is not None and conv in "diu":
                w = len(str(known))
            elif conv in "diouxX":
                bits = 64 if lenm in ("l", "ll", "z", "j", "t") else 32
                if conv in "xX":
                    w = bits // 4
                elif conv == "o":
                    w = (bits + 2) // 3
                else:
                    w = INTMAX[bits] + (1 if conv in "di" else 0)
                if "#" in flags:
                    w += 2
            elif conv == "c":
                w = 1
            elif conv == "p":
                w = 18
            elif conv == "s":
                w = _strmax(P, f, arg)
                if w is None:
                    return None
                if prec and prec.isdigit():
                    w = min(w, int(prec))
            elif conv == "f":
                # digits before the point are bounded by the ORIGINAL type of the argument (float promoted to double)
                ot = f.type_of(strip(arg))
                p = int(prec) if prec and prec.isdigit() else 6
                if ot and ot.get("s") == "float":
                    w = 1 + 39 + 1 + p
                elif ot and ot.get("s") == "double":
                    w = 1 + 309 + 1 + p
                else:
                    return None
            else:
                return None
            if width and width.isdigit():
                w = max(w, int(width))
            total += w
        total += len(fmt) - pos
        best = max(best, total)
    return best


def run(chk, P, units, rule="R-SPRINTF"):
    n = nj = 0
    for u in units:
        for f in P.unit(u).funcs(only_main=True):
            if f.entry is None:
                continue
            sites = {}
            for c in f.calls(("sprintf",)):
                a = args(c)
                d = strip(a[0])
                base, off = d, None
                if d["k"] == "Binary" and d["op"] == "+":
                    base, off = strip(d["c"][0]), d["c"][1]
                t = f.type_of(base)
                if base["k"] != "Ref" or not t or "arr" not in t or not t["s"].startswith("char"):
                    continue
                ml = maxlen(P, f, c)
                if ml is None:
                    nj += 1
                    continue
                sites[c["id"]] = (c, base["n"], t["arr"], off, ml)
            if not sites:
                continue
            offs = set(lv(s[3]) for s in sites.values() if s[3] is not None and lv(s[3]))
            simple = all(s[3] is None and s[4] + 1 <= s[2] for s in sites.values())
            bad = {}
            seen = set()
            if simple:
                for cid, (c, b, size, off, ml) in sites.items():
                    seen.add(cid)
                    if ml + 1 > size:
                        bad[cid] = (0, ml)
            else:
                def cv(c, a, sites=sites):
                    s = sites.get(c["id"])
                    return s[4] if s else None
                def obs(nd, env, sites=sites, bad=bad, seen=seen, f=f):
                    s = sites.get(nd["id"]) if nd["k"] == "Call" else None
                    if s is None:
                        return
                    c, b, size, off, ml = s
                    ml2 = maxlen(P, f, c, peval.Evaluator(f, env))
                    if ml2 is not None:
                        ml = min(ml, ml2)
                    o = 0 if off is None else peval.Evaluator(f, env).ev(off)
                    seen.add(nd["id"])
                    if o is None:
                        bad.setdefault(nd["id"], (None, ml))
                    elif o + ml + 1 > size:
                        cur = bad.get(nd["id"])
                        if cur is None or (cur[0] is not None and o > cur[0]):
                            bad[nd["id"]] = (o, ml)
                # loop counters that are compared with a constant somewhere (`j < 10`): only those bound a loop; an index that runs
                # up to a runtime count (`i < nr`) would never converge and is left unknown
                counters = set()
                for x in f.walk():
                    if x["k"] == "Binary" and x["op"] in ("<", "<=", ">", ">=", "!="):
                        l9, r9 = strip(x["c"][0]), strip(x["c"][1])
                        if l9 is not None and l9["k"] == "Ref" and cval(r9) is not None:
                            counters.add(l9["n"])
                        if r9 is not None and r9["k"] == "Ref" and cval(l9) is not None:
                            counters.add(r9["n"])
                try:
                    peval.PathEval(P, f, {}, is_effect=lambda *z: False, through_effects=True, observe=obs, call_values={"sprintf": cv}, exact_counters=True,
                                   track=offs | counters, maxstates=300000).run()
                except AnalysisBroken as ex:
                    chk.broke("%s: %s not evaluable (%s)" % (rule, f.name, ex))
                    continue
            k = 0
            for cid in sorted(sites):
                c, b, size, off, ml = sites[cid]
                if cid not in seen:
                    continue
                k += 1
                n += 1
                hit = bad.get(cid)
                chk.inst(rule, f, "sprintf(%s%s)#%d" % (b, "" if off is None else "+" + src(off), k), hit is None,
                         "sprintf into %s[%d]: the format produces at most %d characters%s%s" % (b, size, ml, "" if off is None else " per call at an offset accumulated by the earlier calls",
                         " and fits" if hit is None else " -- %s: the terminating NUL and up to %s characters land beyond the buffer"
                         % ("the offset is not bounded" if hit[0] is None else "at offset %d the call needs %d bytes of %d" % (hit[0], hit[0] + hit[1] + 1, size),
                            "?" if hit[0] is None else str(hit[0] + hit[1] + 1 - size))), loc=f.loc(c))
    return n, nj
