"""R-COMPACTALL: a helper that compacts several parallel arrays compacts every one that is present.

Scope (discovered): functions with at least three pointer parameters each of which is the base of an element store `P[i] = P[j]`
(the compaction of parallel arrays after some entries disappeared: hwloc_internal_distances_restrict()).  Explored with every
pointer parameter non-NULL: an element store through each of those parameters must be reached.  A branch structure that makes two
of them exclusive (`if (indexes) ... else if (different_types) ...`) leaves one array uncompacted although the count is lowered
for all of them."""
from prog import *
import peval


def run(chk, P, units, rule="R-COMPACTALL"):
    n = 0
    for u in units:
        for f in P.unit(u).funcs(only_main=True):
            if f.entry is None:
                continue
            T = f.unit.types
            ptrs = [p["n"] for p in f.params if T[p["t"]].get("ptr")]
            moved = {}
            for x in f.walk():
                a = assigned(x)
                if a and a[1] == "=" and a[2] is not None:
                    t, r = strip(a[0]), strip(a[2])
                    if t["k"] == "Sub" and r is not None and r["k"] == "Sub":
                        bt, br = strip(t["c"][0]), strip(r["c"][0])
                        if bt is not None and br is not None and bt["k"] == "Ref" and br["k"] == "Ref" and bt["n"] == br["n"] and bt["n"] in ptrs:
                            moved.setdefault(bt["n"], []).append(x["id"])
            if len(moved) < 3:
                continue
            hit = set()
            def obs(nd, env, moved=moved, hit=hit):
                for p, ids in moved.items():
                    if nd["id"] in ids:
                        hit.add(p)
            env = {p: 1 for p in ptrs}
            try:
                peval.PathEval(P, f, env, is_effect=lambda *z: False, through_effects=True, observe=obs, track=set(env), maxstates=100000).run()
            except AnalysisBroken as ex:
                chk.broke("%s: %s not evaluable (%s)" % (rule, f.name, ex))
                continue
            for p in sorted(moved):
                n += 1
                ok = p in hit
                chk.inst(rule, f, "array:" + p, ok, "with every array argument present, %s moves elements inside `%s`%s" % (f.name, p, "" if ok else
                         " -- but the compaction of `%s` is not reached: it is exclusive with another array's, the entries of `%s` no longer line up with the others after the count is lowered" % (p, p)))
    return n
