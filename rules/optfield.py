"""R-OPTFIELD: an object read from XML is accepted only with the sets that the rest of the library takes for granted.

The attribute reader allocates an object's bitmap fields on demand (`if (!obj->F) obj->F = hwloc_bitmap_alloc()` under the
attribute's name): a field whose attribute is absent from the file stays NULL.  The optional fields are DISCOVERED from that idiom.
The object importer is then explored, for each optional field F in turn, with obj->F == NULL, every other optional field non-NULL,
obj->type bound to each normal/memory type of a representative set, and with and without a parent: no successful exit and no
insertion call may be reached with obj->F still NULL -- the importer must reject the object or give the field a value.  (The core
dereferences these sets unconditionally: hwloc_insert_object_by_parent() sets bits in the root's complete sets, the importer itself
orders siblings by complete_cpuset.)"""
from prog import *
import peval


def optional_fields(P, reader):
    """fields F of the object parameter with `if (!obj->F) obj->F = <allocation>`"""
    out = {}
    for x in reader.walk():
        a = assigned(x)
        if a and a[1] == "=" and a[2] is not None:
            t = strip(a[0])
            r = strip(a[2])
            if t["k"] == "Member" and t.get("rec") == "hwloc_obj" and r is not None and r["k"] == "Call" and r.get("fn") in ("hwloc_bitmap_alloc", "hwloc_bitmap_alloc_full", "hwloc_bitmap_dup"):
                out[t["f"]] = lv(a[0])
    return out


def run(chk, P, unit="topology-xml.c", importer="hwloc__xml_import_object", reader="hwloc__xml_import_object_attr", rule="R-OPTFIELD"):
    u = P.unit(unit)
    f = P.need_func(importer, unit)
    rd = P.need_func(reader, unit)
    opt = optional_fields(P, rd)
    if not chk.need(len(opt) >= 2, "%s: optional fields not discovered in %s (%s)" % (rule, reader, sorted(opt))):
        return 0
    T = f.unit.types
    objp = [p["n"] for p in f.params if T[p["t"]].get("prec") == "hwloc_obj"]
    # the imported object is the LAST hwloc_obj parameter (parent comes first)
    if not chk.need(len(objp) >= 2, "%s: %s has no (parent, obj) parameters" % (rule, importer)):
        return 0
    parent, obj = objp[0], objp[-1]
    E = u.enum_consts
    types = [E[k] for k in ("HWLOC_OBJ_MACHINE", "HWLOC_OBJ_PACKAGE", "HWLOC_OBJ_CORE", "HWLOC_OBJ_PU", "HWLOC_OBJ_NUMANODE", "HWLOC_OBJ_GROUP") if k in E]
    insert = set(c["id"] for c in f.calls() if c.get("fn") and "insert" in c["fn"] and any(lv(a) == obj for a in args(c)))
    n = 0
    for F in sorted(opt):
        key = "%s->%s" % (obj, F)
        hits = {}
        reached = [0]
        def obs(nd, env, key=key, hits=hits):
            if nd["id"] in insert and env.get(key) == 0:
                hits.setdefault("inserted by %s()" % nd.get("fn"), f.loc(nd))
        def obx(kind, nd, env, key=key, hits=hits, reached=reached):
            v = None
            if kind == "return" and nd is not None and nd.get("c") and nd["c"][0] is not None:
                v = peval.Evaluator(f, env).ev(nd["c"][0])
            if v is not None and v < 0:
                reached[0] += 1
                return
            if env.get(key) == 0:
                hits.setdefault("accepted (successful return)", f.loc(nd) if nd is not None else f.name)
        starts = []
        tkey = "%s->type" % obj
        none = E.get("HWLOC_OBJ_TYPE_NONE")
        for ty in ([none] if none is not None else types):
            for par in (0, 1):
                # the type is read by the importer itself (type= attribute): it enters as NONE and is forked over the
                # representative types where the conversion writes it
                e = {tkey: ty, parent: par}
                for G in opt:
                    e["%s->%s" % (obj, G)] = 0 if G == F else 1
                if par:
                    for G in opt:
                        e["%s->%s" % (parent, G)] = 1
                starts.append(e)
        try:
            peval.PathEval(P, f, starts[0], is_effect=lambda *z: False, through_effects=True, observe=obs, observe_exit=obx, starts=starts[1:], split={tkey: types},
                           track=set(starts[1]) | set(starts[0]), maxstates=400000).run()
        except AnalysisBroken as ex:
            chk.broke("%s: %s not evaluable (%s)" % (rule, importer, ex))
            continue
        n += 1
        if not chk.need(reached[0] > 0 or hits, "%s: exploring %s with %s == NULL reached no exit at all" % (rule, importer, key)):
            continue
        ok = not hits
        chk.inst(rule, f, "absent:" + F, ok,
                 "`%s` is allocated by %s() only when the attribute is present; with it absent (NULL) and the object of a normal or memory type, %s() rejects the object or assigns the field%s"
                 % (key, reader, importer, "" if ok else " -- but the object is %s with the field still NULL; the core dereferences it" % "; ".join("%s at %s" % kv for kv in sorted(hits.items()))))
    return n
