"""Thread-safety rules (C17): R-PURE, R-STATIC, R-LOCK, refresh completeness.

A data race needs two accesses to one location, at least one a write, without ordering.  If no write is
reachable from the consulting API (on a refreshed topology) there is no race among readers on any schedule."""
from prog import *
import must

# public functions that are NOT part of the consulting API (they configure, build, modify or destroy a topology,
# or act on the operating system).  Everything else declared in the public headers is treated as a reader.
MODIFIERS = set("""
hwloc_topology_init hwloc_topology_load hwloc_topology_destroy hwloc_topology_dup hwloc_topology_abi_check hwloc_topology_check
hwloc_topology_set_pid hwloc_topology_set_synthetic hwloc_topology_set_xml hwloc_topology_set_xmlbuffer hwloc_topology_set_components
hwloc_topology_set_flags hwloc_topology_set_type_filter hwloc_topology_set_all_types_filter hwloc_topology_set_cache_types_filter
hwloc_topology_set_icache_types_filter hwloc_topology_set_io_types_filter hwloc_topology_set_userdata
hwloc_topology_set_userdata_export_callback hwloc_topology_set_userdata_import_callback
hwloc_topology_restrict hwloc_topology_allow hwloc_topology_insert_misc_object hwloc_topology_alloc_group_object
hwloc_topology_free_group_object hwloc_topology_insert_group_object hwloc_obj_add_other_obj_sets hwloc_topology_refresh
hwloc_obj_add_info hwloc_obj_set_subtype hwloc_modify_infos
hwloc_set_cpubind hwloc_set_proc_cpubind hwloc_set_thread_cpubind hwloc_set_membind hwloc_set_proc_membind hwloc_set_area_membind
hwloc_alloc hwloc_alloc_membind hwloc_alloc_membind_policy hwloc_free
hwloc_get_cpubind hwloc_get_proc_cpubind hwloc_get_thread_cpubind hwloc_get_last_cpu_location hwloc_get_proc_last_cpu_location
hwloc_get_membind hwloc_get_proc_membind hwloc_get_area_membind hwloc_get_area_memlocation
hwloc_distances_add hwloc_distances_add_create hwloc_distances_add_values hwloc_distances_add_commit hwloc_distances_remove
hwloc_distances_remove_by_depth hwloc_distances_remove_by_type hwloc_distances_release_remove hwloc_distances_transform
hwloc_memattr_register hwloc_memattr_set_value hwloc_cpukinds_register
hwloc_topology_diff_apply hwloc_topology_diff_destroy hwloc_topology_diff_load_xml hwloc_topology_diff_load_xmlbuffer
hwloc_shmem_topology_write hwloc_shmem_topology_adopt hwloc_shmem_topology_get_length
hwloc_export_obj_userdata hwloc_export_obj_userdata_base64 hwloc_free_xmlbuffer
hwloc_bitmap_alloc hwloc_bitmap_alloc_full hwloc_bitmap_free hwloc_bitmap_dup hwloc_bitmap_copy hwloc_bitmap_sscanf hwloc_bitmap_list_sscanf
hwloc_bitmap_taskset_sscanf hwloc_bitmap_zero hwloc_bitmap_fill hwloc_bitmap_only hwloc_bitmap_allbut hwloc_bitmap_from_ulong
hwloc_bitmap_from_ith_ulong hwloc_bitmap_from_ulongs hwloc_bitmap_set hwloc_bitmap_set_range hwloc_bitmap_set_ith_ulong hwloc_bitmap_clr
hwloc_bitmap_clr_range hwloc_bitmap_singlify hwloc_bitmap_or hwloc_bitmap_and hwloc_bitmap_andnot hwloc_bitmap_xor hwloc_bitmap_not
hwloc_bitmap_singlify_per_core
""".split())

SHARED_RECS = ("hwloc_topology", "hwloc_obj", "hwloc_distances_s", "hwloc_infos_s")


def shared_params(f):
    """indices of parameters through which shared (topology-owned) memory is reached"""
    T = f.unit.types
    out = []
    for i, p in enumerate(f.params):
        t = T[p["t"]]
        if t.get("prec") in SHARED_RECS:
            out.append(i)
        elif t.get("prec") == "hwloc_bitmap_s" and t.get("pconst"):
            out.append(i)
    return out


def pure_readers(chk, P, E, rule="R-PURE", exceptions=None):
    """every consulting function: no write to memory reachable from its shared parameters, nor to globals/statics
    (those are listed by R-STATIC), assuming the lazily refreshed caches are valid (refresh completeness)"""
    exceptions = exceptions or {}
    api = P.public_api()
    n = 0
    static_writes = {}
    for name in sorted(api):
        if name in MODIFIERS:
            continue
        f = P.func(name)
        if f is None or f.entry is None:
            continue
        S = E.sum.get(name)
        if S is None:
            continue
        n += 1
        sh = shared_params(f)
        bad = []
        for r, w in list(S.mod.items()) + list(S.free.items()):
            if r[0] == "arg" and r[1] in sh:
                # the handle of hwloc_distances_release is the object being released: its own business
                bad.append((r, w))
            elif r[0] in ("static", "glob") and r[1] != "<string literal>":
                static_writes.setdefault(r[1], (name, w))
        exc = exceptions.get(name)
        if bad and exc:
            chk.inst(rule, f, "reader", True, "frozen exception: %s" % exc, nontrivial=False)
            continue
        detail = "no write to memory reachable from its topology/object/const-bitmap parameters"
        path = None
        if bad:
            r, w = sorted(bad, key=str)[0]
            detail = "consulting function may write shared memory: parameter %d %s via %s" % (r[1], ".".join(r[2]), w)
            path = E.chain(name, r)
        chk.inst(rule, f, "reader", not bad, detail, path=path)
    return n, static_writes


def static_state(chk, P, E, entries, extra_static, rule="R-STATIC", locked_globals=()):
    """every variable with static storage duration written by a function reachable from the consulting API or from the
    life cycle of independent topologies: must be protected by the component mutex (R-LOCK) or be a known finding"""
    found = dict(extra_static)
    for name in entries:
        S = E.sum.get(name)
        if S is None:
            continue
        for r, w in S.mod.items():
            if r[0] in ("static", "glob") and r[1] != "<string literal>":
                found.setdefault(r[1], (name, w))
    n = 0
    for var, (entry, w) in sorted(found.items()):
        n += 1
        if var in locked_globals:
            chk.inst(rule, entry, "static:" + var, True, "written only under the components mutex (R-LOCK)", nontrivial=False)
            continue
        chk.inst(rule, var.split(".")[0] if "." in var else "<file-scope>", "static:" + var, False,
                 "unsynchronised write to static storage `%s` reachable from %s (via %s): concurrent callers race on it" % (var, entry, w))
    return n


def lock_discipline(chk, P, E, rule="R-LOCK"):
    """components.c: every path from LOCK to a function exit passes UNLOCK exactly once; every write to the process-wide
    component state happens with the mutex held (directly, or in a function only ever called with it held)"""
    u = P.unit("components.c")
    G = set(g["n"] for g in u.d["globals"] if g["static"] and not g["const"] and g["n"] not in ("hwloc_components_mutex",))
    G = set(g for g in G if g.startswith("hwloc_comp") or g.startswith("hwloc_disc_comp") or g.startswith("hwloc_plugin"))
    chk.notes.append("process-wide component state: %s" % sorted(G))

    class L(must.Must):
        def elem(self, st, n):
            if n["k"] == "Call" and n.get("fn") == "pthread_mutex_lock":
                return st | {("L", "held", frozenset())}
            if n["k"] == "Call" and n.get("fn") == "pthread_mutex_unlock":
                if self.recording and not any(f[0] == "L" for f in st):
                    self.double.append(n)
                return frozenset(f for f in st if f[0] != "L")
            return must.Must.elem(self, st, n)

    def writes_G(fname):
        S = E.sum.get(fname)
        if S is None:
            return set()
        return set(r[1] for r in S.mod if r[0] == "glob" and r[1] in G) | set(r[1] for r in S.free if r[0] == "glob" and r[1] in G)

    lockers = []
    facts = {}
    for f in u.funcs(only_main=True):
        if f.entry is None:
            continue
        if any(True for c in f.calls("pthread_mutex_lock")):
            lockers.append(f)
    n = 0
    held_calls = {}     # callee -> list of (caller, held?)
    for f in u.funcs(only_main=True):
        if f.entry is None:
            continue
        m = L(f)
        m.double = []
        m.run()
        facts[f.name] = m
        is_locker = f in lockers
        if is_locker:
            # balanced: no exit with the lock held, no unlock without lock
            bad_exit = []
            for r in returns(f):
                st = m.before.get(r["id"])
                if st is not None and any(x[0] == "L" for x in st):
                    bad_exit.append(f.loc(r))
            # fall-off end
            for b in f.preds.get(f.exit, ()):
                blk = f.blocks[b]
                if blk["e"] and f.nodes[blk["e"][-1]]["k"] != "Return":
                    st = m.inb.get(b, frozenset())
                    s2 = st
                    for e in blk["e"]:
                        s2 = m.elem(s2, f.nodes[e])
                    if any(x[0] == "L" for x in s2):
                        bad_exit.append("%s:end" % f.name)
            n += 1
            chk.inst(rule, f, "balanced", not bad_exit and not m.double, "every exit is reached with the mutex released (held at: %s; unlock without lock: %d)" % (bad_exit[:3], len(m.double)))
        # direct writes and calls
        for x in f.walk():
            st = m.before.get(x["id"])
            if st is None:
                continue
            held = any(y[0] == "L" for y in st)
            a = assigned(x)
            if a:
                t = strip(a[0])
                root = t
                while root["k"] in ("Member", "Sub") or (root["k"] == "Unary" and root["op"] == "*"):
                    root = strip(root["c"][0])
                if root["k"] == "Ref" and root.get("dk") == "global" and root["n"] in G:
                    held_calls.setdefault("@" + f.name, []).append((f, x, held, root["n"]))
            if x["k"] == "Call" and x.get("fn") and x["fn"] != f.name and writes_G(x["fn"]):
                held_calls.setdefault(x["fn"], []).append((f, x, held, None))
    # calls from other units into component-state writers
    for u2 in P.units.values():
        if u2 is u:
            continue
        for f in u2.funcs(only_main=True):
            for c in f.calls():
                if c.get("fn") and writes_G(c["fn"]) and c["fn"] in u._fd:
                    held_calls.setdefault(c["fn"], []).append((f, c, False, None))
    # a function is "called locked" if it is static and every call site holds the lock or sits in a called-locked function
    locked_fn = set()
    changed = True
    while changed:
        changed = False
        for fn, sites in held_calls.items():
            if fn.startswith("@") or fn in locked_fn:
                continue
            g = u.func(fn)
            if g is None or g in lockers:
                continue
            if sites and all(h or caller.name in locked_fn for caller, node, h, _ in sites):
                locked_fn.add(fn)
                changed = True
    for key, sites in sorted(held_calls.items()):
        if not key.startswith("@"):
            continue
        fname = key[1:]
        for (f, x, held, g) in sites:
            n += 1
            ok = held or fname in locked_fn
            chk.inst(rule, f, "write:%s#%d" % (g, n), ok, "write to process-wide `%s` %s" % (g, "with the components mutex held" if held else ("in a function only called with the mutex held" if fname in locked_fn else "WITHOUT the components mutex")), loc=f.loc(x))
    # calls of locking-unaware writers from unlocked contexts
    for fn, sites in sorted(held_calls.items()):
        if fn.startswith("@"):
            continue
        g = u.func(fn)
        if g is None or g in lockers:
            continue
        for (f, x, held, _) in sites:
            n += 1
            ok = held or f.name in locked_fn
            chk.inst(rule, f, "call:%s#%d" % (fn, n), ok, "%s() writes component state %s and is called %s" % (fn, sorted(writes_G(fn)), "with the mutex held" if ok else "WITHOUT the mutex"), loc=f.loc(x))
    return n, G, locked_fn


REFRESH_PAIRS = (("HWLOC_TOPOLOGY_FLAG_NO_CPUKINDS", "hwloc_internal_cpukinds_rank"),
                 ("HWLOC_TOPOLOGY_FLAG_NO_DISTANCES", "hwloc_internal_distances_refresh"),
                 ("HWLOC_TOPOLOGY_FLAG_NO_MEMATTRS", "hwloc_internal_memattrs_refresh"))


def refresh_complete(chk, P, rule="R-REFRESH", funcs=("hwloc_topology_refresh", "hwloc_topology_load")):
    """the caches that readers would otherwise refresh lazily are all made valid by hwloc_topology_refresh() and by the
    tail of hwloc_topology_load(), each exactly when ITS OWN NO_* flag is clear.  Decided by evaluation: the function is explored
    with topology->flags seeded to every combination of the NO_* bits concerned; a refresher must be reachable in exactly the
    combinations where its own bit is clear (a guard merged over two flags, or a test of the wrong flag, changes that set)."""
    import peval, itertools
    n = 0
    u = P.unit("topology.c")
    bits = {}
    for flag, callee in REFRESH_PAIRS:
        v = u.enum_consts.get(flag)
        if not chk.need(v is not None, "%s: %s is not an enumerator any more" % (rule, flag)):
            return 0
        bits[flag] = v
    for fname in funcs:
        f = P.need_func(fname, "topology.c")
        tp = [p["n"] for p in f.params if f.unit.types[p["t"]].get("prec") == "hwloc_topology"]
        if not chk.need(bool(tp), "%s: %s has no topology parameter" % (rule, fname)):
            continue
        key = "%s->flags" % tp[0]
        reached = {callee: set() for _, callee in REFRESH_PAIRS}
        words = []
        for combo in itertools.product((0, 1), repeat=len(REFRESH_PAIRS)):
            w = 0
            for (flag, _), on in zip(REFRESH_PAIRS, combo):
                if on:
                    w |= bits[flag]
            words.append(w)
            def obs(nd, env, w=w):
                if nd["k"] == "Call" and nd.get("fn") in reached:
                    reached[nd["fn"]].add(w)
            try:
                peval.PathEval(P, f, {key: w}, is_effect=lambda *z: False, through_effects=True, observe=obs, track={key}, maxstates=100000).run()
            except AnalysisBroken as ex:
                chk.broke("%s: %s not evaluable (%s)" % (rule, fname, ex))
                return n
        for flag, callee in REFRESH_PAIRS:
            n += 1
            want = set(w for w in words if not (w & bits[flag]))
            got = reached[callee]
            ok = got == want
            extra, missing = sorted(got - want), sorted(want - got)
            chk.inst(rule, f, "refresh:" + callee, ok, "%s runs in %s exactly when %s is not set (%d flag words evaluated)%s"
                     % (callee, fname, flag, len(words), "" if ok else " -- " + ("; ".join(filter(None, [
                         "not reached with flags == 0x%x although its own flag is clear" % missing[0] if missing else "",
                         "reached with flags == 0x%x although its own flag is set" % extra[0] if extra else ""])))))
    return n


def refresh_every_element(chk, P, rule="R-REFRESHALL"):
    """the refresh-all functions validate EVERY element: explored with exactly one element present whose fields are all 0 (not yet
    valid, no targets, no flags: every scalar field of the element that the function reads is seeded 0), the per-element refresher
    must have been called on every path to the function's exit.  An element skipped under some condition keeps its cache invalid
    after load()/refresh(); every reader then refreshes it itself, i.e. writes the shared topology (and an adopted read-only one)."""
    import peval
    n = 0
    for fname, unit, per_elem, one in (("hwloc_internal_memattrs_refresh", "memattrs.c", "hwloc__imattr_refresh", {"topology->nr_memattrs": 1}),
                                       ("hwloc_internal_distances_refresh", "distances.c", "hwloc_internal_distances_refresh_one", {"topology->first_dist": 1})):
        f = P.need_func(fname, unit)
        if not chk.need(any(True for _ in f.calls((per_elem,))), "%s: %s no longer calls %s" % (rule, fname, per_elem)):
            continue
        # the element variable: the local handed to the per-element refresher
        elems = set()
        for c in f.calls((per_elem,)):
            for a in args(c):
                a2 = strip(a)
                if a2 is not None and a2["k"] == "Ref" and a2.get("dk") == "local":
                    elems.add(a2["n"])
        env = dict(one)
        for x in f.walk():
            if x["k"] == "Member" and x.get("arrow"):
                b = strip(x["c"][0])
                if b is not None and b["k"] == "Ref" and b["n"] in elems:
                    t = f.type_of(x)
                    if t and ("w" in t or t.get("ptr")):
                        env.setdefault("%s->%s" % (b["n"], x["f"]), 0)
        miss = []
        nex = [0]
        def obx(kind, nd, e, miss=miss, nex=nex, f=f):
            nex[0] += 1
            if not e.get("#" + per_elem):
                miss.append(f.loc(nd) if nd is not None else f.name + ":end")
        try:
            peval.PathEval(P, f, env, is_effect=lambda *z: False, through_effects=True, observe_exit=obx, markers={per_elem}, exact_counters=True,
                           call_values={per_elem: 0}, track=set(env) | set(v9["n"] for v9 in f.walk() if v9["k"] == "Var"), maxstates=50000).run()
        except AnalysisBroken as ex:
            chk.broke("%s: %s not evaluable (%s)" % (rule, fname, ex))
            continue
        n += 1
        if not chk.need(nex[0] > 0, "%s: no exit of %s reached" % (rule, fname)):
            continue
        chk.inst(rule, f, "every-element:" + per_elem, not miss,
                 "with one element whose fields are all 0 (cache not valid), every path through %s calls %s for it%s"
                 % (fname, per_elem, "" if not miss else " -- but the exit at %s is reached without: that element stays invalid after load()/refresh() and every reader refreshes it itself (a write)" % miss[0]))
    return n
