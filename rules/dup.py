"""Duplication rules (C12): R-DUPFIELD, R-NOALIAS, R-CACHEINV."""
from prog import *
import must


def macro_value(P, name):
    """value of an object-like macro, recovered from any expression expanded from it"""
    for u in P.units.values():
        for f in u.funcs(only_main=True):
            for n in f.walk():
                if n.get("mo") == name and "mi" not in n and cval(n) is not None:
                    return cval(n)
    return None


def macro_text(P, name):
    """source rendering of an object-like macro's expansion (as it appears in fact texts)"""
    for u in P.units.values():
        for f in u.funcs(only_main=True):
            for n in f.walk():
                if n.get("mo") == name and "mi" not in n and cval(n) is not None and n["k"] in ("Binary", "Int", "Cast"):
                    par = f.par(n)
                    if par is None or par.get("mo") != name:
                        return src(n)
    return None


def rec_fields_assigned(f, record, exclude_roots=("src", "old", "olddist", "oimattr", "oimtg", "oimi", "oldi"), plain_only=False):
    """fields of `record` assigned anywhere in f through a base that is not one of the source variables; a whole-record
    memcpy/memset into a pointer to that record sets every field"""
    out = {}
    everything = None
    def root_name(n):
        n = strip(n)
        while n is not None and n["k"] in ("Member", "Sub", "Cast") or (n is not None and n["k"] == "Unary" and n["op"] in ("*", "&")):
            n = strip(n["c"][0])
        return n["n"] if n is not None and n["k"] == "Ref" else None
    for n in f.walk():
        a = assigned(n)
        if a and not (plain_only and a[1] != "="):
            t = strip(a[0])
            x = t
            while x is not None and x["k"] in ("Member", "Sub"):
                if x["k"] == "Member" and x.get("rec") == record and root_name(x) not in exclude_roots:
                    out.setdefault(x["f"], f.loc(n))
                x = strip(x["c"][0])
        if n["k"] == "Call":
            for x in args(n):
                x2 = strip(x)
                if x2 is not None and x2["k"] == "Unary" and x2["op"] == "&":
                    y = strip(x2["c"][0])
                    while y is not None and y["k"] in ("Member", "Sub"):
                        if y["k"] == "Member" and y.get("rec") == record and root_name(y) not in exclude_roots:
                            out.setdefault(y["f"], f.loc(n))
                        y = strip(y["c"][0])
            if n.get("fn") in ("memcpy", "memset") and args(n):
                d = strip(args(n)[0])
                t = f.type_of(d)
                if t and t.get("prec") == record and root_name(d) not in exclude_roots:
                    everything = f.loc(n)
    return out, everything


def fields_assigned(f, basevars, plain_only=False):
    """first-level fields F assigned (or passed by address / as destination) through `v->F...` for v in basevars.
    plain_only: count `=` stores only (an increment of a counter in a helper is a use of the field, not a copy)"""
    out = {}
    def note(k, n):
        for v in basevars:
            if k.startswith(v + "->"):
                fld = re.split(r"->|\.|\[", k[len(v) + 2:])[0]
                out.setdefault(fld, f.loc(n))
    for n in f.walk():
        a = assigned(n)
        if a and not (plain_only and a[1] != "="):
            k = lv(a[0])
            if k:
                note(k, n)
        if n["k"] == "Call":
            for x in args(n):
                x2 = strip(x)
                if x2 is not None and x2["k"] == "Unary" and x2["op"] == "&":
                    k = lv(x2["c"][0])
                    if k:
                        note(k, n)
            if n.get("fn") in ("memcpy", "memset", "memmove") and args(n):
                k = lv(args(n)[0])
                if k:
                    note(k, n)
    return out


import re


def dupfield(chk, P, record, owners, unit_of=None, exceptions=None, rule="R-DUPFIELD", defaulted=None, nprimary=None):
    """every field of `record` is given a value on the NEW instance by one of the owner functions.
    owners: list of (function name, [names of variables denoting the new instance]); the first `nprimary` of them are
    the duplication functions proper: a field set only by the later (initialiser) owners must be listed in `defaulted`
    (fields that a copy intentionally re-initialises instead of copying), so a dropped copy statement is noticed."""
    exceptions = exceptions or {}
    defaulted = defaulted or {}
    rec = None
    for u in P.units.values():
        if record in u.records:
            rec = u.records[record]
            break
    if rec is None:
        chk.broke("%s: record %s not found" % (rule, record))
        return 0
    # helpers that receive the new instance from an owner are owners too (an extracted helper keeps the rule's view intact)
    owners = list(owners)
    nprim = len(owners) if nprimary is None else nprimary
    expanded = []
    seen_o = set(o[0] for o in owners)
    named = set(o[0] for o in owners)
    for oi, (fname, vars_) in enumerate(owners):
        expanded.append((fname, vars_, oi < nprim))
        frontier = [(fname, vars_)]
        depth = 0
        while frontier and depth < 3:
            depth += 1
            nxt = []
            for fn2, vs in frontier:
                f2 = P.func(fn2)
                if f2 is None:
                    continue
                for c in f2.calls():
                    g = P.func(c.get("fn")) if c.get("fn") else None
                    if g is None or g.entry is None or g.name in seen_o:
                        continue
                    pv = []
                    for i, a in enumerate(args(c)):
                        k = lv(a)
                        if k in vs and i < len(g.params):
                            pv.append(g.params[i]["n"])
                    if pv:
                        seen_o.add(g.name)
                        expanded.append((g.name, pv, oi < nprim))
                        nxt.append((g.name, pv))
            frontier = nxt
    got = {}
    prim = set()
    for oi, (fname, vars_, is_prim) in enumerate(expanded):
        f = P.func(fname)
        if f is None:
            chk.broke("%s: owner function %s vanished" % (rule, fname))
            continue
        before = set(got)
        for fld, loc in fields_assigned(f, vars_, plain_only=fname not in named).items():
            got.setdefault(fld, "%s (%s)" % (fname, loc))
        rf, everything = rec_fields_assigned(f, record, plain_only=fname not in named)
        for fld, loc in rf.items():
            got.setdefault(fld, "%s (%s)" % (fname, loc))
        if everything:
            for fld in rec["fields"]:
                got.setdefault(fld["n"], "%s (whole-record copy at %s)" % (fname, everything))
        if is_prim:
            prim |= set(got) - before
    n = 0
    anchor = P.func(owners[0][0])
    for fld in rec["fields"]:
        nm = fld["n"]
        if not nm:
            continue
        n += 1
        if nm in got and (nprimary is None or nm in prim):
            chk.inst(rule, anchor, "%s.%s" % (record, nm), True, "set on the copy by %s" % got[nm])
        elif nm in got and nm in defaulted:
            chk.inst(rule, anchor, "%s.%s" % (record, nm), True, "intentionally re-initialised, not copied (%s): %s" % (got[nm], defaulted[nm]), nontrivial=False)
        elif nm in got:
            chk.inst(rule, anchor, "%s.%s" % (record, nm), False, "field %s is only default-initialised on the copy (%s): the duplication functions %s do not copy it and it is not a listed re-initialised field" % (nm, got[nm], [o[0] for o in expanded if o[2]]))
        elif nm in exceptions:
            chk.inst(rule, anchor, "%s.%s" % (record, nm), True, "frozen exception: %s" % exceptions[nm], nontrivial=False)
        else:
            chk.inst(rule, anchor, "%s.%s" % (record, nm), False, "field %s of struct %s is not given a value on the copy by any of %s" % (nm, record, [o[0] for o in owners]))
    return n


def noalias(chk, P, E, fname, new_args, old_args, allowed, rule="R-NOALIAS"):
    """no pointer rooted at the old instance is stored into memory rooted at the new one (value flow from effect
    summaries), except the frozen shallow fields"""
    S = E.sum.get(fname)
    f = P.need_func(fname)
    if S is None:
        chk.broke("%s: no summary for %s" % (rule, fname))
        return 0
    bad = []
    n = 0
    for tgt, vals in sorted(S.pst.items(), key=str):
        if tgt[0] != "arg" or tgt[1] not in new_args:
            continue
        for v in vals:
            if v[0] == "arg" and v[1] in old_args:
                n += 1
                path = tuple(x for x in tgt[2] if x != "*")
                last = path[-1] if path else ""
                vlast = [x for x in v[2] if x != "*"]
                if last in allowed or (vlast and vlast[-1] in allowed):
                    continue
                bad.append((tgt, v))
    return n, bad


def memcpy_pointer_fields(chk, P, fname, unit, rule="R-NOALIAS"):
    """memcpy of a record that contains data pointers: each pointer field must be overwritten on the copy (fresh allocation
    or NULL) on every path before the function returns successfully -- here: assigned somewhere after the memcpy"""
    f = P.need_func(fname, unit)
    n = 0
    for c in f.calls(("memcpy",)):
        a = args(c)
        d = strip(a[0])
        t = f.type_of(d)
        if not t or not t.get("prec"):
            continue
        rec = f.unit.records.get(t["prec"])
        if rec is None:
            continue
        ptrs = [fl["n"] for fl in rec["fields"] if f.unit.types[fl["t"]].get("ptr") and not f.unit.types[fl["t"]].get("fp")]
        if not ptrs:
            continue
        dk = lv(d) or src(d)
        later = {}
        for x in f.walk():
            if x.get("l", 0) < c.get("l", 0):
                continue
            aa = assigned(x)
            if aa:
                y = strip(aa[0])
                while y is not None and y["k"] in ("Member", "Sub"):
                    if y["k"] == "Member" and y.get("rec") == t["prec"]:
                        later.setdefault(y["f"], f.loc(x))
                    y = strip(y["c"][0])
            if x["k"] == "Call":
                for z in args(x):
                    z2 = strip(z)
                    if z2 is not None and z2["k"] == "Unary" and z2["op"] == "&":
                        y = strip(z2["c"][0])
                        while y is not None and y["k"] in ("Member", "Sub"):
                            if y["k"] == "Member" and y.get("rec") == t["prec"]:
                                later.setdefault(y["f"], f.loc(x))
                            y = strip(y["c"][0])
        for p in ptrs:
            n += 1
            chk.inst(rule, f, "memcpy:%s->%s" % (dk, p), p in later, "pointer field %s copied verbatim by memcpy(%s, ...) must be re-assigned on the copy afterwards%s" % (p, dk, " (at %s)" % later[p] if p in later else ""), loc=f.loc(c))
    return n


def cacheinv(chk, P, rule="R-CACHEINV"):
    """dup functions clear the validity flags of pointer caches so that they are rebuilt against the new tree:
    whatever is assigned to the copy's iflags, the VALID bit is zero (evaluated with all source bits set)"""
    import peval
    n = 0
    for fname, unit, flag, rec in (("hwloc_internal_distances_dup_one", "distances.c", "HWLOC_INTERNAL_DIST_FLAG_OBJS_VALID", "hwloc_internal_distances_s"),
                                   ("hwloc_internal_memattrs_dup", "memattrs.c", "HWLOC_IMATTR_FLAG_CACHE_VALID", "hwloc_internal_memattr_s")):
        f = P.need_func(fname, unit)
        fv = f.unit.enum_consts.get(flag) or macro_value(P, flag)
        n += 1
        if fv is None:
            chk.broke("%s: value of %s not found" % (rule, flag))
            continue
        cleared = False
        for x in f.walk():
            a = assigned(x)
            if not a:
                continue
            t = strip(a[0])
            if t["k"] == "Member" and t.get("rec") == rec and t["f"] == "iflags" and a[2] is not None:
                env = {}
                for y in subnodes(a[2]):
                    k = lv(y) if y["k"] in ("Member",) else None
                    if k:
                        env[k] = 0xffffffff
                v = peval.Evaluator(f, env).ev(a[2])
                if a[1] == "=" and v is not None and not (v & fv):
                    cleared = True
                if a[1] == "&=" and v is not None and not (v & fv):
                    cleared = True
        chk.inst(rule, f, "clears:" + flag, cleared, "the copy's iflags have %s (0x%x) masked out: pointer caches refer to the old tree and must be rebuilt" % (flag, fv))
    # cached object pointers reset
    for fname, unit, fields in (("hwloc_internal_memattrs_dup", "memattrs.c", ("obj",)),):
        f = P.need_func(fname, unit)
        for fld in fields:
            ok = any(assigned(x) and strip(assigned(x)[0])["k"] == "Member" and strip(assigned(x)[0])["f"] == fld and assigned(x)[2] is not None and cval(strip(assigned(x)[2])) == 0 for x in f.walk())
            n += 1
            chk.inst(rule, f, "null:" + fld, ok, "cached object pointer %s is reset to NULL on the copy" % fld)
    return n


def shallow_copies(chk, P, E, fname, unit, src_params, allowed, rule="R-NOALIAS"):
    """in a duplication function: no data pointer loaded from the SOURCE instance is stored into a pointer field of the
    copy (value flow through locals included), except the frozen shallow fields"""
    f = P.need_func(fname, unit)
    vr = E._vroots.get(f.name)
    if vr is None:
        E.analyse(f)
        vr = E._vroots[f.name]
    n = 0
    for x in f.walk():
        a = assigned(x)
        if not a or a[1] != "=" or a[2] is None:
            continue
        t = strip(a[0])
        tt = f.type_of(t)
        if t["k"] not in ("Member", "Sub") or not tt or not tt.get("ptr") or tt.get("fp"):
            continue
        # target must not be rooted at the source
        troots = E.locroots(f, t, vr)
        if any(r[0] == "arg" and r[1] in src_params for r in troots):
            continue
        fld = t["f"] if t["k"] == "Member" else (strip(t["c"][0]).get("f") or "[]")
        n += 1
        vroots = E.roots(f, a[2], vr)
        shallow = [r for r in vroots if r[0] == "arg" and r[1] in src_params and len(r[2]) >= 1]
        if shallow and fld in allowed:
            chk.inst(rule, f, "store:%s#%d" % (fld, n), True, "frozen shallow field: %s" % allowed[fld], loc=f.loc(x), nontrivial=False)
        else:
            chk.inst(rule, f, "store:%s#%d" % (fld, n), not shallow, "pointer field %s of the copy %s" % (fld, "receives a pointer into the source instance (%s): the two topologies would share storage" % src(a[2]) if shallow else "gets fresh/own memory"), loc=f.loc(x))
    return n


# --------------------------------------------------------------------------------------------------------------------------
# R-SHALLOWELEM: every element of an array copied in bulk gets its pointer fields re-assigned in every iteration
# --------------------------------------------------------------------------------------------------------------------------
class _ElemFlow(Flow):
    """must-facts (binding key, field): the pointer field of the element the key is bound to was stored since the binding"""

    def __init__(self, f, dests, loops_of_key, headers):
        Flow.__init__(self, f)
        self.dests = dests            # lv of a bulk-copied array -> record name
        self.loops_of_key = loops_of_key   # key -> loop header whose iterations scope the key's facts
        self.headers = headers        # set of loop header block ids
        self.outb = {}

    def init(self):
        return frozenset()

    def join(self, a, b):
        return a & b

    def _elem_key(self, base, arrow):
        """which element does `base` (the object expression of a member access) denote?"""
        b = strip(base)
        if b is None:
            return None
        if arrow and b["k"] == "Ref" and b["n"] in self.loops_of_key:
            return b["n"]
        if not arrow and b["k"] == "Sub" and lv(b["c"][0]) in self.dests:
            return lv(b["c"][0]) + "[]"
        return None

    def _stores(self, n):
        """(key, field) pairs stored by element n: direct assignment of a member, or its address handed to a call"""
        out = []
        a = assigned(n)
        tg = []
        if a:
            tg.append(strip(a[0]))
        if n["k"] == "Call":
            for z in args(n):
                z2 = strip(z)
                if z2 is not None and z2["k"] == "Unary" and z2["op"] == "&":
                    tg.append(strip(z2["c"][0]))
        for y in tg:
            # the outermost record member on the access path that belongs to the element
            chain = []
            while y is not None and y["k"] in ("Member", "Sub"):
                chain.append(y)
                y = strip(y["c"][0])
            for m in chain:
                if m["k"] == "Member":
                    k = self._elem_key(m["c"][0], m.get("arrow"))
                    if k:
                        out.append((k, m["f"]))
        return out

    def elem(self, st, n):
        a = assigned(n)
        if a and strip(a[0])["k"] == "Ref" and strip(a[0])["n"] in self.loops_of_key:
            st = frozenset(x for x in st if x[0] != strip(a[0])["n"])
        if n["k"] == "DeclStmt":
            for v in n["c"]:
                if v["n"] in self.loops_of_key:
                    st = frozenset(x for x in st if x[0] != v["n"])
        new = self._stores(n)
        if new:
            st = st | frozenset(new)
        return st

    def edge(self, st, blk, cond, truth):
        if blk["id"] in self.headers:
            keys = set(k for k, h in self.loops_of_key.items() if h == blk["id"])
            if keys:
                st = frozenset(x for x in st if x[0] not in keys)
        return st

    def out_state(self, blk, st):
        self.outb[blk["id"]] = st


def _natural_loops(f):
    """-> {header block: (set of back-edge source blocks, set of body blocks)}"""
    dom = f.dominators()
    loops = {}
    for b, blk in f.blocks.items():
        if b not in dom:
            continue
        for s in blk["s"]:
            if s is not None and s in dom[b]:
                L = loops.setdefault(s, (set(), set([s])))
                L[0].add(b)
                stack = [b]
                while stack:
                    x = stack.pop()
                    if x in L[1]:
                        continue
                    L[1].add(x)
                    stack.extend(p for p in f.preds.get(x, ()) if p in dom)
    return loops


def shallow_elements(chk, P, fname, unit, rule="R-SHALLOWELEM"):
    """memcpy(D, S, n * sizeof(*D)) copies an array of records with pointer fields verbatim; the loop that then walks the elements
    (through `E = &D[i]` or `D[i].f`) must store every pointer field of the element on every path that finishes an iteration normally
    (`continue` included): an element left as copied shares the original's allocation, and both instances release it"""
    f = P.need_func(fname, unit)
    dests = {}
    for c in f.calls(("memcpy",)):
        a = args(c)
        d = strip(a[0])
        t = f.type_of(d)
        if not t or not t.get("prec") or lv(d) is None:
            continue
        rec = f.unit.records.get(t["prec"])
        if rec is None:
            continue
        ptrs = [fl["n"] for fl in rec["fields"] if f.unit.types[fl["t"]].get("ptr") and not f.unit.types[fl["t"]].get("fp")]
        if ptrs:
            dests[lv(d)] = (t["prec"], ptrs, c)
    if not dests:
        return 0
    loops = _natural_loops(f)
    def innermost(block):
        best = None
        for h, (srcs, body) in loops.items():
            if block in body and (best is None or len(body) < len(loops[best][1])):
                best = h
        return best
    # bindings: aliases `E = &D[i]` and direct element accesses `D[i].f`
    bind = {}      # key -> (dest lv, header)
    for x in f.walk():
        tgt = rhs = None
        a = assigned(x)
        if a and a[1] == "=" and a[2] is not None and strip(a[0])["k"] == "Ref":
            tgt, rhs = strip(a[0])["n"], strip(a[2])
        elif x["k"] == "Var" and x.get("c") and x["c"][0] is not None:
            tgt, rhs = x["n"], strip(x["c"][0])
        if tgt and rhs is not None and rhs["k"] == "Unary" and rhs["op"] == "&":
            s = strip(rhs["c"][0])
            if s is not None and s["k"] == "Sub" and lv(s["c"][0]) in dests:
                y = x["id"]
                while y is not None and y not in f.elem_block:
                    y = f.parent.get(y)
                # a Var sits inside its (possibly synthetic) DeclStmt element
                if y is None:
                    for e, (bb, _i) in f.elem_block.items():
                        nd = f.nodes.get(e)
                        if nd is not None and nd["k"] == "DeclStmt" and any(v.get("id") == x["id"] for v in nd["c"]):
                            y = e
                            break
                if y is None:
                    continue
                h = innermost(f.elem_block[y][0])
                if h is not None:
                    bind[tgt] = (lv(s["c"][0]), h)
        if x["k"] == "Member" and not x.get("arrow"):
            b = strip(x["c"][0])
            if b is not None and b["k"] == "Sub" and lv(b["c"][0]) in dests:
                y = x["id"]
                while y is not None and y not in f.elem_block:
                    y = f.parent.get(y)
                if y is None:
                    continue
                h = innermost(f.elem_block[y][0])
                key = lv(b["c"][0]) + "[]"
                if h is not None and (key not in bind or len(loops[h][1]) > len(loops[bind[key][1]][1])):
                    bind[key] = (lv(b["c"][0]), h)      # the outermost loop that walks the array directly
    n = 0
    if not bind:
        return 0
    fl = _ElemFlow(f, set(dests), {k: h for k, (_d, h) in bind.items()}, set(loops)).run()
    for key in sorted(bind):
        d, h = bind[key]
        recname, ptrs, c = dests[d]
        for p in ptrs:
            n += 1
            missing = [b for b in loops[h][0] if b in fl.outb and (key, p) not in fl.outb[b]]
            ok = not missing
            where = ""
            if missing:
                blk = f.blocks[missing[0]]
                where = f.loc(f.nodes[blk["e"][0]]) if blk["e"] else f.name
            chk.inst(rule, f, "elem:%s->%s" % (key, p), ok,
                     "memcpy(%s, ...) copies the %s elements verbatim: every iteration of the loop that walks them through `%s` stores the pointer field `%s` before it ends%s"
                     % (d, recname, key, p, "" if ok else " -- but an iteration can end (near %s) with the field still holding the source's pointer: both instances own, and release, the same allocation" % where),
                     loc=f.loc(c))
    return n
