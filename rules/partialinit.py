"""R-PARTIALINIT: an initialiser that fills a record through an out-parameter fills every field of each sub-record it starts filling.

Scope (discovered): record types that the program copies as a whole (`dst = *src` with a struct type) and the functions that
write fields of such a record through a non-const pointer parameter.  For every non-failing return of such a function the set of
field paths stored on EVERY path to that return is computed (must-facts); if a struct-typed sub-record (or the record itself) has
some of its fields stored there, all of them must be: the whole-record copy that follows takes the unset field along
(hwloc_internal_location_s: location.object.{obj, gp_index, type} -- an unset `obj` is handed to the user by get_initiators).
A union-typed field counts as stored when any of its members is."""
from prog import *
import must


def whole_copied_records(P, units):
    out = {}
    for u in units:
        for f in P.unit(u).funcs(only_main=True):
            for x in f.walk():
                a = assigned(x)
                if a and a[1] == "=" and a[2] is not None:
                    t = f.type_of(strip(a[0]))
                    if t and t.get("rec") and not t.get("ptr") and "arr" not in t:
                        out.setdefault(t["rec"], []).append(f.loc(x))
    return out


_USED = {}


def _used_fields(u):
    """the extractor does not list the fields of anonymous records: recover them from the member accesses of the unit --
    (named root record, path below it) -> {field name: type index}"""
    if id(u) in _USED:
        return _USED[id(u)]
    out = {}
    for f in u.funcs(only_main=False):
        for x in f.walk():
            if x["k"] != "Member":
                continue
            chain = []
            y = x
            while y is not None and y["k"] == "Member":
                chain.append(y)
                if y.get("rec"):
                    break
                y = strip(y["c"][0])
            if not chain or not chain[-1].get("rec"):
                continue
            root = chain[-1]["rec"]
            names = [m["f"] for m in reversed(chain)]
            for i in range(1, len(names)):
                out.setdefault((root, tuple(names[:i])), {})[names[i]] = chain[len(chain) - 1 - i].get("t")
    _USED[id(u)] = out
    return out


def _fields(u, rec, root=None, prefix=()):
    r = u.records.get(rec) if rec else None
    if r:
        return r["fields"]
    used = _used_fields(u).get((root, tuple(prefix)), {})
    return [{"n": k, "t": v} for k, v in sorted(used.items()) if v is not None]


def _isrec(t):
    return t is not None and "rec" in t and not t.get("ptr") and "arr" not in t and (t["s"].startswith("struct") or t["s"].startswith("union"))


def _check(u, rec, written, prefix=(), root=None):
    """-> list of missing field paths below `prefix` (a struct some of whose fields are written)"""
    root = root or rec
    missing = []
    fl = _fields(u, rec, root, prefix)
    under = [w for w in written if w[:len(prefix)] == prefix and len(w) > len(prefix)]
    if not under:
        return missing
    for fd in fl:
        p = prefix + (fd["n"],)
        t = u.types[fd["t"]]
        sub = [w for w in written if w[:len(p)] == p]
        if not sub:
            missing.append(p)
            continue
        if _isrec(t) and p not in written:
            if t["s"].startswith("union"):
                # a union is stored when one member is; a struct member that is started must be complete
                for fd2 in _fields(u, t.get("rec"), root, p):
                    t2 = u.types[fd2["t"]]
                    p2 = p + (fd2["n"],)
                    if _isrec(t2) and any(w[:len(p2)] == p2 for w in written) and p2 not in written:
                        missing += _check(u, t2.get("rec"), written, p2, root)
            else:
                missing += _check(u, t.get("rec"), written, p, root)
    return missing


def run(chk, P, units, rule="R-PARTIALINIT"):
    n = 0
    recs = whole_copied_records(P, units)
    for u in units:
        U = P.unit(u)
        for f in U.funcs(only_main=True):
            if f.entry is None:
                continue
            T = U.types
            cands = [p["n"] for p in f.params if T[p["t"]].get("ptr") and T[p["t"]].get("prec") in recs and not T[p["t"]].get("pconst")]
            for p in cands:
                rec = [T[q["t"]]["prec"] for q in f.params if q["n"] == p][0]
                # does f write fields through p (and never copies into it as a whole)?
                wr = False
                for x in f.walk():
                    a = assigned(x)
                    if a and (lv(a[0]) or "").startswith(p + "->"):
                        wr = True
                if not wr:
                    continue
                m = must.Must(f).run()
                k = 0
                for r in returns(f):
                    v = cval(r["c"][0]) if r.get("c") else None
                    if v is not None and v < 0:
                        continue
                    st = m.before.get(r["id"])
                    if st is None:
                        continue
                    written = set()
                    for fc in st:
                        if fc[0] == "asg" and fc[1].startswith(p + "->"):
                            written.add(tuple(fc[1][len(p) + 2:].replace("->", ".").split(".")))
                    if not written:
                        continue
                    k += 1
                    n += 1
                    miss = _check(U, rec, written)
                    chk.inst(rule, f, "return#%d:%s" % (k, p), not miss,
                             "%s fills a %s through `%s` (the program copies such records as a whole, e.g. at %s): on the paths to this successful return it stores %s%s"
                             % (f.name, rec, p, recs[rec][0], ", ".join(".".join(w) for w in sorted(written)),
                                " and every field of each sub-record it starts" if not miss else " -- but not %s: the copy takes an indeterminate value along" % ", ".join(".".join(w) for w in miss)), loc=f.loc(r))
    return n, recs
